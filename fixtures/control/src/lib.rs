//! Control fixture: positive examples for rules whose expected count on pearl is zero.
use std::sync::{Mutex, RwLock};

/// C08.D3 must fire: a std guard is live across an await
pub async fn std_guard_across_await(m: &Mutex<u32>) -> u32 {
    let g = m.lock().unwrap();
    std::future::ready(()).await;
    *g
}

/// C08.D3 must stay silent: the guard is dropped before the await
pub async fn std_guard_dropped_before_await(m: &RwLock<u32>) -> u32 {
    let v = { *m.read().unwrap() };
    std::future::ready(()).await;
    v
}
