#!/bin/bash
# dev helper: refresh /verif/.cache/facts.json from /repo's working tree (for rules/dump.py)
cd /verif && python3 - <<'PY'
import sys, os, shutil
sys.path.insert(0, 'rules')
import engine, core
orig = os.remove
keep = {}
def fake_remove(p):
    if 'facts-' in p:
        shutil.move(p, '/verif/.cache/facts.json')
    else:
        orig(p)
os.remove = fake_remove
engine.extract()
print('refreshed')
PY
