# property id -> (level text, technique, design ref)
CHECKS = {
 'C07': ("Decides the ownership/effect structure behind 'no harm': every raw destructive OS primitive call site lies in its owner module; positional writes only at constant offset 0 of a freshly created index file; append offsets originate only in the atomic size reservation and that counter is never decreased; destructive index maintenance only on with_extension(\"index\") paths; no query entry point can reach a mutator in the call graph; the blob-id counter is monotonic and seeded from failed-blob and quarantine ids; the quarantined path only flows into rename. Not decided: the byte-level prefix comparison itself (the kernel honouring offsets).",
         "who-may-call + value-provenance + call-graph effect reachability over rustc MIR", "DESIGN.md 6/C07"),
 'C12': ("Decides the ordering structure of the sync discipline on every CFG path (including error exits): completed `?`-checked sync before every ok-return of the blob constructor, before every index dump/construction, between retiring the active blob and publishing it, on the explicit fsyncdata path; dirty-byte trigger after every append and its route to a sync; synced-size bookkeeping only after an ok sync with a pre-captured size; written-flag after body and before sync. Not decided: the numeric bound on un-synced bytes under concurrent writes.",
         "must-pass-through (dominance) with inter-procedural must-on-ok summaries over rustc MIR", "DESIGN.md 6/C12"),
}
CHECKS.update({
 'C08': ("Decides structural necessary conditions of deadlock-freedom and non-interleaved appends: (D1) the wait-for graph over lock classes (lock crate x protected type, modes from guard types), the bounded observer channel and task joins - built from a forward held-guard dataflow at every call site and inter-procedural may-wait summaries - has no cycle whose modes conflict (fair/write-preferring RwLocks make R/R conflict when a writer exists); (D2) every record append happens under exclusive access (&mut Blob or a live upgradable/write guard) that is still held at the index push; (D3) no std::sync guard is live at a yield; (D4) offsets come only from the atomic reservation. Not decided: linearizability / freshness of observed values, lost updates as values.",
         "held-guard dataflow + wait-for graph cycle detection + typestate of exclusive access over rustc MIR", "DESIGN.md 6/C08"),
 'C13': ("Decides the liveness preconditions of background maintenance: the worker's message loop is left only through the Stop arm that is constructed only on recv()==None, no panic written in the worker module is reachable in the loop; one channel whose Sender is never cloned and is dropped before the worker handle is awaited; no guard live where close() joins the worker; after every ok write the size/count condition is evaluated and its true edge sends the rotation request whose handler reaches blob replacement; no armed wait-for cycle involves the worker. Not decided: bounded-time completion of requested dumps.",
         "natural-loop exit analysis, dominance, held-guard dataflow and wait-for graph over rustc MIR", "DESIGN.md 6/C13"),
})
CHECKS.update({
 'C11': ("Decides the error-path structure behind fault containment, on CFG paths no healthy-machine test takes (every `?` Break edge and explicit Err return): no err-exit between a move-out of shared state (active blob slot, closed list, in-memory header map) and its hand-back; an Err from a worker message never ends the maintenance loop; no Result of a fallible storage-layer call is dropped unobserved; file data is written with all-or-error primitives or the byte count is compared; a record header reaches the index only on the ok edge of its append. Not decided: the outcome of every n-th failing operation, the size counter after a short write.",
         "error-exit path analysis (must-pass-through between move-out and hand-back), result-use dataflow over rustc MIR", "DESIGN.md 6/C11"),
 'C14': ("Decides structural necessary conditions of cancellation safety using the `yield ... drop:` edges of pre-transform MIR as the cancellation points: offset reservation and the OS write lie in non-coroutine bodies run by a blocking runner; no yield between a completed append and its index push; in client-cancellable bodies no yield between a move-out of shared state and its hand-back; no RAII guard whose Drop undoes a counter reservation is live across a yield. Not decided: all-or-nothing effect of multi-blob deletes, the state after dropping at each of the k polls.",
         "suspension-point (yield) path analysis over pre-transform coroutine MIR + call-graph reachability from client-held futures", "DESIGN.md 6/C14"),
})
NOT_APPLICABLE = {
 'C02': "not claimed in this commit: rules under construction (see DESIGN.md section 6 for the planned structural clauses)",
 'C03': "not claimed in this commit: rules under construction (see DESIGN.md section 6 for the planned structural clauses)",
 'C04': "not claimed in this commit: rules under construction (see DESIGN.md section 6 for the planned structural clauses)",
 'C05': "not claimed in this commit: rules under construction (see DESIGN.md section 6 for the planned structural clauses)",
 'C06': "not claimed in this commit: rules under construction (see DESIGN.md section 6 for the planned structural clauses)",
 'C10': "not claimed in this commit: rules under construction (see DESIGN.md section 6 for the planned structural clauses)",
 'C15': "not claimed in this commit: rules under construction (see DESIGN.md section 6 for the planned structural clauses)",
 'C16': "not claimed in this commit: rules under construction (see DESIGN.md section 6 for the planned structural clauses)",
 'C17': "not claimed in this commit: rules under construction (see DESIGN.md section 6 for the planned structural clauses)",

 'C01': "Which record ranks first is a function of runtime values (timestamps, blob creation order, append order) over unbounded histories; no structural necessary condition beyond those decided under C04/C10 or already pinned by tests. Static analysis cannot decide it.",
 'C09': "Equality of two lookup procedures over every header multiset is arithmetic over sizes/offsets (leaf packing, fan-out, binary searches in serialised bytes); deciding it needs execution or symbolic reasoning - a different technique family.",
}
