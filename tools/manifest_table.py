# property id -> (level text, technique, design ref)
CHECKS = {
 'C07': ("Decides the ownership/effect structure behind 'no harm': every raw destructive OS primitive call site lies in its owner module; positional writes only at constant offset 0 of a freshly created index file; append offsets originate only in the atomic size reservation and that counter is never decreased; destructive index maintenance only on with_extension(\"index\") paths; no query entry point can reach a mutator in the call graph; the blob-id counter is monotonic and seeded from failed-blob and quarantine ids on every path of the error arm; the quarantined path only flows into rename. Not decided: the byte-level prefix comparison itself (the kernel honouring offsets).",
         "who-may-call + value-provenance + call-graph effect reachability over rustc MIR", "DESIGN.md 6/C07"),
 'C12': ("Decides the ordering structure of the sync discipline on every CFG path (including error exits): completed `?`-checked sync before every ok-return of the blob constructor, before every index dump/construction, between retiring the active blob and publishing it, on the explicit fsyncdata path; dirty-byte trigger after every append and its route to a sync; sync and retirement under one exclusive guard; synced-size bookkeeping only after an ok sync with a pre-captured size; written-flag after body and before sync; the in-progress flag guarding the sync is released on every exit. Not decided: the numeric bound on un-synced bytes under concurrent writes.",
         "must-pass-through (dominance) with inter-procedural must-on-ok summaries over rustc MIR", "DESIGN.md 6/C12"),
}
CHECKS.update({
 'C08': ("Decides structural necessary conditions of deadlock-freedom and non-interleaved appends: (D1) the wait-for graph over lock classes (lock crate x protected type, modes from guard types), the bounded observer channel and task joins - built from a forward held-guard dataflow at every call site and inter-procedural may-wait summaries - has no cycle whose modes conflict (fair/write-preferring RwLocks make R/R conflict when a writer exists); (D2) every record append happens under exclusive access (&mut Blob or a live upgradable/write guard) that is still held at the index push; (D3) no std::sync guard is live at a yield; (D4) offsets come only from the atomic reservation. Not decided: linearizability / freshness of observed values, lost updates as values.",
         "held-guard dataflow + wait-for graph cycle detection + typestate of exclusive access over rustc MIR", "DESIGN.md 6/C08"),
 'C13': ("Decides the liveness preconditions of background maintenance: the worker's message loop is left only through the Stop arm that is constructed only on recv()==None, no panic written in the worker module is reachable in the loop; one channel whose Sender is never cloned and is dropped before the worker handle is awaited; no guard live where close() joins the worker; after every ok write the size/count condition is evaluated and its true edge sends the rotation request whose handler reaches blob replacement; no armed wait-for cycle involves the worker; an armed deadline is never wiped; request flags are cleared on every handler path; requests are sent with the waiting send. Not decided: bounded-time completion of requested dumps.",
         "natural-loop exit analysis, dominance, held-guard dataflow and wait-for graph over rustc MIR", "DESIGN.md 6/C13"),
})
CHECKS.update({
 'C11': ("Decides the error-path structure behind fault containment, on CFG paths no healthy-machine test takes (every `?` Break edge and explicit Err return): no err-exit between a move-out of shared state (active blob slot, closed list, in-memory header map) and its hand-back; an Err from a worker message never ends the maintenance loop; no Result of a fallible storage-layer call is dropped unobserved; file data is written with all-or-error primitives or the byte count is compared; a record header reaches the index only on the ok edge of its append; an index cut short by a failed dump is never trusted; request-pending / in-progress flags are released on error exits too. Not decided: the outcome of every n-th failing operation, the size counter after a short write.",
         "error-exit path analysis (must-pass-through between move-out and hand-back), result-use dataflow over rustc MIR", "DESIGN.md 6/C11"),
 'C14': ("Decides structural necessary conditions of cancellation safety using the `yield ... drop:` edges of pre-transform MIR as the cancellation points: offset reservation and the OS write lie in non-coroutine bodies run by a blocking runner; no yield between a completed append and its index push; in client-cancellable bodies no yield between a move-out of shared state and its hand-back; no RAII guard whose Drop undoes a counter reservation is live across a yield; a blob is published in the active slot only once its index is in memory. Not decided: all-or-nothing effect of multi-blob deletes, the state after dropping at each of the k polls.",
         "suspension-point (yield) path analysis over pre-transform coroutine MIR + call-graph reachability from client-held futures", "DESIGN.md 6/C14"),
})
CHECKS.update({
 'C04': ("Decides the index typestate discipline that lifecycle operations must preserve: every value stored into the active-blob slot is certified InMemory by provenance (certified constructor, load_index ok, or popped after load_index ok on the last element); every index push is dominated by an InMemory-establishing event in the body or in every caller, or acts on the active slot; Blob::dump never acts on the blob in the active slot; a blob in transit stays under the exclusive storage guard; a transition back to InMemory re-initialises the filter; the closed-blob vector (child ids are positions) is never shrunk. Not decided: that answers are unchanged across every interleaving of maintenance and data operations.",
         "typestate via value provenance + dominance + held-guard dataflow over rustc MIR", "DESIGN.md 6/C04"),
 'C15': ("Decides the bookkeeping structure behind the counters: each header insertion is counted exactly once and the loader seeds the count from the index file; all public accessors of the closed-blob vector treat vacated slots as absent (sibling agreement); the corrupted-blob counter changes only in exclusive init and after a successful quarantine; a blob file created for the active slot is installed or returned on every ok path (no orphan file / consumed id); the gauges read one snapshot (a single acquisition of the storage lock); next_blob_id is fed by opened, failed and quarantined ids. Not decided: equality of every gauge with the operation history.",
         "must-pass-through, provenance and sibling-agreement rules over rustc MIR", "DESIGN.md 6/C15"),
})
CHECKS.update({
 'C03': ("Decides the gate through which an index file may contribute information: OnDisk is only built from a file after validate() ok with the blob file's own size; every gate impl tests written bit, version, key size, blob size (by equality) and magic with an error edge, plus the file's extent against its header; the loader deserialises only after validate + hash match; a failed load reaches clear() and regeneration; the open-failure handler yields only Index::new; the in-memory map has a single ordered insertion routine; two-phase written flag; blob id seeding. Not decided: equality of all answers before/after restart for all histories.",
         "dominance + provenance rules on the index trust gate over rustc MIR", "DESIGN.md 6/C03"),
 'C06': ("Decides the error-classification and scan structure behind crash recovery: every blob-file read/decode in the open path is converted to a quarantine-class error before `?`; the sequential scan accepts a header only after an extent check against the file size and stops only at the exact end of file; explicit scan errors are of a quarantine class; init promotes an existing blob only when one was opened and otherwise creates a fresh one; quarantine is a byte-preserving rename; a torn/stale index is never trusted; the id of a blob that failed to open is never reused. Not decided: real kill timing, the set of post-crash states, prefix equality with the acknowledged order; power-loss write reordering (F11) is out of reach and not claimed.",
         "error-path provenance (conversion idioms before `?`), dominance of extent checks, loop-exit condition analysis over rustc MIR", "DESIGN.md 6/C06"),
})
CHECKS.update({
 'C02': ("Decides the control structure of six clauses: the append in the write path is dominated (in its body or in every caller) by the duplicate-policy edges and a found duplicate is acknowledged without storing; closed blobs are only marked with only_if_presented = true (constant provenance); version lists are merged with a stable sort; a deletion marker is appended only unconditionally or on the is_found() edge of the blob's latest record; lists are cut right after the first marker; the point lookup consults every candidate closed blob before returning Ok. Not decided: rank order of read_all*, metadata matching, the count returned by delete (value-dependent).",
         "dominance + constant provenance + call-site predicates over rustc MIR", "DESIGN.md 6/C02"),
 'C05': ("Decides the audit structure behind byte integrity: no record data leaves a reading function (Entry::load, load_data, tools reader, start-up scan with data validation) without an ok data-checksum audit (must-on-ok summaries); scanned headers are accepted only after magic + header-CRC validation; the two header patch positions equal the trailing field sizes of record::Header; the audits return Ok only on the equal edge of computed vs stored CRC; the header CRC is computed after the offset patch; a two-buffer record is written head first. Not decided: byte-exact round trip for every size, threshold arithmetic, CRC32C detection probability.",
         "must-pass-through with must-on-ok summaries + layout-table agreement over rustc MIR", "DESIGN.md 6/C05"),
 'C10': ("Decides the conservative-default and coverage structure of the filters: who may answer `definitely absent` and under which justifying test (owner + dominating branch), Default/None => NeedAdditionalCheck; filter.add before every index insertion; CombinedFilter operations reach every component; add_child merges into node and every ancestor, overwrite-init only for a childless node, new root inherits; a failed merge degrades to unknown; off-load only from an on-disk index; OnDisk implies a known bloom offset; InMemory transition re-initialises the filter; the range merge can extend both bounds; bloom filters are merged only when hasher count and bit length are equal. Not decided: numeric agreement of the hash->bit mappings in memory and on file.",
         "who-may-construct + dominance + component-coverage (ADT table) + loop-shape rules over rustc MIR", "DESIGN.md 6/C10"),
 'C16': ("Decides structural clauses of the offline tools: the tools' record writer stamps its own position into blob_offset and recomputes the header CRC (sibling agreement with the storage writer); output is re-validated whenever validation was requested; the output create is dominated by `input != output` and a successful header read, in-place recovery renames first; the reader validates blob header, record header and data checksum; `position` follows the file cursor on every exit; the output is opened truncating; the skip after a bad header never trusts offsets stored in it; migration passes the source version to both preprocessors; the index tools load through the validating loader. Not decided: which records survive which damage; acceptance/rejection of every damaged file.",
         "sibling agreement + dominance + exit-path bookkeeping rules over rustc MIR", "DESIGN.md 6/C16"),
 'C17': ("Decides agreement of the compiler-resolved format table with the pinned release (positions/types/names-permutation of every serde-serialized type, Serialize field sequences incl. custom serialize_with, format constants by value, bincode entry points, bloom hasher keys) and that mismatching files are rejected on every open path (blob magic/version, record key size and magic, index version/key size/magic). Not decided: the hash function's arithmetic, B+tree/filter section layout as code, answers on a corpus.",
         "table agreement between compiler-extracted layout/constants and the pinned-commit table + dominance of rejection gates", "DESIGN.md 6/C17"),
})
NOT_APPLICABLE = {}
CHECKS.update({
 'C01': ("Decides only the structural necessary conditions of the three ranking criteria, not which record a given history ranks first (that is a function of runtime timestamps, blob creation order and append order over unbounded histories and is NOT decided): the in-memory insertion position is behind every record with an equal timestamp on every path (append recency; the binary-search path the suite never reaches); the point lookup consults the active blob and every candidate closed blob before returning Ok; both ReadResult::latest merges replace the accumulated result only on a strictly greater timestamp (first-seen survives a tie); the merge is fed active blob first, then closed blobs newest to oldest through an order-preserving stream (blob recency); the in-memory latest-version lookup takes the last element of the ascending per-key vector.",
         "dominance / must-pass-through on the insertion path, comparison-operator and operand-provenance rules on the merge, call-site predicates on the traversal order, over rustc MIR", "DESIGN.md 6/C01"),
 'C09': ("Decides only the conventions that serializer, search code and loader must share, not the equality of the two lookup procedures over every header multiset (leaf packing, fan-out, binary searches in serialised bytes are arithmetic and are NOT decided): keys are ordered through the key type everywhere in the index code (no byte-wise Ord on keys); every cursor over the leaf region, and the hand-over from the in-buffer walk to the file walk, moves by whole record headers (alignment abstract domain: multiples of record_header_size relative to an aligned base); the loaders return the record count of the index header; serializer, loader and all-versions search agree on `newest first on disk, ascending in memory`; the on-disk latest-version lookup takes the leftmost header of the key.",
         "abstract interpretation over an alignment domain for the leaf cursors + sibling-agreement and comparator who-may-call rules over rustc MIR", "DESIGN.md 6/C09"),
})

# clauses added by the round-3 seeded changes (appended to the texts above)
ADDED = {
 'C04': " Added: an assignment into the active slot never overwrites a live blob (emptiness seen through the guard in hand, exclusive init, or previous content moved out); a blob moved out of the slot / the closed list is handed back on every non-error exit; the index loaders return the record count of the index header.",
 'C05': " Added: the sequential scan reads record data only after the cursor was advanced by header size and meta size.",
 'C07': " Added: the sources of the blob-id counter are joined by a maximum, never by a selector (`or`, `unwrap_or`, `min`).",
 'C08': " Added: (D5) no check-then-act on the active slot across two lock acquisitions.",
 'C10': " Added: Bloom.bits_count and the length of the in-memory bit vector are one value at every construction / store.",
 'C11': " Added: once the tombstone is in the active blob a multi-blob delete cannot return Err.",
 'C12': " Added: sync requests use the waiting send; the worker declines to start the sync task only while JoinHandle::is_finished() is false.",
 'C13': " Added: a resumable maintenance loop advances past a failing element; every registration of the deferred index-dump event arms the worker deadline; background tasks are skipped only while one is really running.",
 'C14': " Added: the index state itself (mem::replace of IndexStruct.inner) counts as a move-out; a hand-back through an awaited callee is atomic only if that callee cannot really suspend (may-suspend analysis down to leaf futures).",
 'C15': " Added: a blob moved out of the active slot / closed list is never dropped on a normal path; the active slot is not overwritten while occupied; the loaders return the header's record count.",
 'C16': " Added: the tools reader's is_eof is a function of position and len only.",
 'C17': " Added: the sequential reader locates record data after header and meta as the pinned writer lays it out.",
}
ADDED.setdefault('C02', '')
ADDED['C02'] += ' Added: the Deleted answer of the per-blob meta lookup is taken from the marker-terminated version list.'
ADDED.setdefault('C03', '')
ADDED['C03'] += ' Added: a short (empty / cut) index file is regenerated - UnexpectedEof is converted at every index read of the open path, or the open-error handler does not give up on it; the regeneration scan locates record data after header and meta.'
ADDED.setdefault('C06', '')
ADDED['C06'] += " Added: read wrappers of the io layer report unsatisfiable reads only as UnexpectedEof; Blob::from_file scans whenever the file exceeds the blob header; the scan's data offset; short index files are regenerated."
ADDED['C04'] += ' keys are ordered through the key type, never as raw bytes, in the index code; the point lookup consults every candidate closed blob.'
ADDED['C07'] += ' In exclusive initialisation the counter is seeded (including the quarantined ids) before any id is taken from it.'
ADDED['C10'] += ' checked_add_assign reports `merged` only after or_with; a fresh bloom / range filter is only attached to an index without records.'
ADDED['C12'] += ' The sync trigger is level-triggered (a function of the dirty-byte level, the limit and the in-progress flag only).'
ADDED['C13'] += ' Incompatible filters are never merged on the worker path (the merge would panic inside the worker).'
ADDED['C14'] += ' A short index file left by a dropped close() is regenerated at the next start.'
ADDED['C15'] += ' A count is taken from an index file only after the full validation gate.'
ADDED['C17'] += ' Filters stored under another configuration are never merged as if compatible.'
ADDED['C04'] += ' Cursors over the on-disk leaf region move by whole record headers (alignment abstract domain).'
ADDED['C02'] += ' On-disk version lists: leaf cursors stay on the header grid; metadata equality is decided on decoded maps.'
ADDED['C17'] += ' The on-disk index is walked on the header grid.'
ADDED['C16'] += ' A key-generic validation tool loads the index with its own key type.'
ADDED['C11'] += ' No file of the io layer is opened with O_APPEND (the reserved offset is the offset written).'
ADDED['C08'] += ' (D6) the same O_APPEND clause.'
ADDED['C05'] += ' The data-validation flag handed to the regeneration scan is the configured flag and nothing else, and the configured flag reaches every blob config unchanged.'
ADDED['C06'] += ' The validation flag reaches the recovery scan unchanged.'
ADDED['C07'] += ' A request to the maintenance worker counts as a (deferred) mutation for the query entry points.'
ADDED['C10'] += ' The candidate iterator never pushes a vacated leaf.'
ADDED['C12'] += ' The configured dirty-byte limit reaches the configuration for every value.'
ADDED['C13'] += ' A state transition of the observer never drops a Running state on a returning path.'
ADDED['C14'] += ' Futures the library itself wraps in tokio::time::timeout are cancellable roots.'
ADDED['C15'] += ' Per-key header vectors of the in-memory index only grow or are cleared as a whole.'
ADDED['C17'] += ' The provided key types are ordered bytewise.'

ADDED['C01'] = ' NotFound ranks below every record in the merge (Option key).'
ADDED['C02'] += ' A plain write passes None metadata to the duplicate check; delete_core visits the closed blobs on every Ok path; the cross-blob merge is strict and ranks NotFound below every record.'
ADDED['C05'] += ' An error of Entry::load never ends in an Ok answer of a read; record size fields are computed by the serializer.'
ADDED['C06'] += ' Every validation error kind the scan can raise is classified as corruption.'
ADDED['C07'] += ' Every path into the id counter passes the maximum over work-dir and quarantine ids; every file takes the exclusive advisory lock.'
ADDED['C09'] = ' The on-disk walks return every version of a key (no deletion-marker test in the b+tree code).'
ADDED['C10'] += ' A child slot of the closed list is only filled in add_child.'
ADDED['C11'] += ' After any tombstone was written a multi-blob delete cannot return Err; blob ids are never reused.'
ADDED['C12'] += ' Posting the sync request depends on the trigger alone (deciding-switch analysis); the worker serves every sync request.'
ADDED['C16'] += ' The tools validate blob headers version-tolerantly; the output writer resets its cached-bytes counter wherever records leave its cache; record counts are never map sizes.'
ADDED['C17'] += ' Hand-written serde codecs use the data-model methods of the pinned release; the header CRC covers the whole patched header.'

ADDED['C10'] += ' The offset of the bloom buffer inside the index file equals, as an affine form over the writer\'s layout, the position the serializer puts it at (affine layout algebra over MIR).'
ADDED['C03'] += ' Reader and writer agree on the filter-section layout (affine layout algebra); the tree walk hands over to the next leaf.'
ADDED['C17'] += ' The filter-section offsets computed by the loader equal the pinned writer layout (affine forms).'
ADDED['C09'] += ' The layer passes of the tree serializer share one amount computation and their loop guards agree on the capacity; the leaf walk hands over to the right sibling.'
ADDED['C02'] += ' Every blob that contributes entries advances the counter that enables the cross-blob merge.'
ADDED['C04'] += ' Every entry source is counted for the cross-blob merge.'
ADDED['C05'] += ' A reused buffer is resized on every path before an exact positional read fills it.'
ADDED['C11'] += ' An index is dumped with the same notion of blob size it is later loaded and validated against.'
ADDED['C13'] += ' No re-raised panic (resume_unwind) is reachable from the worker loop.'
ADDED['C14'] += ' In a running session an index is rebuilt from the blob file only on the Err of loading the index file.'
ADDED['C16'] += ' Every ok return of the recovery / migration driver passes the creation of the output and the write of its header; the sequential index loader groups headers by key lookup, never by map position.'

ADDED['C04'] += ' An index file is built into an emptied or absent file (IoDriver::create does not truncate).'
ADDED['C08'] += ' (D8) every WritableDataCreator builds its result from the offset reserved for it inside the append closure.'
ADDED['C14'] += ' The offset a record is stamped with is the one its own non-cancellable closure reserved.'
ADDED['C06'] += ' The non-quarantine validation error BlobVersion is raised only after the magic-byte check passed.'
ADDED['C10'] += ' CombinedFilter add / clear reach every component on every path; the filter a storage reports for itself is None or built from the closed-blob root filter.'
ADDED['C15'] += ' records_count_in_active_blob answers Some only where it saw an active blob.'
ADDED['C16'] += ' Every tool loop asks is_eof() before each read_record; with skipping requested a record-level validation error always leads on to the next record.'
ADDED['C13'] += ' A failed index load ends in clear() + successful regeneration before the blob is handed on.'
ADDED['C09'] += ' The reused buffer of the on-disk walks is resized before every exact read.'
ADDED['C17'] += ' Metadata equality is decided on decoded maps, never on stored bytes.'

ADDED['C09'] += ' A completely filled non-leaf node fits into one block for every key length (fan-out and node-size formulas evaluated to polynomials, the division eliminated with q*D <= X); no function of the index code re-sorts a vector of record headers.'
ADDED['C03'] += ' A full inner node of the index file fits the block the lookups read (polynomial proof).'
ADDED['C04'] += ' A full inner node fits one block; the index of a restored blob is loaded and the blob popped through the same list guard.'
ADDED['C02'] += ' read_all strips exactly the trailing marker; Deleted is answered by the meta lookup only after the versions in front of the marker were searched.'
ADDED['C05'] += ' Every deletion record of a multi-blob delete carries a copy of the caller\'s metadata map.'
ADDED['C06'] += ' The io read wrappers refuse a read only when the requested range (offset and length) does not fit the file.'
ADDED['C10'] += ' CombinedFilter reports `merged` only after every component was merged; a range filter restored from bytes is the deserialised one or an error.'
ADDED['C13'] += ' Every successful initialisation has launched the maintenance worker.'
ADDED['C14'] += ' No two fields of a value held under one exclusive guard are written on the two sides of a suspension point in a client-cancellable body.'
ADDED['C15'] += ' The gauges never answer from try-locks.'
ADDED['C16'] += ' Every header preprocessor of recovery / migration builds the output header from the input header.'
ADDED['C17'] += ' The io read wrappers refuse only unsatisfiable ranges.'

ADDED['C01'] += ' Opened blobs are ordered by their numeric id and nothing else.'
ADDED['C02'] += ' The storage point lookups answer only after the traversal of all blobs completed.'
ADDED['C16'] += ' The tools writer re-stamps the header it was given (no fresh header that loses the deletion flag).'
ADDED['C10'] += ' Bits of the shared bit vector are updated by atomic read-modify-write operations.'
ADDED['C13'] += ' The maintenance worker waits for the locks it needs (no try-lock that drops a request under load).'
ADDED['C11'] += ' A per-operation registration in a shared collection is removed on every exit, error exits included.'
ADDED['C07'] += ' Initialisation bodies that take ids are seeded first; a quarantined blob keeps its own file name.'
ADDED['C15'] += ' A quarantined blob keeps its own file name (its id stays countable).'

ADDED['C05'] += ' The validation flag is traced through parameters to every caller (no constant `false`, no per-blob condition).'
ADDED['C11'] += ' The configured data-validation flag reaches every blob opened at start-up.'
ADDED['C02'] += ' Whether a lookup is restricted by metadata depends on Some / None only (an empty map is a map).'
ADDED['C10'] += ' A grouped walk over the words of a bit vector handles the remainder; push of the closed-blob tree counts slots.'
ADDED['C12'] += ' The dirty-byte level reported by a write / delete is read after the append.'
ADDED['C13'] += ' push of the closed-blob tree counts slots, never occupied children.'
ADDED['C14'] += ' No shared atomic counter is raised before and lowered after a suspension point by plain statements of a client-cancellable body.'
ADDED['C16'] += ' Meta::from_raw answers only with what the deserializer produced.'

ADDED['C02'] += ' An unconditional delete of a blob always appends a marker; a write is acknowledged without an append only after the duplicate check.'
ADDED['C04'] += ' The worker switches the active blob in one exclusive section; the allocation counter of a reloaded index is seeded from capacities.'
ADDED['C15'] += ' The allocation counter of a reloaded index is seeded from the capacities of the per-key vectors.'
ADDED['C13'] += ' The worker takes one request at a time; the allocation counter cannot underflow inside the worker.'
ADDED['C12'] += ' Two worker notifications of one operation are never the alternatives of one branch.'
ADDED['C16'] += ' A record header is built from scratch only where a new record is created; a buffering tools writer is flushed before success is reported.'
ADDED['C10'] += ' A clone of a bloom filter keeps its off-loaded state; the filter of the closed-blob tree is read at self.root.'
ADDED['C11'] += ' The recreate permission of the index parameters is the configured recreate_index_file.'
ADDED['C03'] += ' Index regeneration pushes every scanned header.'
ADDED['C17'] += ' The primitive types encoded / decoded directly with bincode are those of the pinned release (per module).'
ADDED['C10'] += ' Adding a child to the closed-blob tree consults no filter state; two optional filters merge to "both absent" only when both are.'
ADDED['C13'] += ' The worker aborts no task it started and subtracts no times with the panicking operator.'
ADDED['C07'] += ' The scan of the quarantine directory for used ids is unconditional.'
ADDED['C14'] += ' Storage::init launches the observer after its last suspension point; every path from a space reservation to a return attempts the write of the reserved range.'
ADDED['C05'] += ' The meta_size of a record is the serialized size of the Meta it carries.'
ADDED['C17'] += ' Stored child pointers of index nodes are used as absolute file offsets.'
ADDED['C11'] += ' Semaphore permits and semaphore acquisitions are one node class of the wait-for graph.'
ADDED['C01'] += ' A leaf of the on-disk index starts at the newest header of a key.'
ADDED['C09'] += ' A leaf of the on-disk tree starts at the first header of a key.'
ADDED['C07'] += ' A two-part record is written front to back; no preallocation / truncation call changes the length of a blob file.'
ADDED['C08'] += ' No client-facing storage body takes the shared storage lock twice in a row.'
ADDED['C04'] += ' Keys are ordered through the key type in the range filter too.'
ADDED['C13'] += ' The worker never unwraps the active-blob slot; no deadline stays armed for a deferred dump whose event was taken out.'
ADDED['C17'] += ' No key- or file-dependent value is cached in a process-wide static.'
ADDED['C12'] += ' The size recorded as synced counts completed writes only, never the reservation of an append in flight (finding F16).'
ADDED['C01'] += ' A record is stamped with the timestamp the client passed, unchanged.'
ADDED['C02'] += ' Delete and write stamp the record with the client timestamp; the metadata of a deletion marker is never a lookup filter.'
ADDED['C13'] += ' The first-request time of a deferred event is set at its creation only.'
ADDED['C12'] += ' Dirty bytes are the exact difference of the written and the synced counter.'
ADDED['C16'] += ' migrate_blob reports success only after the copy pipeline ran.'
ADDED['C06'] += ' A read is refused only against the size of the file, never against a counter that can lag behind it.'
ADDED['C07'] += ' The id counter is seeded with max + 1 computed by the checked addition.'
ADDED['C10'] += ' A group node created under the root has a parent link.'
ADDED['C11'] += ' A failed index dump of one closed blob does not end the pass over the closed blobs; a blob size read before an append is not used for the index afterwards.'
ADDED['C13'] += ' A clean close completes the index dumps of the closed blobs (finding F17).'
ADDED['C16'] += ' After a clean close the index file of every closed blob is current (finding F17); the offline reader skips record data only after a header validation failure.'

for _k, _v in ADDED.items():
    _t = CHECKS[_k]
    CHECKS[_k] = (_t[0] + _v, _t[1], _t[2])
