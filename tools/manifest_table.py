# property id -> (level text, technique, design ref)
CHECKS = {
 'C07': ("Decides the ownership/effect structure behind 'no harm': every raw destructive OS primitive call site lies in its owner module; positional writes only at constant offset 0 of a freshly created index file; append offsets originate only in the atomic size reservation and that counter is never decreased; destructive index maintenance only on with_extension(\"index\") paths; no query entry point can reach a mutator in the call graph; the blob-id counter is monotonic and seeded from failed-blob and quarantine ids; the quarantined path only flows into rename. Not decided: the byte-level prefix comparison itself (the kernel honouring offsets).",
         "who-may-call + value-provenance + call-graph effect reachability over rustc MIR", "DESIGN.md 6/C07"),
 'C12': ("Decides the ordering structure of the sync discipline on every CFG path (including error exits): completed `?`-checked sync before every ok-return of the blob constructor, before every index dump/construction, between retiring the active blob and publishing it, on the explicit fsyncdata path; dirty-byte trigger after every append and its route to a sync; synced-size bookkeeping only after an ok sync with a pre-captured size; written-flag after body and before sync. Not decided: the numeric bound on un-synced bytes under concurrent writes.",
         "must-pass-through (dominance) with inter-procedural must-on-ok summaries over rustc MIR", "DESIGN.md 6/C12"),
}
NOT_APPLICABLE = {
 'C02': "not claimed in this commit: rules under construction (see DESIGN.md section 6 for the planned structural clauses)",
 'C03': "not claimed in this commit: rules under construction (see DESIGN.md section 6 for the planned structural clauses)",
 'C04': "not claimed in this commit: rules under construction (see DESIGN.md section 6 for the planned structural clauses)",
 'C05': "not claimed in this commit: rules under construction (see DESIGN.md section 6 for the planned structural clauses)",
 'C06': "not claimed in this commit: rules under construction (see DESIGN.md section 6 for the planned structural clauses)",
 'C08': "not claimed in this commit: rules under construction (see DESIGN.md section 6 for the planned structural clauses)",
 'C10': "not claimed in this commit: rules under construction (see DESIGN.md section 6 for the planned structural clauses)",
 'C11': "not claimed in this commit: rules under construction (see DESIGN.md section 6 for the planned structural clauses)",
 'C13': "not claimed in this commit: rules under construction (see DESIGN.md section 6 for the planned structural clauses)",
 'C14': "not claimed in this commit: rules under construction (see DESIGN.md section 6 for the planned structural clauses)",
 'C15': "not claimed in this commit: rules under construction (see DESIGN.md section 6 for the planned structural clauses)",
 'C16': "not claimed in this commit: rules under construction (see DESIGN.md section 6 for the planned structural clauses)",
 'C17': "not claimed in this commit: rules under construction (see DESIGN.md section 6 for the planned structural clauses)",

 'C01': "Which record ranks first is a function of runtime values (timestamps, blob creation order, append order) over unbounded histories; no structural necessary condition beyond those decided under C04/C10 or already pinned by tests. Static analysis cannot decide it.",
 'C09': "Equality of two lookup procedures over every header multiset is arithmetic over sizes/offsets (leaf packing, fan-out, binary searches in serialised bytes); deciding it needs execution or symbolic reasoning - a different technique family.",
}
