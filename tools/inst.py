#!/usr/bin/env python3
"""dev helper: tools/inst.py <Cxx> [rule-suffix] [facts.json]  -- list rule instances on cached facts"""
import os, sys
sys.path.insert(0, '/verif/rules')
import engine, core
prop = sys.argv[1]
suffix = sys.argv[2] if len(sys.argv) > 2 else ''
prog = core.Program(sys.argv[3]) if len(sys.argv) > 3 else engine.extract()
code, lines, ev, ctx = engine.run_property(prop, 'quick', prog=prog, write=False)
for i in ctx.insts:
    if suffix and not i.rule.endswith(suffix):
        continue
    print('%s %-4s %s @%s\n      %s' % (i.rule, 'ok' if i.ok else 'BAD', i.key, i.where, i.detail[:300]))
for l in lines:
    if 'anchor' in l or 'ENGINE' in l:
        print(l)
