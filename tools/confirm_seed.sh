#!/bin/bash
# usage: confirm_seed.sh <Cxx> <a|b>   -- confirms a sub-agent seed against /repo HEAD in a scratch worktree
# result: /tmp/cs/results/<Cxx>-<ab>.json ; the worktree is removed afterwards
ID=$1; AB=$2
SRC=/tmp/seed/$ID/seed/$AB
WT=/tmp/cs/wt-$ID-$AB
RES=/tmp/cs/results; mkdir -p $RES /tmp/cs/tmp-$ID-$AB
export CARGO_NET_OFFLINE=true CARGO_TARGET_DIR=/tmp/cs/target TMPDIR=/tmp/cs/tmp-$ID-$AB
OUT=$RES/$ID-$AB.json
[ -f $SRC/patch.diff ] || { echo "{\"seed\":\"$ID-$AB\",\"error\":\"no patch\"}" > $OUT; exit 0; }
git -C /repo worktree remove --force $WT 2>/dev/null; rm -rf $WT
git -C /repo worktree add --detach $WT ${BASE:-HEAD} >/dev/null 2>&1
cd $WT
DEMO=$(python3 -c "import json;print(json.load(open('$SRC/meta.json')).get('demo_path','tests/seed_demo_$AB.rs'))" 2>/dev/null || echo tests/seed_demo_$AB.rs)
cp $SRC/demo.rs $DEMO
T=$(basename $DEMO .rs)
run_demo() { timeout 900 cargo test --offline --test $T 2>&1 | tail -40 > /tmp/cs/demo-$ID-$AB-$1.log; grep -q "test result: ok" /tmp/cs/demo-$ID-$AB-$1.log && ! grep -q "test result: FAILED" /tmp/cs/demo-$ID-$AB-$1.log; }
if run_demo base; then BASE=pass; else BASE=fail; fi
APPLY=ok
git apply $SRC/patch.diff 2>/dev/null || git apply --3way $SRC/patch.diff 2>/dev/null || APPLY=fail
SUITE=na; PD=na
if [ $APPLY = ok ]; then
  timeout 1200 cargo test --offline --lib --test tests 2>&1 | grep -E "^test result|error(\[|:)" > /tmp/cs/suite-$ID-$AB.log
  P=$(grep -oE "[0-9]+ passed" /tmp/cs/suite-$ID-$AB.log | awk '{s+=$1} END{print s+0}')
  F=$(grep -oE "[0-9]+ failed" /tmp/cs/suite-$ID-$AB.log | awk '{s+=$1} END{print s+0}')
  SUITE="$P passed $F failed"
  if run_demo patched; then PD=pass; else PD=fail; fi
fi
echo "{\"seed\":\"$ID-$AB\",\"head\":\"$(git -C $WT rev-parse --short HEAD 2>/dev/null || echo ${BASE:-HEAD})\",\"apply\":\"$APPLY\",\"baseline_demo\":\"$BASE\",\"patched_suite\":\"$SUITE\",\"patched_demo\":\"$PD\"}" > $OUT
cd /; git -C /repo worktree remove --force $WT; rm -rf /tmp/cs/tmp-$ID-$AB
cat $OUT
