#!/usr/bin/env python3
"""Generates rules/tables/format_pinned.json from a checkout of the PINNED commit (the format oracle of C17).
usage: tools/pin_format.py <path-to-checkout-of-pinned-commit>"""
import json, os, sys
HERE = os.path.dirname(os.path.dirname(os.path.abspath(__file__)))
sys.path.insert(0, os.path.join(HERE, 'rules'))
import engine
import importlib
repo = sys.argv[1]
prog = engine.extract(repo=repo, target=os.path.join(engine.CACHE, 'target-pin'), tag='pin')
c17 = importlib.import_module('props.c17')
t = c17.build_table(prog)
t['_generated_from'] = os.popen('git -C %s rev-parse HEAD' % repo).read().strip()
out = os.path.join(HERE, 'rules', 'tables', 'format_pinned.json')
json.dump(t, open(out, 'w'), indent=1, sort_keys=True)
print('written', out, len(t['structs']), 'types', len(t['consts']), 'consts', len(t['bincode']), 'bincode fns')
