#!/bin/bash
# usage: km_round.sh <suffix e.g. r3>  -> one line per seed: caught-by rules
for id in C01 C02 C03 C04 C05 C06 C07 C08 C09 C10 C11 C12 C13 C14 C15 C16 C17; do for ab in a b; do
  p=/tmp/seed/${id}$1/seed/$ab/patch.diff; [ -f $p ] || continue
  r=$(/verif/tools/kill_matrix.sh $p | grep -E "^VIOLATION|NOAPPLY|ENGINE" | sed -E 's/VIOLATION property=C[0-9]+ (C[0-9]+_[A-Za-z0-9]+).*/\1/' | sort -u | tr '\n' ' ')
  echo "${id}$1-$ab: $r"
done; done
