import json, os, subprocess, tempfile
def batch(patches):
    """{patch: [rules] | None} computed with tools/fired_parallel.py"""
    fd, out = tempfile.mkstemp(suffix='.json'); os.close(fd)
    subprocess.run(['/verif/tools/fired_parallel.py', out] + list(patches), check=True)
    r = json.load(open(out)); os.remove(out)
    return r
