#!/usr/bin/env python3
"""Writes rules/tables/fn_signatures.json from /repo's current tree: the function names the rules were written against."""
import json, os, sys
os.environ['PEARL_VERIF_PINNING'] = '1'    # the table is taken from the tree as it is: no re-binding target, nothing inlined
sys.path.insert(0, '/verif/rules')
import engine, anchors
prog = engine.extract()
sig = anchors.signatures(prog.j)
json.dump(sig, open('/verif/rules/tables/fn_signatures.json', 'w'), indent=0, sort_keys=True)
items = anchors.item_paths(prog.j)
json.dump(items, open('/verif/rules/tables/item_paths.json', 'w'), indent=0, sort_keys=True)
print('pinned', len(sig), 'function signatures,', len(items['adts']), 'types,', len(items['traits']), 'traits')
