#!/usr/bin/env python3
"""Copies the sub-agent seeds into /verif/seeded/<id>/ and records confirmation + kill matrix."""
import json, os, shutil, subprocess, sys
PORTED = {'C04-b': 'ported_C04b_narrow_lock.diff', 'C13-a': 'ported_C13a_request_flag.diff', 'C14-b': 'ported_C14b_reserved_id_guard.diff'}
out = '/verif/seeded'
os.makedirs(out, exist_ok=True)
summary = []
for pid in ['C02','C03','C04','C05','C06','C07','C08','C10','C11','C12','C13','C14','C15','C16','C17']:
    for ab in 'ab':
        sid = '%s-%s' % (pid, ab)
        src = '/tmp/seed/%s/seed/%s' % (pid, ab)
        if not os.path.exists(src + '/patch.diff'):
            continue
        d = os.path.join(out, sid)
        os.makedirs(d, exist_ok=True)
        shutil.copy(src + '/patch.diff', d + '/patch.diff')
        shutil.copy(src + '/demo.rs', d + '/demo.rs')
        agent_meta = json.load(open(src + '/meta.json')) if os.path.exists(src + '/meta.json') else {}
        head_patch = d + '/patch.diff'
        if sid in PORTED:
            shutil.copy('/verif/mutants/' + PORTED[sid], d + '/patch_head.diff')
            head_patch = d + '/patch_head.diff'
        r = subprocess.run(['/verif/tools/kill_matrix.sh', head_patch], stdout=subprocess.PIPE, text=True).stdout
        rules = sorted({l.split('\t')[0].split()[-1] for l in r.splitlines() if l.startswith('VIOLATION')})
        props = sorted({x.split('_')[0] for x in rules})
        conf = {}
        for f in ('/tmp/cs/results/%s.json' % sid,):
            if os.path.exists(f):
                conf = json.load(open(f))
        base = None
        for l in open('/tmp/cs/base.log') if os.path.exists('/tmp/cs/base.log') else []:
            if l.startswith('{') and json.loads(l)['seed'] == sid:
                base = json.loads(l)
        meta = {
            'id': sid, 'property': pid,
            'summary': agent_meta.get('summary', ''),
            'needs_to_manifest': agent_meta.get('needs_to_manifest', ''),
            'demo_path': agent_meta.get('demo_path', 'tests/seed_demo_%s.rs' % ab),
            'author': 'fresh sub-agent given only the property text and a scratch worktree of /repo at 8fcb7aa',
            'confirmed_by_me': {
                'how': 'tools/confirm_seed.sh: scratch git worktree of /repo, demo on the clean tree (must pass), patch applied (git apply / --3way), cargo test --lib --test tests (76 must pass), demo again (must fail); worktree removed afterwards',
                'at_repo_head': conf, 'at_pinned_base_8fcb7aa': base,
            },
            'ported_to_head': sid in PORTED and 'patch_head.diff is my port of the same change onto /repo HEAD (the original no longer applies after the fix: commits); re-confirmed the same way in a scratch worktree (suite 76 pass, demo fails with / passes without)' or None,
            'caught_by_rules': rules, 'caught_by_checks': props,
            'caught_by_own_property_check': pid in props,
        }
        json.dump(meta, open(d + '/meta.json', 'w'), indent=1)
        summary.append((sid, props, rules))
        print(sid, props, rules, flush=True)
json.dump([{'seed': s, 'checks': p, 'rules': r} for s, p, r in summary], open(out + '/KILL_MATRIX.json', 'w'), indent=1)
