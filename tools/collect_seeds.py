#!/usr/bin/env python3
"""Copies sub-agent seeds into /verif/seeded/<id>/ (round 2: /tmp/seed/<Cxx>r2/seed/<ab>) and refreshes the kill matrix of every
seed directory (tools/kill_matrix.sh on a scratch copy of /repo HEAD)."""
import json, os, shutil, subprocess, sys, glob
out = '/verif/seeded'
NOTES = {'C12r14-a': 'confirmed at db45bf7, the tree the sub-agent worked on. The change cooperated with the defect F16 of the unchanged code (a sync recorded the reservation counter as synced, so a reservation given back after a failed append left synced_size above size). On the repaired tree (5b3c102: syncs record the count of completed writes) giving a reservation back no longer touches the dirty-byte accounting; the edit still lets a later append reuse an offset below the high-water mark of the file and is reported by C07.H3 / C08.D4 (patch_head.diff is the edit carried over to the repaired file).',
         'C04-a': 'confirmed at 1ed2f78. Since the repair of the dump path (285cda4: a failed index dump puts the header map back) the failed dump this change provokes no longer empties the in-memory index, so the demo passes with the change on the current tree (re-run at db45bf7 with patch_head.diff). The edit is still wrong - every later dump of such a blob fails and background maintenance never completes, which is what seed C13r7-a (the same edit, confirmed at db45bf7 against C13) demonstrates - and is reported by C04.T5 / C10.B8.',
         'C08r11-a': 'timing dependent: in my confirmation the demo passed in the two scripted runs with the patch applied and failed in 1 of 3 further runs (a reader has to hit the window in which the blob is neither active nor closed); it never fails on the clean tree. Statically the change is decided by C04.T4 / C14.X3 (the blob leaves the exclusive section between take and push).',
         'C04r8-a': 'NOT a valid seed: in my confirmation the existing suite fails with this change applied (tests::test_read_ordered_by_timestamp_in_different_blobs and test_multithread_read_write_exist_delete, 4 of 4 runs, fresh TMPDIR) although the sub-agent reported 76 passes. Kept for the record; the rule written from it (C04.T15: an index file is built into an emptied or absent file) is a necessary condition in its own right and stays.',
         'C08r5-a': 'confirmed at 3f851bc (the tree the sub-agent worked on). The change relied on re-opened blobs being O_APPEND descriptors (finding F14, repaired by 067f913): with positional writes the order of the two pwrites of a large record is immaterial, the demo passes with the patch on the repaired tree, and the rule that used to flag it (C05.V6) was retired.',
         'C05r5-b': 'confirmed at 3f851bc. On the repaired tree (067f913, no O_APPEND) concurrent positional writes to a re-opened blob land at their reserved offsets, so the byte-integrity demo passes; the same lock downgrade still breaks the append-order clause (seed C01r5-b, confirmed at HEAD) and is reported by C08.D2.',
         'C05r2-a': 'after the repair of F14 (067f913) this change no longer breaks the property on the current tree (see C08r5-a); C05.V6 was retired.',
         'C13r3-b': 'confirmed at f18d1db, the tree the sub-agent worked on. It cooperated with the defect F13 of the unchanged code (a postponed deferred dump re-registered without a deadline). On the repaired tree (3f851bc) every registration arms the deadline, a refresh without re-arming is harmless (the handler of a reached deadline re-arms when the event is not due), the demo passes with the patch applied and C13.L11 is - correctly - silent on it.'}
PORTED = {'C04-b': 'ported_C04b_narrow_lock.diff', 'C13-a': 'ported_C13a_request_flag.diff', 'C14-b': 'ported_C14b_reserved_id_guard.diff'}
# import round 2
for pid in ['C01','C02','C03','C04','C05','C06','C07','C08','C09','C10','C11','C12','C13','C14','C15','C16','C17']:
  for rnd in (2, 3, 4, 5, 6, 7, 8, 9, 10, 11, 12, 13, 14, 15):
    for ab in 'ab':
        src = '/tmp/seed/%sr%d/seed/%s' % (pid, rnd, ab)
        sid = '%sr%d-%s' % (pid, rnd, ab)
        if not os.path.exists(src + '/patch.diff'):
            continue
        d = os.path.join(out, sid)
        os.makedirs(d, exist_ok=True)
        shutil.copy(src + '/patch.diff', d + '/patch.diff')
        shutil.copy(src + '/demo.rs', d + '/demo.rs')
        am = json.load(open(src + '/meta.json')) if os.path.exists(src + '/meta.json') else {}
        conf = {}
        f = '/tmp/cs/results/%sr%d-%s.json' % (pid, rnd, ab)
        if os.path.exists(f):
            conf = json.load(open(f))
        elif os.path.exists(d + '/meta.json'):
            conf = json.load(open(d + '/meta.json')).get('confirmed_by_me', {}).get('at_repo_head', {})
        meta = {'id': sid, 'property': pid, 'round': rnd, 'summary': am.get('summary', ''), 'needs_to_manifest': am.get('needs_to_manifest', ''),
                'demo_path': am.get('demo_path', 'tests/seed_demo_%s.rs' % ab),
                'author': 'fresh sub-agent (round %d) given only the property text, the summaries of the earlier rounds\' changes to avoid, and a scratch worktree of /repo HEAD' % rnd,
                'confirmed_by_me': {'how': 'tools/confirm_seed.sh: scratch git worktree of /repo HEAD, demo on the clean tree (must pass), patch applied, cargo test --lib --test tests (76 must pass), demo again (must fail); worktree removed afterwards', 'at_repo_head': conf}}
        json.dump(meta, open(d + '/meta.json', 'w'), indent=1)
if os.environ.get('IMPORT_ONLY'):
    sys.exit(0)
sys.path.insert(0, '/verif/tools')
import firedlib
def patch_of(d):
    return d + '/patch_head.diff' if os.path.exists(d + '/patch_head.diff') else d + '/patch.diff'
FIRED = firedlib.batch([patch_of(d) for d in sorted(glob.glob(out + '/C*-*'))])
summary = []
for d in sorted(glob.glob(out + '/C*-*')):
    sid = os.path.basename(d)
    pid = sid[:3]
    patch = d + '/patch_head.diff' if os.path.exists(d + '/patch_head.diff') else d + '/patch.diff'
    rules = FIRED.get(patch) or []
    props = sorted({x.split('.')[0] for x in rules})
    meta = json.load(open(d + '/meta.json'))
    meta['caught_by_rules'] = rules
    if sid in NOTES:
        meta['note'] = NOTES[sid]
    meta['caught_by_checks'] = props
    meta['caught_by_own_property_check'] = pid in props
    json.dump(meta, open(d + '/meta.json', 'w'), indent=1)
    summary.append({'seed': sid, 'checks': props, 'rules': rules})
    print(sid, props, rules, flush=True)
json.dump(summary, open(out + '/KILL_MATRIX.json', 'w'), indent=1)
