#!/usr/bin/env python3
"""Generates /verif/DESIGN.md from docs/DESIGN.tmpl.md + rule tables + findings + registry + kill matrix."""
import importlib
import json
import os
import re
import sys

V = '/verif'
sys.path.insert(0, V + '/rules')
sys.path.insert(0, V + '/tools')
import engine  # noqa
from manifest_table import CHECKS, NOT_APPLICABLE  # noqa

TITLES = {}
for l in open(V + '/properties.jsonl'):
    p = json.loads(l)
    TITLES[p['id']] = p['title']

SEED_DRIVEN = {'C02.U3', 'C02.U4', 'C02.U6', 'C03.I8', 'C04.T4', 'C04.T5', 'C04.T6', 'C05.V4', 'C05.V6', 'C06.K7', 'C06.K8', 'C07.H6d', 'C08.D1',
               'C10.B4', 'C10.B9', 'C10.B10', 'C11.F4', 'C11.F6', 'C11.F7', 'C12.S3b', 'C12.S8', 'C13.L7', 'C13.L8', 'C13.L9', 'C14.X4', 'C14.X5',
               'C15.A4', 'C15.A5', 'C15.A6', 'C16.W5', 'C16.W6', 'C16.W8', 'C16.W9',
               'C04.T7', 'C04.T8', 'C04.T9', 'C05.V7', 'C08.D5', 'C10.B11', 'C11.F8', 'C12.S9', 'C12.S10', 'C13.L10', 'C13.L11', 'C13.L12', 'C15.A7', 'C15.A8', 'C16.W10', 'C17.Z3',
               'C02.U7', 'C02.U8', 'C02.U9', 'C03.I9', 'C03.I10', 'C04.T10', 'C04.T11', 'C04.T12', 'C06.K9', 'C06.K10', 'C06.K11', 'C06.K12', 'C10.B12', 'C12.S11', 'C13.L13', 'C14.X6', 'C15.A9', 'C16.W11', 'C17.Z4', 'C17.Z5'}

FINDINGS = [
 ('F1', 'C13.L1, C11.L1', '`create_active_blob_in_background()` while an active blob exists ⇒ `process_msg` returns Err ⇒ `ObserverWorker::run` panics; after that an overflowing blob is never rotated', '1ed2f78', 'log and continue'),
 ('F2', 'C04.T1 (C14.X5)', 'write k1; `try_close_active_blob`; wait for the background index dump; `try_restore_active_blob`; write k2 ⇒ `Err("Index is closed…")`, bytes appended, k2 served only after restart', 'be3750e', 'load the index while the blob is still in the closed list, then move it'),
 ('F3', 'C12.S4', '`write; fsyncdata()` ⇒ no `fsync` syscall (strace): the public call shared the threshold / in-progress short-cuts of the background path', '3be7d2c', 'explicit call syncs unconditionally'),
 ('F4', 'C11.X3', '`mkdir <dir>/t.0.index`; `try_close_active_blob`; background dump fails ⇒ `read(k1)` = NotFound, `records_count` = 0 (`mem::take` of the header map before the fallible `from_records`)', '285cda4', 'put the headers back on error'),
 ('F4b', 'C11.X3, C14.X3', 'write k1; `try_close_active_blob` with fsync failing (EIO) ⇒ Err, then `read(k1)` = NotFound; same when the close future is dropped at the fsync await (`take()` before `fsyncdata().await?`)', '5d500f2', 'sync first while the blob sits in the slot, then take + push without a suspension point between'),
 ('F5', 'C08.D1, C13.L6', '4000 concurrent over-limit writes hang: write/delete sent their requests to the 1024-slot observer channel while holding the storage lock (and the active blob\'s read lock); the worker needs the storage lock exclusively', '4b634dc', 'compute the decisions under the lock, send after it is released'),
 ('F6', 'C16.W1', '3 records of 100 B; flip a data byte of record 2; `recovery_blob(in,out,1,true)`; open storage on out ⇒ `read(k3)` = Err: `BlobWriter::write_record` kept the stale `blob_offset`', 'f18d1db', 'stamp the writer position and recompute the header CRC'),
 ('F7', 'C07.H6, C03.I7', 'blobs 0,1,2; blob 2 quarantined; restart ⇒ `next_blob_id` = 2 again; a later quarantine renames over the preserved file', '4f26409', 'seed the counter from the names in the corrupted dir as well'),
 ('F8', 'C15.A2', 'close + restore of the active blob ⇒ `blobs_count()` = 2 with one blob: `HierarchicalFilters::len` counted vacated slots', 'b21a1de', 'count occupied slots'),
 ('F9', 'C06.K2', 'records k1 (100 B), k2 (5000 B); remove index; cut the last 5000 bytes (header+meta remain); reopen; write k3; close; remove index; reopen ⇒ k3 NotFound, corrupted = 0', '8308439', 'extent check in the scan ⇒ quarantine-class error'),
 ('F10', 'C03.I5, C06.K7, C11.F6', 'closed blob t.0 with 3 keys; truncate `t.0.index` by 10 bytes (header intact); reopen ⇒ stored keys read NotFound', 'f68f230', 'compare the file size with the extent implied by the header in `validate`'),
 ('F13', 'C13.L11', 'closed blobs 0,1; an explicit dump task is held at blob 1 (dump semaphore); `delete(k)` in closed blob 0 requests a deferred dump; it becomes due while the task is busy ⇒ the event is registered again but `next_deadline` stays None: the requested index dump of blob 0 never runs (`docs/probes/probe_f13.rs`, found while triaging seed C13r3-b)', '3f851bc', 'arm the deadline when the event is postponed'),
 ('F14', 'C11.F9, C08.D6', 'session 1: write k0..k2, close; session 2 (blob 0 re-opened as the active blob): one 6000-byte write fails half-way (RLIMIT_FSIZE, EFBIG); limit restored; write k200..k204 ⇒ Ok; `read(k200)` ⇒ Err: `IoDriver::open` used `append(true)`, so `pwrite` ignored the reserved offset and every later record of that blob lies before the offset its index entry records (`docs/probes/probe_f14.rs`; pointed out by the sub-agent of seed C11r5, exploited by seeds C05r5-b and C08r5-a)', '067f913', 're-opened files are opened for positional writing like fresh ones'),
 ('F15', 'C14.X10', 'write 40 records (bloom filter on); `try_close_active_blob`; wait for `test.0.index`; `BloomProvider::offload_buffer(&mut storage, usize::MAX, 0)`; poll `try_restore_active_blob()` twice and drop it (it is suspended at `read_meta().await` in `IndexStruct::load_in_memory`, which had already switched the state to InMemory); a fresh `try_restore_active_blob()` ⇒ Ok, `write` ⇒ Ok, `close()` ⇒ Err "index file dump failed …: Filter buffer offloaded, can\'t serialize" - the same after a `delete` of a key in the closed blob dropped at its third poll (`docs/probes/probe_f15.rs`). Found by generalising C14.X10 (two fields of an exclusively held value written on the two sides of a suspension point) from guards to `&mut` receivers: the whole crate has exactly this one instance; the sub-agent of seed C14r13 had noticed the symptom independently', 'db45bf7', 'the filter section is read and decoded first; state, filter and bloom offset are switched together after the last suspension point'),
 ('F16', 'C12.S17', 'limit 1000; `write` W1 (2000 B) requests the background sync; `write` W2 (2000 B) has reserved its range (`size.fetch_add`) and is held inside `pwrite64`; the sync runs: `File::fsyncdata` had captured `size` (W2\'s reservation included), `sync_all` returns, `synced_size` = that size; W2\'s bytes are written afterwards and W2 is acknowledged with 0 dirty bytes ⇒ no sync of the blob follows within 3 s although 2069 acknowledged bytes are un-synced, and a later 569-byte W3 triggers none either (`docs/probes/probe_f16.rs`, pwrite64 / fsync interposed in the test binary; fails 3/3 on db45bf7 and in my own run, passes on the repair). Pointed out by the sub-agent of seed C12r14; the rule that now decides it (the value recorded as synced must not be loaded from the counter the appends advance before their write) was written from the finding', '5b3c102', 'completed writes are counted separately (`written_size`, advanced after the positional write); a sync records the value read before it started; `dirty_bytes()` = written - synced'),
 ('F17', 'C13.L26, C16.W24', 'write 5 records; `try_close_active_blob`; wait for `test.0.index` (`validate_index` ⇒ Ok, `read_index` ⇒ 5 headers); `delete(key 2)` appends a deletion record to the closed blob, reloads its index into memory and requests a deferred dump (30 s); `close()` ⇒ Ok - it dumped only the active blob and stopped the observer, which does not run pending deferred dumps; afterwards `validate_index(test.0.index)` ⇒ Err(IndexBlobSize: header is for a blob of 685 bytes, the blob has 754) and `read_index` ⇒ 5 headers although the blob holds 6 (`docs/probes/probe_f17.rs`). Noticed as a side remark by the sub-agent of seed C16r14; the rule (every return of `Storage::close` is preceded by a loop that dumps the closed blobs, or a callee that does) was written from it', '8b99d48', '`close` dumps every closed blob after the active one, under the same exclusive storage guard; `Blob::dump` is a no-op for an index that is on disk'),
 ('F12', 'C06.K5', '`ignore_corrupted()`, the only blob cut to 50 bytes, no index ⇒ `init()` = Err(Uninitialized) (without the flag: Ok)', '4056f8e', 'create a fresh blob whenever none could be opened'),
]


def load_instances():
    out = {}
    for f in os.listdir(V + '/evidence'):
        if f.endswith('.json'):
            e = json.load(open(V + '/evidence/' + f))
            out.update(e['coverage'].get('per_rule', {}))
    return out


def section6():
    reg = json.load(open(V + '/mutants/registry.json'))['mutants'] if os.path.exists(V + '/mutants/registry.json') else []
    killers = {}
    for m in reg:
        for r in m.get('expects') or []:
            killers.setdefault(r, []).append(m['id'])
    inst = load_instances()
    out = []
    for pid in sorted(TITLES):
        if pid in NOT_APPLICABLE:
            out.append('### %s %s — **not applicable**\n\n%s\n' % (pid, TITLES[pid], NOT_APPLICABLE[pid]))
            continue
        mod = importlib.import_module('props.' + pid.lower())
        text, technique, ref = CHECKS[pid]
        out.append('### %s %s — partial (level: other)\n' % (pid, TITLES[pid]))
        out.append('*Technique:* %s.\n' % technique)
        out.append('*What the check decides and what it does not:* %s\n' % text)
        out.append('| rule | clause | instances on the current tree (floor) | killed by |')
        out.append('|---|---|---|---|')
        for r in mod.RULES:
            pr = inst.get(r.id, {})
            ks = killers.get(r.id, [])
            kshow = ', '.join(k.replace('seed_', '') for k in ks[:6]) + (' …' if len(ks) > 6 else '')
            mark = ' (seed-driven)' if r.id in SEED_DRIVEN else ''
            out.append('| %s%s | %s | %s (%s) | %s |' % (r.id, mark, r.text.replace('|', '/'), pr.get('instances', '?'), r.floor, kshow or '— (no positive example; zero expected on pearl)'))
        out.append('')
        out.append('*How:* ' + getattr(mod, 'EXPLANATION', '') + '\n')
    return '\n'.join(out)


def findings():
    out = ['| # | found by | failing input / site (reproduced against the real code) | fix commit | repair |', '|---|---|---|---|---|']
    for (fid, rules, what, commit, repair) in FINDINGS:
        out.append('| %s | %s | %s | `%s` | %s |' % (fid, rules, what, commit, repair))
    return '\n'.join(out)


def kill_matrix():
    km = json.load(open(V + '/seeded/KILL_MATRIX.json'))
    out = ['| seed | what was changed (short) | caught by (rules) | own property? |', '|---|---|---|---|']
    n_own = n = 0
    for e in km:
        meta = json.load(open('%s/seeded/%s/meta.json' % (V, e['seed'])))
        s = re.sub(r'\s+', ' ', meta.get('summary', ''))[:170]
        own = meta.get('caught_by_own_property_check')
        n += 1
        n_own += 1 if own else 0
        out.append('| %s | %s | %s | %s |' % (e['seed'], s.replace('|', '/'), ', '.join(e['rules'][:8]) + (' …' if len(e['rules']) > 8 else '') or '**not caught**', 'yes' if own else ('other check' if e['rules'] else 'no')))
    out.append('')
    out.append('%d of %d seeded changes are reported by the check of their own property, %d by some check. The ones not caught are the value-level changes discussed in section 11.' % (
        n_own, n, sum(1 for e in km if e['rules'])))
    return '\n'.join(out)


def mutants():
    if not os.path.exists(V + '/mutants/registry.json'):
        return ''
    reg = json.load(open(V + '/mutants/registry.json'))['mutants']
    kinds = {}
    for m in reg:
        kinds.setdefault(m['kind'], []).append(m)
    out = ['Registered mutants (`mutants/registry.json`), all re-run by the thorough tier on a scratch copy of the current tree:', '']
    for k, label in (('unfix', 'reverse patches of the fix: commits (the rule must fire on the pre-fix code)'), ('seed', 'seeded changes of the sub-agents'),
                     ('own', 'hand-written mutants, one per rule that no seed exercises'), ('benign', 'behaviour-preserving refactorings (must stay silent)')):
        ms = kinds.get(k, [])
        if k == 'benign':
            silent = sum(1 for m in ms if not m.get('measured'))
            out.append('* %d %s — %d silent on the current tree.' % (len(ms), label, silent))
        else:
            hit = sum(1 for m in ms if m.get('measured') is not None and all(r in (m.get('measured') or []) for r in (m.get('expects') or [])) and m.get('expects'))
            out.append('* %d %s — %d fire all their expected rules.' % (len(ms), label, hit))
    return '\n'.join(out)


def main():
    t = open(V + '/docs/DESIGN.tmpl.md').read()
    t = t.replace('{{PART_1}}', open(V + '/docs/part_1_reach.md').read())
    t = t.replace('{{PART_4_5}}', open(V + '/docs/part_4_5_idioms_oracles.md').read())
    t = t.replace('{{APPENDIX}}', open(V + '/docs/part_appendix.md').read())
    t = t.replace('{{SECTION_6}}', section6())
    t = t.replace('{{FINDINGS}}', findings())
    t = t.replace('{{KILL_MATRIX}}', kill_matrix())
    t = t.replace('{{MUTANTS}}', mutants())
    open(V + '/DESIGN.md', 'w').write(t)
    print('DESIGN.md written: %d lines' % t.count('\n'))


main()
