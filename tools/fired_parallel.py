#!/usr/bin/env python3
"""fired_parallel.py <out.json> <patch>...  -> {patch: [rules fired] | null (does not apply)} using N parallel slots
(each slot has its own cargo target dir under .cache so extractions do not serialise)."""
import json, os, subprocess, sys
from concurrent.futures import ThreadPoolExecutor
import threading, queue
V = '/verif'
N = int(os.environ.get('KM_SLOTS', '5'))
slots = queue.Queue()
for i in range(N):
    slots.put(i)

def fired(patch):
    s = slots.get()
    try:
        env = dict(os.environ)
        env['PEARL_VERIF_TARGET'] = '%s/.cache/target-slot-%d' % (V, s)
        r = subprocess.run([V + '/tools/kill_matrix.sh', patch], stdout=subprocess.PIPE, text=True, env=env).stdout
    finally:
        slots.put(s)
    if 'NOAPPLY' in r:
        return patch, None
    if 'ENGINE' in r:
        return patch, ['ENGINE-ERROR']
    return patch, sorted({l.split('\t')[0].split()[-1].replace('_', '.', 1) for l in r.splitlines() if l.startswith('VIOLATION')})

out = sys.argv[1]
patches = sys.argv[2:]
res = {}
with ThreadPoolExecutor(N) as ex:
    for p, fr in ex.map(fired, patches):
        res[p] = fr
        print(os.path.basename(os.path.dirname(p)) + '/' + os.path.basename(p), fr, flush=True)
json.dump(res, open(out, 'w'), indent=1)
