#!/usr/bin/env python3
"""Generates hand-written rule mutants (mutants/own_*.diff + .json) from (file, old, new) text edits applied to a scratch worktree
of /repo HEAD. Each mutant breaks the structural clause of one rule; they validate the checker (thorough tier), they are not
claimed to pass the test-suite."""
import json, os, subprocess, sys
WT = '/tmp/ownmut'
V = '/verif/mutants'
M = [
 ('U1_no_duplicate_guard', ['C02.U1'], 'src/storage/core.rs',
  "        if !self.inner.config.allow_duplicates()\n            && self.contains_with(key, meta.as_ref()).await?.is_found()\n        {",
  "        if false\n            && self.contains_with(key, meta.as_ref()).await?.is_found()\n        {"),
 ('U2_closed_delete_flag', ['C02.U2'], 'src/storage/core.rs',
  "        const DELETE_ONLY_IF_PRESENTED: bool = true;", "        const DELETE_ONLY_IF_PRESENTED: bool = false;"),
 ('U5_cut_drops_marker', ['C02.U5'], 'src/blob/index/core.rs',
  "                hs.truncate(first_del + 1);", "                hs.truncate(first_del);"),
 ('I1_no_validate_at_open', ['C03.I1'], 'src/blob/index/core.rs',
  "        findex\n            .validate(blob_size)\n            .with_context(|| \"Header is corrupt\")?;\n", "        let _ = blob_size;\n"),
 ('I3_load_without_validate_header', ['C03.I3'], 'src/blob/index/bptree/core.rs',
  "        self.validate_header(&mut buf, blob_size).await?;\n        let offset = self.metadata.leaves_offset as usize;", "        let _ = blob_size;\n        let offset = self.metadata.leaves_offset as usize;"),
 ('I4_failed_load_not_cleared', ['C03.I4'], 'src/blob/core.rs',
  "            self.index.clear();\n            self.try_regenerate_index().await?;", "            self.try_regenerate_index().await?;"),
 ('T2_delete_without_reload', ['C04.T2'], 'src/blob/core.rs',
  "        if on_disk {\n            self.load_index().await?;\n        }\n", "        let _ = on_disk;\n"),
 ('T3_dump_active_in_place', ['C04.T3'], 'src/storage/core.rs',
  "            let active_blob = safe.active_blob.take();      \n            if let Some(blob) = active_blob {", "            let active_blob = safe.active_blob.as_ref();      \n            if let Some(blob) = active_blob {"),
 ('V2_scan_without_header_validate', ['C05.V2'], 'src/blob/core.rs',
  "        header.validate()?;\n        self.current_offset += self.record_header_size;", "        self.current_offset += self.record_header_size;"),
 ('V3_patch_position', ['C05.V3'], 'src/record/record.rs', "        len - 24\n", "        len - 16\n"),
 ('K1_read_without_eof_conversion', ['C06.K1'], 'src/blob/core.rs',
  "            .read_exact_at_allocate(self.record_header_size as usize, self.current_offset)\n            .await\n            .map_err(|err| err.into_bincode_if_unexpected_eof())\n",
  "            .read_exact_at_allocate(self.record_header_size as usize, self.current_offset)\n            .await\n            .map_err(|err| anyhow::Error::from(err))\n"),
 ('K6_scan_error_class', ['C06.K6'], 'src/blob/core.rs',
  "            let param = ValidationErrorKind::RecordMagicByte;\n            Err(Error::validation(param, \"First record's magic byte is wrong\").into())",
  "            Err(anyhow::anyhow!(\"First record's magic byte is wrong\"))"),
 ('H7_quarantine_removes', ['C07.H7', 'C06.K4'], 'src/storage/core.rs',
  "        Self::remove_index_by_blob_path(path).await?;\n        Ok(())\n    }\n\n    async fn remove_index_by_blob_path",
  "        Self::remove_index_by_blob_path(path).await?;\n        let _ = tokio::fs::remove_file(&path).await;\n        Ok(())\n    }\n\n    async fn remove_index_by_blob_path"),
 ('H1_create_in_wrong_module', ['C07.H1'], 'src/blob/core.rs',
  "        info!(\"try regenerate index for blob: {}\", self.name);\n", "        info!(\"try regenerate index for blob: {}\", self.name);\n        let _ = std::fs::File::create(self.index.name().as_path());\n"),
 ('H4_clean_blob_path', ['C07.H4'], 'src/blob/index/bptree/core.rs',
  "        clean_file(path, recreate_index_file)?;\n        let res = Self::serialize(headers, meta, blob_size)?;", "        clean_file(path.with_extension(\"blob\"), recreate_index_file)?;\n        let res = Self::serialize(headers, meta, blob_size)?;"),
 ('H5_query_writes', ['C07.H5'], 'src/blob/entry.rs',
  "        self.header.data_checksum_audit(&data)?;\n        Ok(data)", "        self.header.data_checksum_audit(&data)?;\n        let _ = std::fs::remove_file(self.blob_file_name.as_path().with_extension(\"tmp\"));\n        Ok(data)"),
 ('B1_absent_on_empty_bloom', ['C10.B1'], 'src/filter/bloom.rs',
  "        if self.bits_count == 0 {\n            return Ok(FilterResult::NeedAdditionalCheck);\n        }\n        let mut hashers = self.hashers.clone();",
  "        if self.bits_count == 0 {\n            return Ok(FilterResult::NotContains);\n        }\n        let mut hashers = self.hashers.clone();"),
 ('B2_insert_without_filter_add', ['C10.B2'], 'src/blob/index/core.rs',
  "                self.filter.add(key);\n", "                let _ = &self.filter;\n"),
 ('B3_add_skips_bloom', ['C10.B3'], 'src/filter/combined.rs',
  "        self.range.add(key);\n        self.bloom.add(key);", "        self.range.add(key);"),
 ('B5_failed_merge_kept', ['C10.B5'], 'src/filter/hierarchical.rs',
  "            .unwrap_or(false)\n        {\n            *dest = None;\n        }", "            .unwrap_or(false)\n        {\n            let _ = &dest;\n        }"),
 ('B6_offload_active', ['C10.B6'], 'src/blob/index/core.rs',
  "        if self.on_disk() {\n            self.filter.offload_filter()\n        } else {\n            0\n        }", "        self.filter.offload_filter()"),
 ('B7_ondisk_without_offset', ['C10.B7'], 'src/blob/index/core.rs',
  "            bloom_offset: Some(bloom_offset as u64),\n            params,", "            bloom_offset: { let _ = bloom_offset; None },\n            params,"),
 ('F3_dropped_sync_result', ['C11.F3', 'C12.S1'], 'src/blob/core.rs',
  "        self.file.write_append_all(buf.freeze()).await?;\n        self.file.fsyncdata().await?;\n        Ok(())", "        self.file.write_append_all(buf.freeze()).await?;\n        let _ = self.file.fsyncdata().await;\n        Ok(())"),
 ('F5_push_on_failed_append', ['C11.F5'], 'src/blob/core.rs',
  "        let write_result = record.write_to_file(&self.file).await?;\n        header.set_offset_checksum(write_result.blob_offset(), write_result.header_checksum());\n        self.index.push(key, header)?;",
  "        let write_result = match record.write_to_file(&self.file).await {\n            Ok(r) => r,\n            Err(e) => {\n                self.index.push(key, header)?;\n                return Err(e);\n            }\n        };\n        header.set_offset_checksum(write_result.blob_offset(), write_result.header_checksum());\n        self.index.push(key, header)?;"),
 ('S2_dump_without_blob_sync', ['C12.S2'], 'src/blob/core.rs',
  "            self.fsyncdata()\n                .await\n                .with_context(|| format!(\"blob file dump failed: {:?}\", self.name.as_path()))?;\n\n", "\n"),
 ('S3_retire_without_sync', ['C12.S3'], 'src/storage/core.rs',
  "                ablob.read().await.fsyncdata().await?;\n", "                let _ = ablob.read().await.file_size();\n"),
 ('S5_no_fsync_request', ['C12.S5'], 'src/storage/core.rs',
  "        if need_fsync {\n            self.observer.try_fsync_data().await;\n        }\n        Ok(())", "        let _ = need_fsync;\n        Ok(())"),
 ('S7_flag_before_body', ['C12.S7', 'C03.I8'], 'src/blob/index/bptree/core.rs',
  "        file.write_append_all(buf.freeze()).await?;\n        header.set_written(true);\n        let size = header.serialized_size();\n        let mut serialized_header = BytesMut::with_capacity(size as usize);\n        serialize_into((&mut serialized_header).writer(), &header)?;\n        file.write_all_at(0, serialized_header.freeze()).await?;",
  "        header.set_written(true);\n        let size = header.serialized_size();\n        let mut serialized_header = BytesMut::with_capacity(size as usize);\n        serialize_into((&mut serialized_header).writer(), &header)?;\n        file.write_all_at(0, serialized_header.freeze()).await?;\n        file.write_append_all(buf.freeze()).await?;"),
 ('L3_join_before_drop', ['C13.L3'], 'src/storage/observer.rs',
  "            std::mem::drop(sender); // Drop sender. That trigger ObserverWorker stopping\n            // Wait for completion\n            if let Err(err) = handle.await {\n                error!(\"Unexpected JoinError in Observer: {:?}\", err);\n            }",
  "            // Wait for completion\n            if let Err(err) = handle.await {\n                error!(\"Unexpected JoinError in Observer: {:?}\", err);\n            }\n            std::mem::drop(sender);"),
 ('L5_no_rotation_request', ['C13.L5'], 'src/storage/core.rs',
  "        if need_update {\n            self.observer.try_update_active_blob().await;\n        }\n", "        let _ = need_update;\n"),
 ('A3_count_before_quarantine', ['C15.A3'], 'src/storage/core.rs',
  "                        Self::save_corrupted_blob(&file, config.corrupted_dir_name())\n                            .await\n                            .with_context(|| {\n                                anyhow!(format!(\"failed to save corrupted blob {:?}\", file))\n                            })?;\n                        corrupted += 1;",
  "                        corrupted += 1;\n                        Self::save_corrupted_blob(&file, config.corrupted_dir_name())\n                            .await\n                            .with_context(|| {\n                                anyhow!(format!(\"failed to save corrupted blob {:?}\", file))\n                            })?;"),
 ('W2_no_final_validation', ['C16.W2'], 'src/tools/utils.rs',
  "    if validate_written_records {\n        writer.validate_written_records()?;\n        writer.clear_cache();\n    }\n    info!(\n        \"Blob from", "    info!(\n        \"Blob from"),
 ('W3_same_file_allowed', ['C16.W3'], 'src/tools/utils.rs',
  "    if input.as_ref() == output.as_ref() {\n        return Err(anyhow::anyhow!(\n            \"Recovering into same file is not supported\"\n        ));\n    }\n", ""),
 ('W4_reader_no_record_validate', ['C16.W4', 'C05.V1'], 'src/tools/blob_reader.rs',
  "        let record = record\n            .validate()\n            .map_err(|err| ToolsError::record_validation_error(err.to_string()))?;\n        Ok(record)", "        Ok(record)"),
 ('Z2_no_key_size_gate', ['C17.Z2'], 'src/blob/core.rs',
  "        if key_len != key_size {\n            let msg = \"blob key_size is not equal to pearl compile-time key size\";\n            return Err(Error::validation(ValidationErrorKind::BlobKeySize, msg).into());\n        }\n", "        let _ = key_size;\n"),
 ('S4_safe_fsyncdata_noop', ['C12.S4'], 'src/storage/core.rs',
  "            blob.read().await.fsyncdata().await?;\n        }\n        Ok(())", "            let _ = blob.read().await.file_size();\n        }\n        Ok(())"),
 ('L4_join_under_lock', ['C13.L4'], 'src/storage/core.rs',
  "        let mut res = Ok(());\n        {\n            let mut safe = self.inner.safe.write().await;", "        let mut res = Ok(());\n        let inner = self.inner.clone();\n        let mut safe = inner.safe.write().await;\n        {"),
]
subprocess.run(['git', '-C', '/repo', 'worktree', 'remove', '--force', WT], stderr=subprocess.DEVNULL)
subprocess.run(['rm', '-rf', WT])
subprocess.run(['git', '-C', '/repo', 'worktree', 'add', '--detach', WT, 'HEAD'], check=True, stdout=subprocess.DEVNULL, stderr=subprocess.DEVNULL)
made = 0
for (name, expects, path, old, new) in M:
    p = os.path.join(WT, path)
    s = open(p, newline='').read()
    crlf = '\r\n' in s
    o, n_ = (old.replace('\n', '\r\n'), new.replace('\n', '\r\n')) if crlf else (old, new)
    if s.count(o) != 1:
        print('SKIP %s: pattern occurs %d times' % (name, s.count(o)))
        continue
    open(p, 'w', newline='').write(s.replace(o, n_))
    d = subprocess.run(['git', '-C', WT, 'diff', '--', 'src'], stdout=subprocess.PIPE, text=True).stdout
    open(os.path.join(V, 'own_%s.diff' % name), 'w').write(d)
    json.dump({'expects': expects, 'note': 'hand-written rule mutant'}, open(os.path.join(V, 'own_%s.json' % name), 'w'))
    subprocess.run(['git', '-C', WT, 'checkout', '--', '.'], check=True)
    made += 1
subprocess.run(['git', '-C', '/repo', 'worktree', 'remove', '--force', WT])
print('made', made, 'of', len(M))
