#!/bin/bash
# usage: tools/try_seed.sh <patch.diff> <Cxx> [more props...]  -- applies patch to /repo, runs quick checks, reverts
P=$1; shift
cd /repo || exit 2
if ! git diff --quiet; then echo "repo dirty"; exit 2; fi
git apply "$P" || { echo "patch does not apply"; exit 2; }
cd /verif
for c in "$@"; do ./check $c quick 2>&1 | grep -E "VIOLATION|KNOWN|ENGINE|^  (rule|at)|^C[0-9]+ " ; done
git -C /repo checkout -- . 
