#!/usr/bin/env python3
"""Generates /verif/MANIFEST.json from the table below (single source of truth)."""
import json, os, sys
HERE = os.path.dirname(os.path.dirname(os.path.abspath(__file__)))
sys.path.insert(0, os.path.join(HERE, 'rules'))

BASELINE = "cd /repo/$(cat /w/out/cargo_root.txt) && cargo nextest run --workspace --no-fail-fast --tool-config-file pb:/w/lib/nextest.toml --profile pb --test-threads 8 --offline || (cd /repo && cargo test --workspace --no-fail-fast --offline)"

TRUST = ("Trusted base: rustc's MIR construction and type checker (nightly, pre-state-transform mir_built), the pearl-facts serialiser, "
         "class-hierarchy call resolution (over-approximate), the enumerated idiom/owner tables in rules/; only the unix/default-feature "
         "lib configuration is analysed. A pass means the listed structural clauses hold on every path/site, not that the behaviour holds.")

CLAIMS = {}   # filled from props modules: id -> (text, technique)
NA = {}

def load():
    import importlib
    from manifest_table import CHECKS, NOT_APPLICABLE
    return CHECKS, NOT_APPLICABLE

def main():
    sys.path.insert(0, os.path.join(HERE, 'tools'))
    CHECKS, NOT_APPLICABLE = load()
    checks = []
    for pid, (text, technique, ref) in sorted(CHECKS.items()):
        checks.append({
            "property_id": pid,
            "quick_cmd": "./check %s quick" % pid,
            "thorough_cmd": "./check %s thorough" % pid,
            "evidence_file": "/verif/evidence/%s.json" % pid,
            "replay_cmd_template": "./check --explain {path}",
            "engine": "pearl-facts + rules",
            "level_claimed": {"category": "other", "text": text, "design_ref": ref},
            "level_note": TRUST,
            "technique": technique,
        })
    m = {
        "version": 1,
        "setup_cmd": "./setup.sh",
        "hooks": {
            "guard": "pearl_verif",
            "enable": "none needed: static analysis reads the unmodified sources; no hook commits exist (cfg pearl_verif is unused)",
            "baseline_off_cmd": BASELINE,
            "source_commits": [],
            "add_only": True,
        },
        "engines": [
            {"name": "pearl-facts", "path": "driver/", "serves_properties": sorted(CHECKS), "kind_free_text": "rustc_private driver: typed MIR/ADT/const/impl fact extractor injected with RUSTC_WORKSPACE_WRAPPER under cargo +nightly check"},
            {"name": "rules", "path": "rules/", "serves_properties": sorted(CHECKS), "kind_free_text": "repository-specific static rules (dominance / must-pass-through, provenance, held-guard dataflow, wait-for graph, who-may-call, table agreement) over the extracted MIR"},
            {"name": "selftest", "path": "rules/thorough.py", "serves_properties": sorted(CHECKS), "kind_free_text": "thorough tier: seeded-mutant kill matrix on scratch copies + control fixtures for zero-expected rules"},
        ],
        "checks": checks,
        "not_applicable": [{"property_id": k, "reason": v} for k, v in sorted(NOT_APPLICABLE.items())],
        "notes": "All checks are static: they re-extract MIR facts from /repo's current working tree on every run and decide by CFG/call-graph/provenance rules. Known findings: known_findings.json. Seeded breaking changes: seeded/.",
    }
    with open(os.path.join(HERE, 'MANIFEST.json'), 'w') as f:
        json.dump(m, f, indent=1)
    print('MANIFEST.json written: %d checks, %d not_applicable' % (len(checks), len(NOT_APPLICABLE)))

main()
