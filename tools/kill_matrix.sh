#!/bin/bash
# usage: kill_matrix.sh <patch> -> prints which properties' quick checks report a VIOLATION with the patch applied to /repo
P=$1
cd /repo || exit 2
git diff --quiet || { echo "repo dirty"; exit 2; }
git apply "$P" 2>/dev/null || git apply --3way "$P" 2>/dev/null || { echo "NOAPPLY"; git reset -q --hard HEAD; exit 0; }
cd /verif
./check all quick 2>&1 | grep -E "^VIOLATION|^ENGINE|^  at " | sed -E 's/replay=.*reports\/(C[0-9]+)\/(C[0-9]+_[A-Z0-9]+)__.*/\2/' | paste - - | cut -c1-260
git -C /repo reset -q --hard HEAD
