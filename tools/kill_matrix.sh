#!/bin/bash
# usage: kill_matrix.sh <patch> [props...] -> which quick checks report a VIOLATION with the patch applied.
# Works on a scratch copy of /repo's working tree (never touches /repo, writes no evidence/reports).
P=$(readlink -f "$1"); shift
PROPS=${@:-all}
D=$(mktemp -d /tmp/km-XXXXXX)
rsync -a --exclude target --exclude .git /repo/ $D/
cd $D
git apply --whitespace=nowarn "$P" 2>/dev/null || patch -p1 -s -f --no-backup-if-mismatch -i "$P" >/dev/null 2>&1 || { echo "NOAPPLY"; rm -rf $D; exit 0; }
cd /verif
for p in $PROPS; do
PEARL_REPO=$D PEARL_VERIF_SCRATCH=1 ./check $p quick 2>&1 | grep -E "^VIOLATION|^ENGINE|^  at " | sed -E 's/replay=.*reports\/(C[0-9]+)\/(C[0-9]+_[A-Za-z0-9]+)__.*/\2/' | paste - - | cut -c1-260
done
rm -rf $D
