"""Canonical names for the state fields the rules are anchored on.

The rules refer to a handful of fields by the names the properties' own anchors use (active_blob, next_blob_id, ...). A field
rename is behaviour-preserving, so the facts are *canonicalised at load time*: when an ADT no longer has a field of the canonical
name but has exactly one field matching the anchor's type (and, for same-typed siblings, its characteristic use), that field is
presented to the rules under the canonical name. Nothing is renamed when the canonical name exists."""
import re

# canonical name -> (adt path, regex on the printed field type, optional characteristic atomic method)
SPECS = [
    ('active_blob', 'storage::core::Safe', r'^std::option::Option<std::boxed::Box<async_lock::RwLock<blob::core::Blob<', None),
    ('blobs', 'storage::core::Safe', r'HierarchicalFilters<', None),
    ('safe', 'storage::core::Inner', r'^tokio::sync::RwLock<storage::core::Safe<', None),
    ('fsync_in_progress', 'storage::core::Inner', r'Atomic<bool>|AtomicBool', None),
    ('next_blob_id', 'storage::core::Inner', r'Atomic<usize>|AtomicUsize', 'fetch_add'),
    ('corrupted_blobs', 'storage::core::Inner', r'Atomic<usize>|AtomicUsize', '!fetch_add'),
    ('headers', 'blob::index::core::InMemoryData', r'BTreeMap<', None),
    ('children', 'filter::hierarchical::HierarchicalFilters', r'^std::vec::Vec<std::option::Option<filter::hierarchical::Leaf<', None),
    ('filter', 'blob::index::core::IndexStruct', r'CombinedFilter<', None),
    ('inner', 'blob::index::core::IndexStruct', r'State<', None),
    ('bloom_offset', 'blob::index::core::IndexStruct', r'^std::option::Option<u64>$', None),
    ('size', 'io::unix::sync::FileInner', r'Atomic<u64>|AtomicU64', 'fetch_add'),
    ('synced_size', 'io::unix::sync::FileInner', r'Atomic<u64>|AtomicU64', 'fetch_max'),
    ('next_deadline', 'storage::observer_worker::ObserverWorker', r'^std::option::Option<tokio::time::Instant>$', None),
    ('index', 'blob::core::Blob', r'IndexStruct<', None),
]


def atomic_uses(j):
    """field name -> set of atomic method names applied through a place ending in that field (cheap syntactic scan)"""
    uses = {}
    for f in j['fns']:
        last_field_of = {}
        for b in f['blocks']:
            if b['c']:
                continue
            for s in b['s']:
                if s['k'] == 'a' and s['r']['k'] == 'ref':
                    names = [e['n'] for e in s['r']['p'][1] if isinstance(e, dict) and 'f' in e and e['n']]
                    if names and not s['d'][1]:
                        last_field_of[s['d'][0]] = names[-1]
            t = b['t']
            if t['k'] == 'call' and 'path' in t['f'] and t['f']['path'].startswith('std::sync::atomic::Atomic') and t['args']:
                a = t['args'][0]
                p = a.get('m') or a.get('c')
                if p and not p[1] and p[0] in last_field_of:
                    uses.setdefault(last_field_of[p[0]], set()).add(t['f'].get('name'))
    return uses


def canonicalise(j):
    """rewrites field names in the facts JSON in place; returns {(adt, actual): canonical}"""
    adts = {a['path']: a for a in j['adts']}
    mapping = {}
    uses = None
    for (canon, adt, rx, use) in SPECS:
        a = adts.get(adt)
        if not a:
            continue
        fields = [fl for v in a['variants'] for fl in v['fields']]
        if any(fl['name'] == canon for fl in fields):
            continue
        cands = [fl for fl in fields if re.search(rx, fl['ty']['s']) and not any(fl['name'] == c for (c, ad, _, _) in SPECS if ad == adt)]
        if use and len(cands) > 1:
            if uses is None:
                uses = atomic_uses(j)
            if use.startswith('!'):
                cands = [fl for fl in cands if use[1:] not in uses.get(fl['name'], set())]
            else:
                cands = [fl for fl in cands if use in uses.get(fl['name'], set())]
        if len(cands) == 1:
            mapping[(adt, cands[0]['name'])] = canon
    if not mapping:
        return mapping
    by_actual = {}
    for (adt, actual), canon in mapping.items():
        by_actual.setdefault(actual, []).append((adt, canon))
    # ADT tables
    for (adt, actual), canon in mapping.items():
        for v in adts[adt]['variants']:
            for fl in v['fields']:
                if fl['name'] == actual:
                    fl['name'] = canon
    # places and aggregates (field names are unique enough: rename when the name is an actual name of exactly one mapped ADT
    # and the projection index matches the field position)
    pos = {}
    for (adt, actual), canon in mapping.items():
        for v in adts[adt]['variants']:
            for i, fl in enumerate(v['fields']):
                if fl['name'] == canon:
                    pos[(actual, i)] = canon

    def fix_place(p):
        for e in p[1]:
            if isinstance(e, dict) and 'f' in e and (e.get('n'), e['f']) in pos:
                e['n'] = pos[(e['n'], e['f'])]

    def fix_operand(o):
        if not isinstance(o, dict):
            return
        for k in ('c', 'm'):
            if k in o:
                fix_place(o[k])

    def fix_rvalue(r):
        for k in ('o', 'a', 'b'):
            if k in r:
                fix_operand(r[k])
        if 'p' in r:
            fix_place(r['p'])
        for o in r.get('ops', []):
            fix_operand(o)
        if r.get('k') == 'agg' and r.get('ak') == 'adt':
            for (adt, actual), canon in mapping.items():
                if r.get('adt') == adt:
                    r['fields'] = [canon if x == actual else x for x in r['fields']]

    for f in j['fns']:
        for n, p in f['debug']:
            fix_place(p)
        for b in f['blocks']:
            for s in b['s']:
                if 'd' in s:
                    fix_place(s['d'])
                if 'r' in s:
                    fix_rvalue(s['r'])
            t = b['t']
            for k in ('o',):
                if k in t:
                    fix_operand(t[k])
            if 'p' in t:
                fix_place(t['p'])
            if 'd' in t and isinstance(t['d'], list):
                fix_place(t['d'])
            for a in t.get('args', []):
                fix_operand(a)
            if 'ra' in t:
                fix_place(t['ra'])
    return mapping


# ---------------------------------------------------------------------------------------------------------------------------
# Function re-binding: the rules name ~90 crate functions. A private function that was merely renamed (or moved within the
# crate) is re-bound to the name the rules use, by signature and body similarity against rules/tables/fn_signatures.json
# (generated from the tree the rules were written against by tools/pin_fn_signatures.py). This only restores an anchor; it
# never decides a property.
# ---------------------------------------------------------------------------------------------------------------------------
import json
import os

SIG_TABLE = os.path.join(os.path.dirname(os.path.abspath(__file__)), 'tables', 'fn_signatures.json')


def fn_signature(f):
    callees = []
    for b in f['blocks']:
        if b['c']:
            continue
        t = b['t']
        if t['k'] == 'call' and 'name' in t['f'] and not t.get('exp'):
            callees.append(t['f']['name'])
    return {
        'impl': (f.get('impl_self') or {}).get('h'),
        'trait_item': f.get('trait_item'),
        'args': [f['locals'][i]['s'] for i in range(1, f['argc'] + 1)],
        'ret': f['locals'][0]['s'],
        'async': f.get('async', False),
        'callees': sorted(callees),
        'file': f.get('file'),
    }


def signatures(j):
    out = {}
    for f in j['fns']:
        if f['kind'] in ('Fn', 'AssocFn'):
            out[f['id']] = fn_signature(f)
    # async fns: the interesting callees live in the coroutine body
    by_id = {f['id']: f for f in j['fns']}
    for fid, sig in out.items():
        c = by_id.get(fid + '::{closure#0}')
        if c is not None and c.get('coroutine'):
            sig['callees'] = sorted(sig['callees'] + fn_signature(c)['callees'])
    return out


def _short(ty):
    """a type string with the module paths of its type names removed (`&blob::core::RawRecords` -> `&RawRecords`): a type that
    moved to another module together with its functions is still the same parameter type"""
    import re
    return re.sub(r'(?:[A-Za-z_][A-Za-z0-9_]*::)+([A-Za-z_][A-Za-z0-9_]*)', r'\1', ty or '')


def jaccard(a, b):
    from collections import Counter
    ca, cb = Counter(a), Counter(b)
    inter = sum((ca & cb).values())
    union = sum((ca | cb).values())
    return inter / union if union else 1.0


ITEM_TABLE = os.path.join(os.path.dirname(os.path.abspath(__file__)), 'tables', 'item_paths.json')


def item_paths(j):
    """the in-crate type and trait paths of a tree: {'adts': {path: [field names]}, 'traits': [paths]}"""
    adts = {a['path']: sorted(fl['name'] for v in a['variants'] for fl in v['fields']) + sorted(v['name'] for v in a['variants']) for a in j['adts']}
    roots = {a.split('::', 1)[0] for a in adts} | {f['id'].split('::', 1)[0] for f in j['fns'] if not f['id'].startswith('<')}
    traits = set()
    for im in j['impls']:
        t = im.get('trait')
        if t and t.split('::', 1)[0] in roots:
            traits.add(t)
    for f in j['fns']:
        t = f.get('in_trait')
        if isinstance(t, str) and t.split('::', 1)[0] in roots:
            traits.add(t)
    return {'adts': adts, 'traits': sorted(traits)}


def canonicalise_paths(j):
    """a type or trait that moved to another module (same name, same fields / variants) is presented under the path the rules
    know: every occurrence of the new path in the facts is replaced by the pinned one.  Returns (facts, {new: old})."""
    if not os.path.exists(ITEM_TABLE):
        return j, {}
    import re
    table = json.load(open(ITEM_TABLE))
    cur = item_paths(j)
    sub = {}
    for old, shape in table['adts'].items():
        if old in cur['adts']:
            continue
        name = old.rsplit('::', 1)[-1]
        cands = [n for n, sh in cur['adts'].items() if n not in table['adts'] and n.rsplit('::', 1)[-1] == name and sh == shape]
        if len(cands) == 1:
            sub[cands[0]] = old
    for old in table['traits']:
        if old in cur['traits']:
            continue
        name = old.rsplit('::', 1)[-1]
        cands = [n for n in cur['traits'] if n not in table['traits'] and n.rsplit('::', 1)[-1] == name]
        if len(cands) == 1:
            sub[cands[0]] = old
    if not sub:
        return j, {}
    text = json.dumps(j)
    for new, old in sorted(sub.items(), key=lambda kv: -len(kv[0])):
        text = re.sub(r'(?<![A-Za-z0-9_:])' + re.escape(new) + r'(?![A-Za-z0-9_])', old.replace('\\', '\\\\'), text)
    return json.loads(text), sub


def restore_files_by_type(j, table):
    """a function the rules do not know (new, or renamed beyond recognition) that is a method of a type the rules know and lives
    in a file the rules do not know is presented in the file where that type's methods were pinned"""
    known_files = {v.get('file') for v in table.values() if v.get('file')}
    type_file = {}
    for fid, v in table.items():
        if v.get('impl') and v.get('file'):
            type_file.setdefault(v['impl'], {}).setdefault(v['file'], 0)
            type_file[v['impl']][v['file']] += 1
    for f in j['fns']:
        root = f.get('root', f['id'])
        if root in table or f.get('file') in known_files or 'file_actual' in f:
            continue
        h = (f.get('impl_self') or {}).get('h')
        if h is None:
            r = next((g for g in j['fns'] if g['id'] == root), None)
            h = ((r or {}).get('impl_self') or {}).get('h')
        files = type_file.get(h)
        if files:
            f['file_actual'] = f.get('file')
            f['file'] = max(files.items(), key=lambda kv: kv[1])[0]


def restore_files(j, table):
    """a function the rules know that now lives in another file (an impl block or a module moved) keeps, for the rules, the
    file it was pinned in; reports show the real one (`file_actual`)"""
    n = 0
    for f in j['fns']:
        pinned = table.get(f.get('root', f['id'])) or table.get(f['id'])
        if pinned and pinned.get('file') and f.get('file') and pinned['file'] != f['file'] and 'file_actual' not in f:
            f['file_actual'] = f['file']
            f['file'] = pinned['file']
            n += 1
    restore_files_by_type(j, table)
    return n


def rebind_functions(j):
    """returns {new_id: old_id} and rewrites ids in the facts JSON in place"""
    if not os.path.exists(SIG_TABLE):
        return {}
    table = json.load(open(SIG_TABLE))
    cur = signatures(j)
    missing = [m for m in table if m not in cur]
    if not missing:
        restore_files(j, table)
        return {}
    fresh = [n for n in cur if n not in table]
    binding = {}
    for m in missing:
        ms = table[m]
        scored = []
        for n in fresh:
            ns = cur[n]
            if [_short(x) for x in ns['args']] != [_short(x) for x in ms['args']] or ns['async'] != ms['async']:
                continue
            same_ret = _short(ns['ret']) == _short(ms['ret'])
            same_impl = ms['impl'] == ns['impl'] or _short(ms['impl'] or '') == _short(ns['impl'] or '')
            if not same_ret and not (same_impl and ms['impl']):
                continue    # a changed return type (tuple -> small struct) is tolerated for a method of the same type only
            if ms['trait_item'] != ns['trait_item']:
                continue
            s = jaccard(ms['callees'], ns['callees'])
            if ms['impl'] == ns['impl'] or _short(ms['impl'] or '') == _short(ns['impl'] or ''):
                s += 0.1
            if n.rsplit('::', 1)[-1] == m.rsplit('::', 1)[-1]:
                s += 0.1     # same name, another module
            else:
                ta, tb = set(n.rsplit('::', 1)[-1].split('_')), set(m.rsplit('::', 1)[-1].split('_'))
                s += 0.2 * len(ta & tb) / max(1, len(ta | tb))     # read_current_record ~ read_next_record
            if same_ret:
                s += 0.05
            scored.append((s, n))
        scored.sort(reverse=True)
        # the same name under another path (an impl block or a function moved to another module) decides by itself
        named = [(sc, n) for (sc, n) in scored if n.rsplit('::', 1)[-1] == m.rsplit('::', 1)[-1] and sc >= 0.4]
        if len(named) == 1 and named[0][1] not in binding:
            binding[named[0][1]] = m
            continue
        if scored and scored[0][0] >= 0.6 and (len(scored) == 1 or scored[0][0] - scored[1][0] >= 0.15) and scored[0][1] not in binding:
            binding[scored[0][1]] = m
    if not binding:
        restore_files(j, table)
        return {}

    def ren(s):
        if not isinstance(s, str):
            return s
        for new, old in binding.items():
            if s == new:
                return old
            if s.startswith(new + '::{'):
                return old + s[len(new):]
        return s

    for f in j['fns']:
        for k in ('id', 'root', 'parent'):
            if k in f:
                f[k] = ren(f[k])
        # a function that moved to another file keeps, for the rules, the file it was pinned in (reports show the real one)
        pinned = table.get(f.get('root', f['id'])) or table.get(f['id'])
        if pinned and pinned.get('file') and f.get('root', f['id']) in binding.values() and pinned['file'] != f.get('file'):
            f['file_actual'] = f.get('file')
            f['file'] = pinned['file']
        for l in f['locals']:
            if l.get('h') in ('closure', 'coroutine', 'fndef') and l.get('a'):
                l['a'] = [ren(x) for x in l['a']]
        for b in f['blocks']:
            for s in b['s']:
                r = s.get('r')
                if r and r.get('k') == 'agg' and 'def' in r:
                    r['def'] = ren(r['def'])
            t = b['t']
            if t['k'] == 'call' and 'path' in t['f']:
                for k in ('path', 'res'):
                    if k in t['f']:
                        t['f'][k] = ren(t['f'][k])
                nm = t['f'].get('name')
                for new, old in binding.items():
                    if t['f'].get('path') == old or t['f'].get('res') == old:
                        t['f']['name'] = old.rsplit('::', 1)[-1]
    for im in j['impls']:
        for it in im['items']:
            it['def'] = ren(it['def'])
    restore_files(j, table)
    return binding
