"""Polynomial symbolic evaluation of small pure arithmetic functions (capacity / size formulas) over MIR.

A value is a polynomial with integer coefficients over named symbols: {monomial: coeff}, a monomial being a sorted tuple of
symbol names (() is the constant term).  An integer division introduces a fresh symbol q with the recorded fact
q = floor(X / D); `bound_le` uses q*D <= X to eliminate it.  Symbols stand for non-negative integers (sizes, counts)."""
import re
import core
from core import op_local, op_const, op_place

SIZEOF = {'u8': 1, 'i8': 1, 'u16': 2, 'i16': 2, 'u32': 4, 'i32': 4, 'u64': 8, 'i64': 8, 'usize': 8, 'isize': 8, 'u128': 16}
INTS = set(SIZEOF)


def const(c):
    return {(): c} if c else {}


def sym(s):
    return {(s,): 1}


def clean(p):
    return {m: c for m, c in p.items() if c != 0}


def add(a, b, sign=1):
    out = dict(a)
    for m, c in b.items():
        out[m] = out.get(m, 0) + sign * c
    return clean(out)


def mul(a, b):
    out = {}
    for m1, c1 in a.items():
        for m2, c2 in b.items():
            m = tuple(sorted(m1 + m2))
            out[m] = out.get(m, 0) + c1 * c2
    return clean(out)


def subst(p, name, value):
    """p with symbol `name` replaced by polynomial `value`"""
    out = {}
    for m, c in p.items():
        term = {(): c}
        for s in m:
            term = mul(term, value if s == name else sym(s))
        out = add(out, term)
    return out


def show(p):
    if not p:
        return '0'
    parts = []
    for m, c in sorted(p.items()):
        body = '*'.join(m)
        parts.append(str(c) if not m else (body if c == 1 else '%d*%s' % (c, body)))
    return ' + '.join(parts)


def split_linear(p, q):
    """p = p0 + q*p1 with q not in p0, p1; None if p is not linear in q"""
    p0, p1 = {}, {}
    for m, c in p.items():
        n = m.count(q)
        if n == 0:
            p0[m] = c
        elif n == 1:
            mm = list(m)
            mm.remove(q)
            p1[tuple(mm)] = c
        else:
            return None
    return p0, p1


def nonneg(p):
    """sufficient: every coefficient is >= 0 (symbols are non-negative)"""
    return all(c >= 0 for c in p.values())


def bound_le(p, limit, facts):
    """is p <= limit for all non-negative symbol values, using the floor-division facts {q: (X, D)} (q*D <= X)?
    Returns (True/False, the upper bound polynomial used)."""
    cur = dict(p)
    for q, (X, D) in facts.items():
        if not any(q in m for m in cur):
            continue
        sp = split_linear(cur, q)
        if sp is None:
            return False, cur
        p0, p1 = sp
        if not p1:
            cur = p0
            continue
        # p1 must be a non-negative multiple of D: p1 == c*D
        ratio = None
        if set(p1) == set(D):
            rs = {p1[m] / D[m] for m in D}
            if len(rs) == 1:
                ratio = rs.pop()
        if ratio is None or ratio < 0 or ratio != int(ratio):
            return False, cur
        cur = add(p0, mul(const(int(ratio)) if ratio else {}, X))
    return nonneg(add(limit, cur, -1)), cur


class Eval:
    """evaluates the integer locals of a small function; arguments are symbols a1, a2, ..; a call without a usable argument is a
    symbol named after the callee"""

    def __init__(self, prog, f, argnames=None):
        self.prog, self.f = prog, f
        self.val = {}
        self.tup = {}
        self.facts = {}
        self.nq = 0
        for i in range(1, f.argc + 1) if hasattr(f, 'argc') else []:
            pass
        self.argnames = argnames or {}

    def scalar(self, o):
        k = op_const(o)
        if k is not None:
            if 'int' in k:
                return const(int(k['int']))
            return None
        p = op_place(o)
        if p is None:
            return None
        l, proj = p[0], [e for e in p[1] if e != '*']
        if not proj:
            if l in self.val:
                return self.val[l]
            if l in self.argnames:
                return sym(self.argnames[l])
            return None
        if len(proj) == 1 and isinstance(proj[0], dict) and 'f' in proj[0] and l in self.tup:
            t = self.tup[l]
            return t[proj[0]['f']] if proj[0]['f'] < len(t) else None
        if l in self.val:       # (x as Continue).0 / (x as Ok).0 : payload of an unwrapped scalar
            return self.val[l]
        return None

    def run(self):
        f = self.f
        for _round in range(3):
            for i in sorted(f.reachable()):
                b = f.blocks[i]
                for st in b['s']:
                    if st['k'] != 'a' or st['d'][1]:
                        continue
                    d, r = st['d'][0], st['r']
                    k = r['k']
                    if k in ('use', 'cast'):
                        v = self.scalar(r['o'])
                        if v is not None:
                            self.val[d] = v
                    elif k == 'bin':
                        a, b2 = self.scalar(r['a']), self.scalar(r['b'])
                        op = r['op']
                        if a is None or b2 is None:
                            continue
                        res = None
                        if op.startswith('Add'):
                            res = add(a, b2)
                        elif op.startswith('Sub'):
                            res = add(a, b2, -1)
                        elif op.startswith('Mul'):
                            res = mul(a, b2)
                        elif op == 'Div':
                            key = (show(a), show(b2))
                            q = None
                            for name, (X, D) in self.facts.items():
                                if (show(X), show(D)) == key:
                                    q = name
                            if q is None:
                                self.nq += 1
                                q = 'q%d' % self.nq
                                self.facts[q] = (a, b2)
                            res = sym(q)
                        if res is None:
                            continue
                        if op.endswith('WithOverflow'):
                            self.tup[d] = [res, {}]
                        else:
                            self.val[d] = res
                    elif k == 'agg' and r.get('ak') == 'tuple':
                        self.tup[d] = [self.scalar(o) for o in r['ops']]
                    elif k == 'agg' and r.get('adt') in ('std::result::Result', 'std::option::Option') and r.get('ops'):
                        v = self.scalar(r['ops'][0])
                        if v is not None:
                            self.val[d] = v
                t = b['t']
                if t['k'] == 'call':
                    c = f.call_at(i)
                    if c is None or not c.dest:
                        continue
                    d = c.dest[0]
                    if c.path == 'std::mem::size_of' or c.full.startswith('std::mem::size_of::<'):
                        ty = c.full[c.full.index('<') + 1:c.full.rindex('>')] if '<' in c.full else ''
                        if ty in SIZEOF:
                            self.val[d] = const(SIZEOF[ty])
                    elif c.name == 'len' and c.args and op_local(c.args[0]) is not None:
                        self.val[d] = sym('len(_%d)' % core.access_root(f, op_local(c.args[0])))
                    elif c.name in ('branch', 'unwrap', 'expect', 'into', 'from', 'try_into', 'unwrap_or_default') and c.args:
                        v = self.scalar(c.args[0])
                        if v is not None:
                            self.val[d] = v
                    elif c.name == 'from_residual':
                        pass
                    elif not [a for a in c.args if self.scalar(a) is not None] and d not in self.val:
                        # an argument-less size provider (`NodeMeta::serialized_size_default()`): an opaque non-negative symbol
                        parts = [x for x in re.sub(r'<[^<>]*>', '', re.sub(r'<[^<>]*>', '', c.path or c.full)).replace('::', '.').split('.') if x]
                        self.val[d] = sym('.'.join(parts[-2:]) if parts else c.name)
        return self

    def result(self):
        return self.val.get(0)
