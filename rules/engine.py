"""Rule runner: extraction, rule execution, known findings, reports, evidence."""
import hashlib
import json
import os
import subprocess
import sys
import time
import fcntl
import importlib

VERIF = os.path.dirname(os.path.dirname(os.path.abspath(__file__)))
REPO = os.environ.get('PEARL_REPO', '/repo')
CACHE = os.path.join(VERIF, '.cache')
DRIVER_DIR = os.path.join(VERIF, 'driver')
DRIVER_BIN = os.path.join(DRIVER_DIR, 'target', 'debug', 'pearl-facts')

sys.path.insert(0, os.path.dirname(os.path.abspath(__file__)))
import core  # noqa


class EngineError(Exception):
    pass


def sh(cmd, **kw):
    return subprocess.run(cmd, shell=True, stdout=subprocess.PIPE, stderr=subprocess.STDOUT, text=True, **kw)


def nightly_sysroot():
    r = sh('rustc +nightly --print sysroot')
    if r.returncode != 0:
        raise EngineError('nightly toolchain not available: ' + r.stdout)
    return r.stdout.strip()


def build_driver():
    srcs = [os.path.join(DRIVER_DIR, 'src', 'main.rs'), os.path.join(DRIVER_DIR, 'Cargo.toml')]
    if os.path.exists(DRIVER_BIN) and all(os.path.getmtime(DRIVER_BIN) >= os.path.getmtime(s) for s in srcs):
        return
    r = sh('cd %s && CARGO_NET_OFFLINE=true cargo build --offline 2>&1' % DRIVER_DIR)
    if r.returncode != 0 or not os.path.exists(DRIVER_BIN):
        raise EngineError('driver build failed:\n' + r.stdout[-4000:])


def extract(repo=None, target=None, features=None, tag='facts', crate='pearl', _keep=None):
    """Run pearl-facts over the repo's current working tree; returns path to facts json."""
    repo = repo or REPO
    os.makedirs(CACHE, exist_ok=True)
    build_driver()
    target = target or os.environ.get('PEARL_VERIF_TARGET') or os.path.join(CACHE, 'target')
    nonce = '%d-%d-%s' % (os.getpid(), int(time.time() * 1000), hashlib.sha1(os.urandom(8)).hexdigest()[:8])
    out = os.path.join(CACHE, '%s-%s.json' % (tag, nonce))
    lockf = open(os.path.join(CACHE, 'extract-%s.lock' % hashlib.sha1(target.encode()).hexdigest()[:8]), 'w')
    fcntl.flock(lockf, fcntl.LOCK_EX)
    try:
        # cargo's freshness cache would skip the wrapper: drop pearl's fingerprints
        fp = os.path.join(target, 'debug', '.fingerprint')
        if os.path.isdir(fp):
            for d in os.listdir(fp):
                if d.startswith(crate + '-'):
                    sh('rm -rf %s' % os.path.join(fp, d))
        env = dict(os.environ)
        env.update({
            'LD_LIBRARY_PATH': nightly_sysroot() + '/lib',
            'CARGO_NET_OFFLINE': 'true',
            'CARGO_INCREMENTAL': '0',
            'RUSTFLAGS': '-Zmir-opt-level=0 -Awarnings',
            'RUSTC_WORKSPACE_WRAPPER': DRIVER_BIN,
            'CARGO_TARGET_DIR': target,
            'PEARL_FACTS_OUT': out,
            'PEARL_FACTS_NONCE': nonce,
            'PEARL_FACTS_CRATE': crate,
        })
        env.pop('RUSTC_WRAPPER', None)
        feat = ('--features ' + features) if features else ''
        r = subprocess.run('cargo +nightly check --offline --lib %s' % feat, shell=True, cwd=repo, env=env,
                           stdout=subprocess.PIPE, stderr=subprocess.STDOUT, text=True)
        if r.returncode != 0:
            raise EngineError('extraction failed (the tree does not compile?):\n' + r.stdout[-6000:])
        if not os.path.exists(out):
            raise EngineError('extraction produced no facts file (wrapper skipped?):\n' + r.stdout[-2000:])
    finally:
        fcntl.flock(lockf, fcntl.LOCK_UN)
        lockf.close()
    prog = core.Program(out)
    if prog.nonce != nonce:
        raise EngineError('stale facts file: nonce mismatch')
    if prog.missing:
        raise EngineError('bodies missing from extraction: %s' % prog.missing[:5])
    if _keep:
        import gzip
        tmp = '%s.%d.%s.tmp' % (_keep, os.getpid(), hashlib.sha1(os.urandom(8)).hexdigest()[:6])    # several checks may run at once
        with open(out, 'rb') as fi, gzip.open(tmp, 'wb', compresslevel=3) as fo:
            fo.write(fi.read())
        os.replace(tmp, _keep)
    os.remove(out)
    return prog


def tree_key(repo):
    """content hash of everything the extraction of a scratch copy depends on: its sources, manifest, lock file and the driver"""
    h = hashlib.sha256()
    for base, dirs, files in sorted(os.walk(os.path.join(repo, 'src'))):
        dirs.sort()
        for fn in sorted(files):
            p = os.path.join(base, fn)
            h.update(os.path.relpath(p, repo).encode())
            with open(p, 'rb') as f:
                h.update(f.read())
    for fn in ('Cargo.toml', 'Cargo.lock', 'build.rs'):
        p = os.path.join(repo, fn)
        if os.path.exists(p):
            with open(p, 'rb') as f:
                h.update(f.read())
    st = os.stat(DRIVER_BIN) if os.path.exists(DRIVER_BIN) else None
    h.update(('%s-%s' % (st.st_size, int(st.st_mtime)) if st else 'nodriver').encode())
    return h.hexdigest()[:32]


def extract_scratch(repo, target=None, tag='mut'):
    """extraction of a *scratch copy* (self-test mutants, never /repo itself) with a content-addressed cache of the facts:
    the same mutated tree is extracted once for all properties of a thorough run"""
    build_driver()
    d = os.path.join(CACHE, 'mutfacts')
    os.makedirs(d, exist_ok=True)
    key = tree_key(repo)
    path = os.path.join(d, key + '.json.gz')
    try:
        ents = sorted((os.path.getmtime(os.path.join(d, x)), x) for x in os.listdir(d))
        for _, x in ents[:max(0, len(ents) - 1600)]:
            os.remove(os.path.join(d, x))
    except OSError:
        pass
    if os.path.exists(path):
        try:
            return core.Program(path)
        except Exception:
            os.remove(path)
    import gzip, shutil
    keep = {}
    orig_remove = os.remove
    prog = None
    # run a normal extraction but keep a compressed copy of the facts file
    os.makedirs(CACHE, exist_ok=True)
    prog = extract(repo=repo, target=target, tag=tag, _keep=path)
    return prog


# ---------------------------------------------------------------------------


class Inst:
    """One checked rule instance."""

    def __init__(self, rule, key, ok, where='', detail='', witness=None, nontrivial=True, queries=1):
        self.rule = rule
        self.key = key
        self.ok = ok
        self.where = where
        self.detail = detail
        self.witness = witness or []
        self.nontrivial = nontrivial
        self.queries = queries

    def fullkey(self):
        return '%s|%s' % (self.rule, self.key)


class Rule:
    def __init__(self, rid, text, func, floor, expect_zero=False):
        self.id = rid
        self.text = text
        self.func = func
        self.floor = floor
        self.expect_zero = expect_zero


class Ctx:
    def __init__(self, prog, prop):
        self.prog = prog
        self.prop = prop
        self.insts = []
        self.notes = []

    def ok(self, rule, key, where='', detail='', nontrivial=True, queries=1):
        self.insts.append(Inst(rule, key, True, where, detail, None, nontrivial, queries))

    def bad(self, rule, key, where='', detail='', witness=None, queries=1):
        self.insts.append(Inst(rule, key, False, where, detail, witness, True, queries))

    def note(self, s):
        self.notes.append(s)


def load_known():
    p = os.path.join(VERIF, 'known_findings.json')
    if not os.path.exists(p):
        return []
    with open(p) as f:
        return json.load(f).get('findings', [])


def run_property(prop, tier, prog=None, quiet=False, write=True, repo=None):
    """Runs all rules of a property. Returns (exit_code, lines, evidence)."""
    t0 = time.time()
    lines = []
    mod = importlib.import_module('props.' + prop.lower())
    if prog is None:
        prog = extract(repo=repo)
    ctx = Ctx(prog, prop)
    rules = mod.RULES
    per_rule = {}
    anchor_lost = []
    for r in rules:
        before = len(ctx.insts)
        try:
            r.func(ctx, r.id)
        except core.AnchorLost as e:
            anchor_lost.append((r.id, str(e)))
        mine = ctx.insts[before:]
        per_rule[r.id] = mine
        if len(mine) < r.floor:
            anchor_lost.append((r.id, 'matched %d instance(s), floor is %d' % (len(mine), r.floor)))
    known = [k for k in load_known() if k['property'] == prop]
    open_keys = {k['key']: k for k in known if k.get('status') == 'open'}
    violations = []
    known_hit = []
    rep_dir = os.path.join(VERIF, 'reports', prop)
    if write:
        os.makedirs(rep_dir, exist_ok=True)
        for f in os.listdir(rep_dir):
            os.remove(os.path.join(rep_dir, f))
    rule_text = {r.id: r.text for r in rules}
    for inst in ctx.insts:
        if inst.ok:
            continue
        fk = inst.fullkey()
        if fk in open_keys:
            known_hit.append((inst, open_keys[fk]))
            continue
        violations.append(inst)
    for (rid, why) in anchor_lost:
        violations.append(Inst(rid, 'anchor-lost', False, '', 'anchor lost (fail closed): ' + why))
    for inst, k in known_hit:
        lines.append('KNOWN-FINDING: property=%s %s [%s at %s]' % (prop, k['what'], inst.fullkey(), inst.where))
    for inst in violations:
        h = hashlib.sha1(inst.fullkey().encode()).hexdigest()[:10]
        path = os.path.join(rep_dir, '%s__%s.json' % (inst.rule.replace('.', '_'), h))
        rep = {
            'property': prop, 'rule': inst.rule, 'rule_text': rule_text.get(inst.rule, ''),
            'key': inst.fullkey(), 'where': inst.where, 'detail': inst.detail, 'witness': inst.witness,
        }
        if write:
            with open(path, 'w') as f:
                json.dump(rep, f, indent=1)
        lines.append('VIOLATION property=%s replay=%s' % (prop, path))
        lines.append('  rule %s: %s' % (inst.rule, rule_text.get(inst.rule, '')[:200]))
        lines.append('  at %s: %s' % (inst.where, inst.detail))
    n_inst = len(ctx.insts)
    n_ok = sum(1 for i in ctx.insts if i.ok)
    distinct_nt = len({i.fullkey() for i in ctx.insts if i.nontrivial})
    samples = []
    for r in rules:
        for i in per_rule[r.id][:3]:
            samples.append({'rule': i.rule, 'instance': i.key, 'site': i.where, 'verdict': 'holds' if i.ok else 'violated', 'detail': i.detail[:300]})
    ev = {
        'property_id': prop,
        'tier': tier,
        'seed': int(os.environ.get('VERIF_SEED', '0') or 0),
        'level': 'other',
        'coverage': {
            'explanation': getattr(mod, 'EXPLANATION', ''),
            'obligations': n_inst,
            'discharged': n_ok,
            'evaluations': sum(i.queries for i in ctx.insts) or 1,
            'distinct_nontrivial': distinct_nt,
            'rule': 'Each obligation is one instance of a structural rule (a call site, store site, exit or field) found in the '
                    'MIR of the current /repo tree; an instance is non-trivial when deciding it required at least one CFG path, '
                    'dominance, provenance or held-set query over real blocks; distinct = distinct (rule, function, site-role) keys. '
                    'Rules: ' + ' || '.join('%s: %s' % (r.id, r.text) for r in rules),
            'samples': samples,
            'exhaustive': True,
            'functions_analysed': len(prog.fns),
            'coroutines': sum(1 for f in prog.fns.values() if f.is_coroutine),
            'yields': prog.n_yields,
            'call_sites': prog.n_calls,
            'per_rule': {r.id: {'instances': len(per_rule[r.id]), 'holding': sum(1 for i in per_rule[r.id] if i.ok), 'floor': r.floor} for r in rules},
            'known_findings_hit': [k['key'] for _, k in known_hit],
            'configuration': 'unix, default features, --lib, nightly mir_built (pre state-transform), -Zmir-opt-level=0',
            'facts_nonce': prog.nonce,
            'notes': ctx.notes,
        },
        'assumptions': getattr(mod, 'ASSUMPTIONS', []) + [
            'rustc MIR construction and type checking are correct; pearl-facts serialises them faithfully',
            'only the unix/default-feature lib configuration is analysed (what the pinned suite builds)',
            'a pass means the listed structural clauses hold on every path/site analysed, not that the behavioural property holds',
        ],
        'wall_s': round(time.time() - t0, 3),
        'violations': len(violations),
    }
    return (1 if violations else 0), lines, ev, ctx


def write_evidence(prop, ev):
    d = os.path.join(VERIF, 'evidence')
    os.makedirs(d, exist_ok=True)
    tmp = os.path.join(d, '%s.json.tmp' % prop)
    with open(tmp, 'w') as f:
        json.dump(ev, f, indent=1)
    os.replace(tmp, os.path.join(d, '%s.json' % prop))
