"""Affine (linear) symbolic evaluation of scalar and slice-extent values over straight-line MIR.

A value is an affine form {symbol: coeff, 1: const}.  A slice has an extent (start, len), both affine, relative to the slice it
was split from.  Used to decide layout agreements such as `the offset the reader reports for the bloom filter is the position at
which it split the bloom bytes off` - equalities between arithmetic expressions that hold for every value of the symbols."""
import core
from core import op_local, op_const, op_place

SIZEOF = {'u8': 1, 'i8': 1, 'u16': 2, 'i16': 2, 'u32': 4, 'i32': 4, 'u64': 8, 'i64': 8, 'usize': 8, 'isize': 8, 'u128': 16}


def const(c):
    return {1: c}


def sym(s):
    return {s: 1}


def add(a, b, sign=1):
    out = dict(a)
    for k, v in b.items():
        out[k] = out.get(k, 0) + sign * v
    return {k: v for k, v in out.items() if v != 0 or k == 1}


def norm(a):
    return tuple(sorted((str(k), v) for k, v in a.items() if v != 0))


def show(a):
    parts = []
    for k, v in sorted(a.items(), key=lambda kv: str(kv[0])):
        if v == 0:
            continue
        parts.append(str(v) if k == 1 else ('%s' % k if v == 1 else '%d*%s' % (v, k)))
    return ' + '.join(parts) or '0'


class Eval:
    def __init__(self, prog, f):
        self.prog = prog
        self.f = f
        self.val = {}      # local -> affine form (scalars)
        self.ext = {}      # local -> (start, len) (slices / references to slices)
        self.pair = {}     # local -> ((start,len),(start,len)) result of split_at
        self.tup = {}      # local -> list of operand forms (tuples / overflow pairs)
        self.ok = True

    def scalar(self, o):
        k = op_const(o)
        if k is not None:
            if 'int' in k:
                return const(int(k['int']))
            return None
        p = op_place(o)
        if p is None:
            return None
        l, proj = p[0], [e for e in p[1] if e != '*']
        if not proj:
            return self.val.get(l, sym('_%d' % l))
        if len(proj) == 1 and isinstance(proj[0], dict) and 'f' in proj[0] and l in self.tup:
            t = self.tup[l]
            return t[proj[0]['f']] if proj[0]['f'] < len(t) else None
        # (x as Continue).0 etc: the payload of a `?`-ed scalar
        if l in self.val:
            return self.val[l]
        return sym('_%d%s' % (l, ''.join(str(e.get('f', e.get('v', ''))) for e in proj if isinstance(e, dict))))

    def extent(self, o):
        p = op_place(o)
        if p is None:
            return None
        l, proj = p[0], [e for e in p[1] if e != '*']
        if not proj:
            return self.ext.get(l)
        if len(proj) == 1 and isinstance(proj[0], dict) and 'f' in proj[0] and l in self.pair:
            return self.pair[l][proj[0]['f']]
        return None

    def run(self):
        f = self.f
        # straight-line approximation: process reachable blocks in index order, repeat to a fixpoint (copies before defs)
        for _round in range(3):
            for i in sorted(f.reachable()):
                b = f.blocks[i]
                for st in b['s']:
                    if st['k'] != 'a' or st['d'][1]:
                        continue
                    d, r = st['d'][0], st['r']
                    k = r['k']
                    if k in ('use', 'cast'):
                        e = self.extent(r['o'])
                        if e is not None:
                            self.ext[d] = e
                        p = op_place(r['o'])
                        if p is not None and not [x for x in p[1] if x != '*'] and p[0] in self.pair:
                            self.pair[d] = self.pair[p[0]]
                        v = self.scalar(r['o'])
                        if v is not None and f.locals[d]['s'] in SIZEOF:
                            self.val[d] = v
                    elif k == 'ref':
                        e = self.extent({'c': r['p']})
                        if e is not None:
                            self.ext[d] = e
                    elif k == 'bin':
                        a, bb_ = self.scalar(r['a']), self.scalar(r['b'])
                        op = r['op']
                        if a is not None and bb_ is not None and (op.startswith('Add') or op.startswith('Sub')):
                            res = add(a, bb_, 1 if op.startswith('Add') else -1)
                            if op.endswith('WithOverflow'):
                                self.tup[d] = [res, const(0)]
                            else:
                                self.val[d] = res
                    elif k == 'agg' and r.get('ak') == 'tuple':
                        self.tup[d] = [self.scalar(o) for o in r['ops']]
                t = b['t']
                if t['k'] == 'call':
                    c = f.call_at(i)
                    d = c.dest[0]
                    if c.path == 'std::mem::size_of' or c.full.startswith('std::mem::size_of::<'):
                        ty = c.full[c.full.index('<') + 1:c.full.rindex('>')] if '<' in c.full else ''
                        if ty in SIZEOF:
                            self.val[d] = const(SIZEOF[ty])
                    elif c.name == 'split_at' and len(c.args) == 2:
                        e = self.extent(c.args[0])
                        kk = self.scalar(c.args[1])
                        if e is not None and kk is not None:
                            self.pair[d] = ((e[0], kk), (add(e[0], kk), add(e[1], kk, -1)))
                    elif c.name == 'deserialize_from' and c.path.startswith('bincode') and c.args:
                        # reading a fixed-size value from `&mut &[u8]` advances the slice by the size of the value
                        import re
                        m = re.findall(r'(u8|u16|u32|u64|usize|i8|i16|i32|i64|isize|u128)>', c.full)
                        l0 = op_local(c.args[0])
                        tgt = None
                        if l0 is not None:
                            ds = [x for x in f.defs().get(l0, []) if x[2] == 'assign' and x[3]['k'] == 'ref']
                            if len(ds) == 1:
                                tgt = ds[0][3]['p'][0]
                        if m and tgt is not None and tgt in self.ext:
                            sz = const(SIZEOF[m[-1]])
                            e = self.ext[tgt]
                            self.ext[tgt] = (add(e[0], sz), add(e[1], sz, -1))
                    elif c.name == 'len' and c.args:
                        e = self.extent(c.args[0])
                        if e is not None:
                            self.val[d] = e[1]
                        elif op_local(c.args[0]) is not None:
                            self.val[d] = sym('len(_%d)' % core.access_root(f, op_local(c.args[0])))
                    elif c.name in ('branch', 'deref', 'as_ref', 'as_slice', 'borrow', 'into', 'from', 'unwrap', 'expect') and c.args:
                        v = self.scalar(c.args[0])
                        if v is not None and op_local(c.args[0]) in self.val:
                            self.val[d] = self.val[op_local(c.args[0])]
                        e = self.extent(c.args[0])
                        if e is not None:
                            self.ext[d] = e
        return self
