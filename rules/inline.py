"""Transparency for newly introduced thin helpers.

A change under test may wrap a primitive operation (an atomic operation on a field, a lock acquisition, a file call, a struct
literal, `tokio::spawn`, ..) into a small private function and call that at every site.  The rules are written against the
primitives; instead of teaching every rule every possible wrapper, the wrapper is removed before the rules run: a function that
 * is not in the table of functions the rules were written against (rules/tables/fn_signatures.json - so nothing is ever inlined
   on the tree the rules were written for), and
 * is small, loop-free, has no nested closures and is not recursive
is inlined into each of its callers on the fact level (MIR statements and blocks are copied with renamed locals, the arguments
become assignments, `return` becomes an assignment to the call's destination and a jump to its target).  A thin `async fn`
(one await on one call, whose value is returned) is replaced at the call site by the call it awaits, so that the caller's own
`.await` is an await of the primitive.  When every call of such a function was inlined and nothing else refers to it, its
stand-alone body is dropped from the program.

The transformation is semantics-preserving by construction (it is what the compiler's inliner does); if a shape is not
understood, the call is left alone."""
import copy
import json

MAX_BLOCKS = 14
MAX_CALLS = 4


class _Map:
    """local renaming of an inlined body: callee local l -> l + base, except the return place when the call's destination is a
    plain local (the inlined body then writes the destination directly, as the caller's own code would)"""

    def __init__(self, base, ret=None):
        self.base, self.ret = base, ret

    def __call__(self, l):
        if l == 0 and self.ret is not None:
            return self.ret
        return l + self.base


def _m(base, l):
    return base(l) if callable(base) else l + base


def _ren_place(p, base):
    return [_m(base, p[0]), [({'i': _m(base, e['i'])} if isinstance(e, dict) and 'i' in e else e) for e in p[1]]]


def _ren_operand(o, base):
    if not isinstance(o, dict):
        return o
    if 'c' in o:
        return {'c': _ren_place(o['c'], base)}
    if 'm' in o:
        return {'m': _ren_place(o['m'], base)}
    return o


def _ren_rvalue(r, base):
    r = dict(r)
    for k in ('o', 'a', 'b'):
        if isinstance(r.get(k), dict):
            r[k] = _ren_operand(r[k], base)
    if 'ops' in r:
        r['ops'] = [_ren_operand(o, base) for o in r['ops']]
    if 'p' in r and isinstance(r['p'], list):
        r['p'] = _ren_place(r['p'], base)
    return r


def _ren_stmt(s, base):
    s = dict(s)
    if s['k'] in ('sl', 'sd'):
        s['v'] = _m(base, s['v'])
    elif s['k'] == 'a':
        s['d'] = _ren_place(s['d'], base)
        s['r'] = _ren_rvalue(s['r'], base)
    elif s['k'] == 'setdiscr':
        s['d'] = _ren_place(s['d'], base)
    return s


def _ren_term(t, base, nb):
    t = copy.deepcopy(t)
    k = t['k']

    def blk(x):
        return x + nb if isinstance(x, int) and not isinstance(x, bool) else x
    if k == 'goto':
        t['t'] = blk(t['t'])
        for e in ('false_edge',):
            if e in t:
                t[e] = blk(t[e])
    elif k == 'switch':
        t['o'] = _ren_operand(t['o'], base)
        t['vals'] = [[v, blk(tg)] for v, tg in t['vals']]
        t['otherwise'] = blk(t['otherwise'])
    elif k == 'drop':
        t['p'] = _ren_place(t['p'], base)
        t['t'] = blk(t['t'])
        t['u'] = blk(t.get('u'))
        t['cd'] = blk(t.get('cd'))
    elif k == 'call':
        if 'indirect' in t['f']:
            t['f'] = {'indirect': _ren_operand(t['f']['indirect'], base)}
        t['args'] = [_ren_operand(a, base) for a in t['args']]
        t['d'] = _ren_place(t['d'], base)
        t['t'] = blk(t['t'])
        t['u'] = blk(t.get('u'))
    elif k == 'assert':
        t['o'] = _ren_operand(t['o'], base)
        t['t'] = blk(t['t'])
        t['u'] = blk(t.get('u'))
    return t


def _callee_id(t):
    f = t.get('f') or {}
    if 'path' not in f:
        return None
    if f.get('res') and f.get('res_kind') == 'item':
        return f['res']
    if f.get('trait'):
        return None
    return f['path']


def _succ(b):
    t = b['t']
    k = t['k']
    if k == 'goto':
        return [t['t']]
    if k == 'switch':
        return [x[1] for x in t['vals']] + [t['otherwise']]
    if k in ('call', 'drop', 'assert'):
        return [t['t']] if t.get('t') is not None else []
    return []


def _has_loop(g):
    color = {}

    def dfs(i):
        color[i] = 1
        for x in _succ(g['blocks'][i]):
            if g['blocks'][x]['c']:
                continue
            if color.get(x) == 1:
                return True
            if x not in color and dfs(x):
                return True
        color[i] = 2
        return False
    return dfs(0)


def _is_thin_sync(g, known, parents):
    if g['id'] in known or g.get('kind') not in ('Fn', 'AssocFn') or g.get('async') or g.get('coroutine'):
        return False
    if g['id'] in parents or not g.get('file', '').startswith('src/') or '::tests::' in g['id'] or '::test::' in g['id']:
        return False
    if g.get('trait_item') or g.get('impl_trait'):
        return False
    live = [b for b in g['blocks'] if not b['c']]
    if len(live) > MAX_BLOCKS:
        return False
    calls = [b['t'] for b in live if b['t']['k'] == 'call']
    if len(calls) > MAX_CALLS or any(_callee_id(t) == g['id'] for t in calls):
        return False
    if any(b['t']['k'] in ('yield', 'tailcall', 'asm', 'cordrop') for b in live):
        return False
    if not any(b['t']['k'] == 'return' for b in live):
        return False
    return not _has_loop(g)


def _inline_sync(f, bi, g):
    B = f['blocks'][bi]
    t = B['t']
    if len(t['args']) != g['argc']:
        return False
    base = len(f['locals'])
    nb = len(f['blocks'])
    f['locals'].extend(copy.deepcopy(g['locals']))
    line = t.get('l', 0)
    for i, a in enumerate(t['args']):
        B['s'].append({'k': 'a', 'd': [base + 1 + i, []], 'r': {'k': 'use', 'o': a}, 'l': line})
        src = a.get('m', a.get('c')) if isinstance(a, dict) else None
        if src is not None and not src[1]:
            # the callee's parameter type may be a generic parameter (`F`): the caller knows the concrete type
            pt = g['locals'][1 + i]
            if pt.get('h') == 'param':
                conc = copy.deepcopy(f['locals'][src[0]])
                for k in range(base, len(f['locals'])):
                    if f['locals'][k].get('h') == 'param' and f['locals'][k].get('s') == pt.get('s'):
                        f['locals'][k] = copy.deepcopy(conc)
    dest, target = t['d'], t['t']
    direct = not dest[1]
    lm = _Map(base, dest[0] if direct else None)
    for gb in g['blocks']:
        nbk = {'c': gb['c'], 's': [_ren_stmt(s, lm) for s in gb['s'] if not (direct and s['k'] in ('sl', 'sd') and s['v'] == 0)],
               't': _ren_term(gb['t'], lm, nb), 'inl': g['id']}
        if gb['t']['k'] == 'return' and not gb['c']:
            if not direct:
                nbk['s'].append({'k': 'a', 'd': dest, 'r': {'k': 'use', 'o': {'m': [base, []]}}, 'l': line})
            nbk['t'] = {'k': 'goto', 't': target, 'l': line} if target is not None else {'k': 'unreachable'}
        f['blocks'].append(nbk)
    B['t'] = {'k': 'goto', 't': nb, 'l': line}
    f.setdefault('inlined', []).append(g['id'])
    return True


# --------------------------------------------------------------------------------------------------------------------------
# thin async wrappers: `async fn w(a, b) -> T { prim(f(a), b).await }`
# --------------------------------------------------------------------------------------------------------------------------

def _thin_async(stub, body, known, parents_of):
    """(call terminator of the awaited primitive, statements before it, upvar map) when `body` (the coroutine of `stub`) is:
    copies of its upvars, ONE call that produces a future, into_future + the poll loop, and a return of the polled value"""
    if stub['id'] in known or not stub.get('async') or not stub.get('file', '').startswith('src/') or '::tests::' in stub['id']:
        return None
    if stub.get('trait_item') or stub.get('impl_trait'):
        return None
    if any(p == body['id'] for p in parents_of):
        return None
    live = [(i, b) for i, b in enumerate(body['blocks']) if not b['c']]
    yields = [b for _, b in live if b['t']['k'] == 'yield']
    if len(yields) != 1 or len(live) > 40:
        return None
    calls = [(i, b) for i, b in live if b['t']['k'] == 'call']
    plumbing = ('into_future', 'poll', 'new_unchecked', 'get_context')
    prim = [(i, b) for i, b in calls if b['t']['f'].get('name') not in plumbing]
    if len(prim) != 1:
        return None
    pi, pb = prim[0]
    # the statements that compute the primitive's arguments: the straight-line chain from the entry block to the call
    # (facts are taken from mir_built: the coroutine body starts at bb0, its upvars are the fields of _1)
    chain = []
    cur = 0
    seen = set()
    while cur != pi:
        if cur in seen:
            return None
        seen.add(cur)
        b = body['blocks'][cur]
        if b['t']['k'] != 'goto':
            return None
        chain.extend(b['s'])
        cur = b['t']['t']
    chain = chain + list(pb['s'])
    return (pb['t'], chain)


def _inline_async(f, bi, stub, body, prim_t, chain):
    """replace `fut = w(args)` in block bi of f by the statements computing the primitive's arguments and `fut = prim(..)`"""
    B = f['blocks'][bi]
    t = B['t']
    # the stub builds the coroutine: `_0 = Coroutine { ops: [move _1, move _2, ..] }`  -> upvar index -> parameter local
    up = None
    for b in stub['blocks']:
        for s in b['s']:
            if s['k'] == 'a' and s['d'] == [0, []] and s['r']['k'] == 'agg' and s['r'].get('ak') in ('coroutine', 'closure'):
                up = [o.get('m', o.get('c')) for o in s['r']['ops']]
    if up is None or any(u is None or u[1] for u in up):
        return False
    if len(t['args']) != stub['argc']:
        return False
    base = len(f['locals'])
    f['locals'].extend(copy.deepcopy(body['locals']))
    line = t.get('l', 0)

    def map_place(p):
        """a place of the coroutine body in the caller: `(*_1).upvar_i.rest` -> the caller's operand for that parameter"""
        l, proj = p
        if l == 1:
            pr = [e for e in proj]
            # strip the pin / deref prefix down to the field access
            while pr and pr[0] == '*':
                pr = pr[1:]
            if pr and isinstance(pr[0], dict) and 'f' in pr[0]:
                idx = pr[0]['f']
                if idx < len(up):
                    a = t['args'][up[idx][0] - 1]
                    src = a.get('m', a.get('c'))
                    if src is None:
                        return None   # a constant argument
                    return [src[0], src[1] + [({'i': e['i'] + base} if isinstance(e, dict) and 'i' in e else e) for e in pr[1:]]]
            return None
        return _ren_place(p, base)

    def map_operand(o):
        if 'c' in o or 'm' in o:
            key = 'c' if 'c' in o else 'm'
            p = map_place(o[key])
            if p is None:
                if o[key][0] == 1:
                    pr = [e for e in o[key][1] if e != '*']
                    if len(pr) == 1 and isinstance(pr[0], dict) and 'f' in pr[0] and pr[0]['f'] < len(up):
                        return t['args'][up[pr[0]['f']][0] - 1]
                raise ValueError('unmapped place')
            return {key: p}
        return o
    new_stmts = []
    try:
        for s in chain:
            s2 = dict(s)
            if s['k'] in ('sl', 'sd'):
                s2['v'] = s['v'] + base
            elif s['k'] == 'a':
                d = map_place(s['d'])
                if d is None:
                    raise ValueError('assignment into the coroutine state')
                r = dict(s['r'])
                for k in ('o', 'a', 'b'):
                    if isinstance(r.get(k), dict):
                        r[k] = map_operand(r[k])
                if 'ops' in r:
                    r['ops'] = [map_operand(o) for o in r['ops']]
                if 'p' in r and isinstance(r['p'], list):
                    p = map_place(r['p'])
                    if p is None:
                        raise ValueError('unmapped place')
                    r['p'] = p
                s2['d'], s2['r'] = d, r
            else:
                raise ValueError('statement kind')
            new_stmts.append(s2)
        nt = copy.deepcopy(prim_t)
        nt['args'] = [map_operand(a) for a in prim_t['args']]
    except (ValueError, IndexError, KeyError, TypeError):
        del f['locals'][base:]
        return False
    nt['d'] = t['d']
    nt['t'] = t['t']
    nt['u'] = t.get('u')
    nt['l'] = line
    nt['inl'] = stub['id']
    B['s'].extend(new_stmts)
    B['t'] = nt
    f.setdefault('inlined', []).append(stub['id'])
    return True


def _mentions(j, fid):
    """is `fid` referred to as a value (fn item passed as an argument) anywhere?"""
    needle = json.dumps(fid)
    for f in j['fns']:
        for b in f['blocks']:
            for s in b['s']:
                if s['k'] == 'a' and needle in json.dumps(s['r']):
                    return True
            t = b['t']
            if t['k'] == 'call' and needle in json.dumps(t['args']):
                return True
    return False


def inline_new_thin(j, known):
    """returns the list of (function id, number of inlined call sites, dropped?)"""
    report = {}
    for _round in range(4):
        fns = {f['id']: f for f in j['fns']}
        parents = {f.get('parent') for f in j['fns'] if f.get('parent')}
        thin = {}
        thin_async = {}
        for g in j['fns']:
            if _is_thin_sync(g, known, parents):
                thin[g['id']] = copy.deepcopy(g)
            elif g.get('async') and g['id'] not in known:
                body = fns.get(g['id'] + '::{closure#0}')
                if body is not None:
                    grand = [f.get('parent') for f in j['fns'] if f.get('parent')]
                    r = _thin_async(g, body, known, grand)
                    if r is not None:
                        thin_async[g['id']] = (copy.deepcopy(g), copy.deepcopy(body), r[0], r[1])
        if not thin and not thin_async:
            break
        changed = False
        for f in j['fns']:
            nb0 = len(f['blocks'])
            for bi in range(nb0):
                b = f['blocks'][bi]
                if b['c'] or b['t']['k'] != 'call':
                    continue
                cid = _callee_id(b['t'])
                if cid is None or cid == f['id']:
                    continue
                if cid in thin and f['id'] != cid:
                    if _inline_sync(f, bi, thin[cid]):
                        report[cid] = report.get(cid, 0) + 1
                        changed = True
                elif cid in thin_async and not f['id'].startswith(cid + '::'):
                    stub, body, pt, chain = thin_async[cid]
                    if _inline_async(f, bi, stub, body, pt, chain):
                        report[cid] = report.get(cid, 0) + 1
                        changed = True
        if not changed:
            break
    # drop stand-alone bodies nobody refers to any more
    dropped = []
    if report:
        called = set()
        for f in j['fns']:
            for b in f['blocks']:
                if not b['c'] and b['t']['k'] == 'call':
                    cid = _callee_id(b['t'])
                    if cid:
                        called.add(cid)
        for fid in list(report):
            g = next((f for f in j['fns'] if f['id'] == fid), None)
            if g is None or fid in called or g.get('pub') or _mentions(j, fid):
                continue
            fam = {fid} | {f['id'] for f in j['fns'] if f['id'].startswith(fid + '::{')}
            j['fns'] = [f for f in j['fns'] if f['id'] not in fam]
            dropped.append(fid)
    return [(fid, n, fid in dropped) for fid, n in sorted(report.items())]
