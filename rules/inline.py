"""Transparency for newly introduced thin helpers.

A change under test may wrap a primitive operation (an atomic operation on a field, a lock acquisition, a file call, a struct
literal, `tokio::spawn`, ..) into a small private function and call that at every site.  The rules are written against the
primitives; instead of teaching every rule every possible wrapper, the wrapper is removed before the rules run: a function that
 * is not in the table of functions the rules were written against (rules/tables/fn_signatures.json - so nothing is ever inlined
   on the tree the rules were written for), and
 * is small, loop-free, has no nested closures and is not recursive
is inlined into each of its callers on the fact level (MIR statements and blocks are copied with renamed locals, the arguments
become assignments, `return` becomes an assignment to the call's destination and a jump to its target).  A thin `async fn`
(one await on one call, whose value is returned) is replaced at the call site by the call it awaits, so that the caller's own
`.await` is an await of the primitive.  When every call of such a function was inlined and nothing else refers to it, its
stand-alone body is dropped from the program.

The transformation is semantics-preserving by construction (it is what the compiler's inliner does); if a shape is not
understood, the call is left alone."""
import copy
import json

MAX_BLOCKS = 400
MAX_CALLS = 120
MAX_SITES = 12     # a new function called from more places than this is left alone (it is not a wrapper of one code path)


class _Map:
    """local renaming of an inlined body: callee local l -> l + base, except the return place when the call's destination is a
    plain local (the inlined body then writes the destination directly, as the caller's own code would).  `deref` maps a callee
    parameter that the caller passes as `&mut x` / `&x` of one of its own places to that place: `(*param).f` becomes `x.f`."""

    def __init__(self, base, ret=None, deref=None):
        self.base, self.ret, self.deref = base, ret, deref or {}

    def __call__(self, l):
        if l == 0 and self.ret is not None:
            return self.ret
        return l + self.base


def _m(base, l):
    return base(l) if callable(base) else l + base


def _ren_place(p, base):
    proj = [({'i': _m(base, e['i'])} if isinstance(e, dict) and 'i' in e else e) for e in p[1]]
    d = getattr(base, 'deref', None)
    if d and p[0] in d and proj and proj[0] == '*':
        x, projx = d[p[0]]
        return [x, list(projx) + proj[1:]]
    return [_m(base, p[0]), proj]


def _ren_operand(o, base):
    if not isinstance(o, dict):
        return o
    if 'c' in o:
        return {'c': _ren_place(o['c'], base)}
    if 'm' in o:
        return {'m': _ren_place(o['m'], base)}
    return o


def _ren_rvalue(r, base):
    r = dict(r)
    for k in ('o', 'a', 'b'):
        if isinstance(r.get(k), dict):
            r[k] = _ren_operand(r[k], base)
    if 'ops' in r:
        r['ops'] = [_ren_operand(o, base) for o in r['ops']]
    if 'p' in r and isinstance(r['p'], list):
        r['p'] = _ren_place(r['p'], base)
    return r


def _ren_stmt(s, base):
    s = dict(s)
    if s['k'] in ('sl', 'sd'):
        s['v'] = _m(base, s['v'])
    elif s['k'] == 'a':
        s['d'] = _ren_place(s['d'], base)
        s['r'] = _ren_rvalue(s['r'], base)
    elif s['k'] == 'setdiscr':
        s['d'] = _ren_place(s['d'], base)
    return s


def _ren_term(t, base, nb):
    t = copy.deepcopy(t)
    k = t['k']

    def blk(x):
        return x + nb if isinstance(x, int) and not isinstance(x, bool) else x
    if k == 'goto':
        t['t'] = blk(t['t'])
        for e in ('false_edge',):
            if e in t:
                t[e] = blk(t[e])
    elif k == 'switch':
        t['o'] = _ren_operand(t['o'], base)
        t['vals'] = [[v, blk(tg)] for v, tg in t['vals']]
        t['otherwise'] = blk(t['otherwise'])
    elif k == 'drop':
        t['p'] = _ren_place(t['p'], base)
        t['t'] = blk(t['t'])
        t['u'] = blk(t.get('u'))
        t['cd'] = blk(t.get('cd'))
    elif k == 'call':
        if 'indirect' in t['f']:
            t['f'] = {'indirect': _ren_operand(t['f']['indirect'], base)}
        t['args'] = [_ren_operand(a, base) for a in t['args']]
        t['d'] = _ren_place(t['d'], base)
        t['t'] = blk(t['t'])
        t['u'] = blk(t.get('u'))
    elif k == 'assert':
        t['o'] = _ren_operand(t['o'], base)
        t['t'] = blk(t['t'])
        t['u'] = blk(t.get('u'))
    return t


def _callee_id(t):
    f = t.get('f') or {}
    if 'path' not in f:
        return None
    if f.get('res') and f.get('res_kind') == 'item':
        return f['res']
    if f.get('trait'):
        return None
    return f['path']


def _succ(b):
    t = b['t']
    k = t['k']
    if k == 'goto':
        return [t['t']]
    if k == 'switch':
        return [x[1] for x in t['vals']] + [t['otherwise']]
    if k in ('call', 'drop', 'assert'):
        return [t['t']] if t.get('t') is not None else []
    return []


def _has_loop(g):
    color = {}

    def dfs(i):
        color[i] = 1
        for x in _succ(g['blocks'][i]):
            if g['blocks'][x]['c']:
                continue
            if color.get(x) == 1:
                return True
            if x not in color and dfs(x):
                return True
        color[i] = 2
        return False
    return dfs(0)


def _ref_target(f, l):
    """the caller's place a local reference `l` points to when `l` has one definition `&[mut] place` (reborrows followed), else None"""
    def single_ref(x):
        ds = [st for bb in f['blocks'] if not bb['c'] for st in bb['s'] if st['k'] == 'a' and st['d'] == [x, []]]
        if len(ds) == 1 and ds[0]['r']['k'] == 'ref' and not any(isinstance(e, dict) and 'i' in e for e in ds[0]['r']['p'][1]):
            return ds[0]['r']['p']
        if len(ds) == 1 and ds[0]['r']['k'] == 'use' and isinstance(ds[0]['r']['o'], dict):
            pp = ds[0]['r']['o'].get('m') or ds[0]['r']['o'].get('c')
            if pp and not pp[1]:
                return single_ref(pp[0])
        return None
    pl = single_ref(l)
    hops = 0
    while pl is not None and pl[1] and pl[1][0] == '*' and hops < 3:
        inner = single_ref(pl[0])
        if inner is None:
            break
        pl = [inner[0], list(inner[1]) + list(pl[1][1:])]
        hops += 1
    return pl


def _is_thin_sync(g, known, parents):
    """a NEW (unknown to the rules) plain function that can be inlined: any shape but recursion (loops and nested closures are
    fine: the closures stay separate bodies and are re-parented to the caller when the function disappears)"""
    if g['id'] in known or g.get('kind') not in ('Fn', 'AssocFn') or g.get('async') or g.get('coroutine'):
        return False
    if not g.get('file', '').startswith('src/') or '::tests::' in g['id'] or '::test::' in g['id']:
        return False
    if g.get('trait_item') or g.get('impl_trait'):
        return False
    live = [b for b in g['blocks'] if not b['c']]
    if len(live) > MAX_BLOCKS:
        return False
    calls = [b['t'] for b in live if b['t']['k'] == 'call']
    if len(calls) > MAX_CALLS or any(_callee_id(t) == g['id'] for t in calls):
        return False
    if any(b['t']['k'] in ('yield', 'tailcall', 'asm', 'cordrop') for b in live):
        return False
    if not any(b['t']['k'] == 'return' for b in live):
        return False
    return True


def _inline_sync(f, bi, g):
    B = f['blocks'][bi]
    t = B['t']
    if len(t['args']) != g['argc']:
        return False
    base = len(f['locals'])
    nb = len(f['blocks'])
    f['locals'].extend(copy.deepcopy(g['locals']))
    line = t.get('l', 0)
    for i, a in enumerate(t['args']):
        B['s'].append({'k': 'a', 'd': [base + 1 + i, []], 'r': {'k': 'use', 'o': a}, 'l': line})
        src = a.get('m', a.get('c')) if isinstance(a, dict) else None
        if src is not None and not src[1]:
            # the callee's parameter type may be a generic parameter (`F`): the caller knows the concrete type
            pt = g['locals'][1 + i]
            if pt.get('h') == 'param':
                conc = copy.deepcopy(f['locals'][src[0]])
                for k in range(base, len(f['locals'])):
                    if f['locals'][k].get('h') == 'param' and f['locals'][k].get('s') == pt.get('s'):
                        f['locals'][k] = copy.deepcopy(conc)
    dest, target = t['d'], t['t']
    direct = not dest[1]
    # a parameter passed as a fresh reference to a place of the caller (`&mut counter`): the inlined body works on the place
    deref = {}
    for i, a in enumerate(t['args']):
        src = a.get('m', a.get('c')) if isinstance(a, dict) else None
        if src is None or src[1]:
            continue
        def single_ref(l):
            ds = [st for bb in f['blocks'] if not bb['c'] for st in bb['s'] if st['k'] == 'a' and st['d'] == [l, []]]
            if len(ds) == 1 and ds[0]['r']['k'] == 'ref' and not any(isinstance(e, dict) and 'i' in e for e in ds[0]['r']['p'][1]):
                return ds[0]['r']['p']
            if len(ds) == 1 and ds[0]['r']['k'] == 'use' and isinstance(ds[0]['r']['o'], dict) and (ds[0]['r']['o'].get('m') or ds[0]['r']['o'].get('c')) and not (ds[0]['r']['o'].get('m') or ds[0]['r']['o'].get('c'))[1]:
                return single_ref((ds[0]['r']['o'].get('m') or ds[0]['r']['o'].get('c'))[0])
            return None
        pl = single_ref(src[0])
        hops = 0
        # a reborrow `&mut *tmp` of `tmp = &mut x`
        while pl is not None and pl[1] and pl[1][0] == '*' and hops < 3:
            inner = single_ref(pl[0])
            if inner is None:
                break
            pl = [inner[0], list(inner[1]) + list(pl[1][1:])]
            hops += 1
        if pl is not None and not (pl[1] and pl[1][0] == '*' and f['locals'][pl[0]]['s'].startswith('&') is False):
            deref[1 + i] = (pl[0], pl[1])
    lm = _Map(base, dest[0] if direct else None, deref)
    for gb in g['blocks']:
        nbk = {'c': gb['c'], 's': [_ren_stmt(s, lm) for s in gb['s'] if not (direct and s['k'] in ('sl', 'sd') and s['v'] == 0)],
               't': _ren_term(gb['t'], lm, nb), 'inl': g['id']}
        if gb['t']['k'] == 'return' and not gb['c']:
            if not direct:
                nbk['s'].append({'k': 'a', 'd': dest, 'r': {'k': 'use', 'o': {'m': [base, []]}}, 'l': line})
            nbk['t'] = {'k': 'goto', 't': target, 'l': line} if target is not None else {'k': 'unreachable'}
        f['blocks'].append(nbk)
    B['t'] = {'k': 'goto', 't': nb, 'l': line}
    f.setdefault('inlined', []).append(g['id'])
    return True


# --------------------------------------------------------------------------------------------------------------------------
# thin async wrappers: `async fn w(a, b) -> T { prim(f(a), b).await }`
# --------------------------------------------------------------------------------------------------------------------------

def _thin_async(stub, body, known, parents_of):
    """(call terminator of the awaited primitive, statements before it, upvar map) when `body` (the coroutine of `stub`) is:
    copies of its upvars, ONE call that produces a future, into_future + the poll loop, and a return of the polled value"""
    if stub['id'] in known or not stub.get('async') or not stub.get('file', '').startswith('src/') or '::tests::' in stub['id']:
        return None
    if stub.get('trait_item') or stub.get('impl_trait'):
        return None
    if any(p == body['id'] for p in parents_of):
        return None
    live = [(i, b) for i, b in enumerate(body['blocks']) if not b['c']]
    yields = [b for _, b in live if b['t']['k'] == 'yield']
    if len(yields) != 1 or len(live) > 40:
        return None
    calls = [(i, b) for i, b in live if b['t']['k'] == 'call']
    plumbing = ('into_future', 'poll', 'new_unchecked', 'get_context')
    prim = [(i, b) for i, b in calls if b['t']['f'].get('name') not in plumbing]
    if len(prim) != 1:
        return None
    pi, pb = prim[0]
    # the statements that compute the primitive's arguments: the straight-line chain from the entry block to the call
    # (facts are taken from mir_built: the coroutine body starts at bb0, its upvars are the fields of _1)
    chain = []
    cur = 0
    seen = set()
    while cur != pi:
        if cur in seen:
            return None
        seen.add(cur)
        b = body['blocks'][cur]
        if b['t']['k'] != 'goto':
            return None
        chain.extend(b['s'])
        cur = b['t']['t']
    chain = chain + list(pb['s'])
    return (pb['t'], chain)


def _inline_async(f, bi, stub, body, prim_t, chain):
    """replace `fut = w(args)` in block bi of f by the statements computing the primitive's arguments and `fut = prim(..)`"""
    B = f['blocks'][bi]
    t = B['t']
    # the stub builds the coroutine: `_0 = Coroutine { ops: [move _1, move _2, ..] }`  -> upvar index -> parameter local
    up = None
    for b in stub['blocks']:
        for s in b['s']:
            if s['k'] == 'a' and s['d'] == [0, []] and s['r']['k'] == 'agg' and s['r'].get('ak') in ('coroutine', 'closure'):
                up = [o.get('m', o.get('c')) for o in s['r']['ops']]
    if up is None or any(u is None or u[1] for u in up):
        return False
    if len(t['args']) != stub['argc']:
        return False
    base = len(f['locals'])
    f['locals'].extend(copy.deepcopy(body['locals']))
    line = t.get('l', 0)

    def map_place(p):
        """a place of the coroutine body in the caller: `(*_1).upvar_i.rest` -> the caller's operand for that parameter"""
        l, proj = p
        if l == 1:
            pr = [e for e in proj]
            # strip the pin / deref prefix down to the field access
            while pr and pr[0] == '*':
                pr = pr[1:]
            if pr and isinstance(pr[0], dict) and 'f' in pr[0]:
                idx = pr[0]['f']
                if idx < len(up):
                    a = t['args'][up[idx][0] - 1]
                    src = a.get('m', a.get('c'))
                    if src is None:
                        return None   # a constant argument
                    return [src[0], src[1] + [({'i': e['i'] + base} if isinstance(e, dict) and 'i' in e else e) for e in pr[1:]]]
            return None
        return _ren_place(p, base)

    def map_operand(o):
        if 'c' in o or 'm' in o:
            key = 'c' if 'c' in o else 'm'
            p = map_place(o[key])
            if p is None:
                if o[key][0] == 1:
                    pr = [e for e in o[key][1] if e != '*']
                    if len(pr) == 1 and isinstance(pr[0], dict) and 'f' in pr[0] and pr[0]['f'] < len(up):
                        return t['args'][up[pr[0]['f']][0] - 1]
                raise ValueError('unmapped place')
            return {key: p}
        return o
    new_stmts = []
    try:
        for s in chain:
            s2 = dict(s)
            if s['k'] in ('sl', 'sd'):
                s2['v'] = s['v'] + base
            elif s['k'] == 'a':
                d = map_place(s['d'])
                if d is None:
                    raise ValueError('assignment into the coroutine state')
                r = dict(s['r'])
                for k in ('o', 'a', 'b'):
                    if isinstance(r.get(k), dict):
                        r[k] = map_operand(r[k])
                if 'ops' in r:
                    r['ops'] = [map_operand(o) for o in r['ops']]
                if 'p' in r and isinstance(r['p'], list):
                    p = map_place(r['p'])
                    if p is None:
                        raise ValueError('unmapped place')
                    r['p'] = p
                s2['d'], s2['r'] = d, r
            else:
                raise ValueError('statement kind')
            new_stmts.append(s2)
        nt = copy.deepcopy(prim_t)
        nt['args'] = [map_operand(a) for a in prim_t['args']]
    except (ValueError, IndexError, KeyError, TypeError):
        del f['locals'][base:]
        return False
    nt['d'] = t['d']
    nt['t'] = t['t']
    nt['u'] = t.get('u')
    nt['l'] = line
    nt['inl'] = stub['id']
    B['s'].extend(new_stmts)
    B['t'] = nt
    f.setdefault('inlined', []).append(stub['id'])
    return True


# --------------------------------------------------------------------------------------------------------------------------
# new async helpers: the coroutine body of `async fn h(a, b)` replaces `h(a, b).await` in the caller
# --------------------------------------------------------------------------------------------------------------------------

def _await_shape(f, bi):
    """the await of the future produced by the call in block `bi` of coroutine body `f` (facts from mir_built):
       bi: fut = h(..) -> b1;  b1: f2 = into_future(move fut) -> ..;  .. poll(pin, cx) -> bs;  bs: switch discr(poll) [0 -> ready]
    returns (poll local, ready block) or None"""
    t = f['blocks'][bi]['t']
    if t.get('t') is None or t['d'][1]:
        return None
    fut = t['d'][0]
    b1 = f['blocks'][t['t']]
    t1 = b1['t']
    if t1['k'] != 'call' or t1['f'].get('name') != 'into_future' or not t1['args']:
        return None
    a0 = t1['args'][0].get('m') or t1['args'][0].get('c')
    if a0 is None or a0[0] != fut:
        return None
    cur = t1.get('t')
    seen = set()
    for _ in range(12):
        if cur is None or cur in seen:
            return None
        seen.add(cur)
        b = f['blocks'][cur]
        tt = b['t']
        if tt['k'] == 'call' and tt['f'].get('name') == 'poll':
            poll = tt['d'][0]
            sw = f['blocks'][tt['t']]
            if sw['t']['k'] != 'switch':
                return None
            ready = None
            for v, tg in sw['t']['vals']:
                if v == 0:
                    ready = tg
            if ready is None:
                return None
            return (poll, ready)
        if tt['k'] in ('goto',):
            cur = tt['t']
        elif tt['k'] == 'call' and tt['f'].get('name') in ('new_unchecked', 'get_context'):
            cur = tt.get('t')
        else:
            return None
    return None


def _is_new_async(stub, body, known):
    if stub['id'] in known or not stub.get('async') or not stub.get('file', '').startswith('src/') or '::tests::' in stub['id']:
        return False
    if stub.get('trait_item') or stub.get('impl_trait'):
        return False
    live = [b for b in body['blocks'] if not b['c']]
    if len(live) > 3 * MAX_BLOCKS:
        return False
    if any(b['t']['k'] == 'call' and _callee_id(b['t']) == stub['id'] for b in live):
        return False
    return any(b['t']['k'] == 'return' for b in live)


def _inline_async_body(f, bi, stub, body):
    """replace `h(args).await` (the call in block bi of coroutine f and its poll loop) by the body of h's coroutine"""
    if not f.get('coroutine'):
        return False
    shape = _await_shape(f, bi)
    if shape is None:
        return False
    poll_local, ready = shape
    B = f['blocks'][bi]
    t = B['t']
    up = None
    for b in stub['blocks']:
        for st in b['s']:
            if st['k'] == 'a' and st['d'] == [0, []] and st['r']['k'] == 'agg' and st['r'].get('ak') in ('coroutine', 'closure'):
                up = [o.get('m', o.get('c')) for o in st['r']['ops']]
    if up is None or any(u is None or u[1] or u[0] < 1 or u[0] > stub['argc'] for u in up) or len(t['args']) != stub['argc']:
        return False
    base = len(f['locals'])
    nb = len(f['blocks'])
    f['locals'].extend(copy.deepcopy(body['locals']))
    line = t.get('l', 0)
    # one fresh local per upvar, assigned from the caller's argument
    upl = []
    for i, u in enumerate(up):
        f['locals'].append(copy.deepcopy(stub['locals'][u[0]]))
        l = len(f['locals']) - 1
        upl.append(l)
        a = t['args'][u[0] - 1]
        B['s'].append({'k': 'a', 'd': [l, []], 'r': {'k': 'use', 'o': a}, 'l': line})
        src = a.get('m', a.get('c')) if isinstance(a, dict) else None
        if src is not None and not src[1] and f['locals'][l].get('h') == 'param':
            pname = f['locals'][l].get('s')
            conc = copy.deepcopy(f['locals'][src[0]])
            f['locals'][l] = conc
            # the same generic parameter on the callee's own temporaries (`move _x` handed on to a runner)
            for kk in range(base, base + len(body['locals'])):
                if f['locals'][kk].get('h') == 'param' and f['locals'][kk].get('s') == pname:
                    f['locals'][kk] = copy.deepcopy(conc)

    # an upvar that is a fresh reference to a place of the caller (`&mut counter`): `*(upvar)` is that place
    up_deref = {}
    for i, u in enumerate(up):
        a = t['args'][u[0] - 1]
        src = a.get('m', a.get('c')) if isinstance(a, dict) else None
        if src is not None and not src[1]:
            pl = _ref_target(f, src[0])
            if pl is not None:
                up_deref[i] = pl

    # body locals that are nothing but a copy of such an upvar (`let counter = <upvar>` at the top of the async body)
    alias = {}
    if up_deref:
        ndefs = {}
        for gb in body['blocks']:
            for st in gb['s']:
                if st['k'] == 'a' and not st['d'][1]:
                    ndefs[st['d'][0]] = ndefs.get(st['d'][0], 0) + 1
            if gb['t']['k'] == 'call' and gb['t'].get('d') and not gb['t']['d'][1]:
                ndefs[gb['t']['d'][0]] = ndefs.get(gb['t']['d'][0], 0) + 1
        for gb in body['blocks']:
            for st in gb['s']:
                if st['k'] == 'a' and not st['d'][1] and st['r']['k'] == 'use' and ndefs.get(st['d'][0]) == 1:
                    pl0 = st['r']['o'].get('m') or st['r']['o'].get('c') if isinstance(st['r']['o'], dict) else None
                    if pl0 and pl0[0] == 1:
                        pr0 = [e for e in pl0[1] if e != '*']
                        if len(pr0) == 1 and isinstance(pr0[0], dict) and 'f' in pr0[0] and pr0[0]['f'] in up_deref:
                            alias[st['d'][0]] = pr0[0]['f']

    def mp(p):
        l, proj = p
        proj2 = [({'i': e['i'] + base} if isinstance(e, dict) and 'i' in e else e) for e in proj]
        if l in alias and proj2 and proj2[0] == '*':
            x, projx = up_deref[alias[l]]
            return [x, list(projx) + proj2[1:]]
        if l == 1:
            pr = list(proj2)
            while pr and pr[0] == '*':
                pr = pr[1:]
            if pr and isinstance(pr[0], dict) and 'f' in pr[0] and pr[0]['f'] < len(upl):
                if pr[0]['f'] in up_deref and len(pr) > 1 and pr[1] == '*':
                    x, projx = up_deref[pr[0]['f']]
                    return [x, list(projx) + pr[2:]]
                return [upl[pr[0]['f']], pr[1:]]
            raise ValueError('coroutine state used as a whole')
        return [l + base, proj2]

    def mo(o):
        if isinstance(o, dict) and 'c' in o:
            return {'c': mp(o['c'])}
        if isinstance(o, dict) and 'm' in o:
            return {'m': mp(o['m'])}
        return o

    def mr(r):
        r = dict(r)
        for k in ('o', 'a', 'b'):
            if isinstance(r.get(k), dict):
                r[k] = mo(r[k])
        if 'ops' in r:
            r['ops'] = [mo(o) for o in r['ops']]
        if 'p' in r and isinstance(r['p'], list):
            r['p'] = mp(r['p'])
        return r

    def blk(x):
        return x + nb if isinstance(x, int) and not isinstance(x, bool) else x
    new_blocks = []
    try:
        for gb in body['blocks']:
            ss = []
            for st in gb['s']:
                st2 = dict(st)
                if st['k'] in ('sl', 'sd'):
                    st2['v'] = st['v'] + base
                elif st['k'] == 'a':
                    st2['d'] = mp(st['d'])
                    st2['r'] = mr(st['r'])
                elif st['k'] == 'setdiscr':
                    st2['d'] = mp(st['d'])
                ss.append(st2)
            tt = copy.deepcopy(gb['t'])
            k = tt['k']
            if k == 'goto':
                tt['t'] = blk(tt['t'])
                if 'false_edge' in tt:
                    tt['false_edge'] = blk(tt['false_edge'])
            elif k == 'switch':
                tt['o'] = mo(tt['o'])
                tt['vals'] = [[v, blk(x)] for v, x in tt['vals']]
                tt['otherwise'] = blk(tt['otherwise'])
            elif k == 'drop':
                if tt['p'] == [1, []]:
                    # the drop of the coroutine's own state at its end: nothing of the caller is dropped there
                    tt = {'k': 'goto', 't': blk(tt['t']), 'l': tt.get('l', 0)}
                    k = 'goto'
                else:
                    tt['p'] = mp(tt['p'])
                    tt['t'] = blk(tt['t'])
                    tt['u'] = blk(tt.get('u'))
                    tt['cd'] = blk(tt.get('cd'))
            elif k == 'call':
                if 'indirect' in tt['f']:
                    tt['f'] = {'indirect': mo(tt['f']['indirect'])}
                tt['args'] = [mo(a) for a in tt['args']]
                tt['d'] = mp(tt['d'])
                tt['t'] = blk(tt['t'])
                tt['u'] = blk(tt.get('u'))
            elif k == 'assert':
                tt['o'] = mo(tt['o'])
                tt['t'] = blk(tt['t'])
                tt['u'] = blk(tt.get('u'))
            elif k == 'yield':
                tt['o'] = mo(tt['o'])
                tt['resume'] = blk(tt['resume'])
                tt['ra'] = mp(tt['ra'])
                tt['drop'] = blk(tt.get('drop'))
            nbk = {'c': gb['c'], 's': ss, 't': tt, 'inl': stub['id']}
            if k == 'return' and not gb['c']:
                # the awaited value: `poll = Poll::Ready(result)`, then the caller's Ready arm
                nbk['s'].append({'k': 'a', 'd': [poll_local, []], 'r': {'k': 'agg', 'ak': 'adt', 'adt': 'std::task::Poll', 'variant': 'Ready', 'vd': 0,
                                                                         'fields': ['0'], 'ops': [{'m': [base, []]}]}, 'l': line})
                nbk['t'] = {'k': 'goto', 't': ready, 'l': line}
            new_blocks.append(nbk)
    except (ValueError, KeyError, IndexError, TypeError):
        del f['locals'][base:]
        del B['s'][len(B['s']) - len(upl):]
        return False
    # the poll loop of the replaced await is dead now: make it invisible (its blocks still define locals the rules would follow)
    dead, work = set(), [t['t']]
    while work:
        x = work.pop()
        if x is None or x in dead or x == ready or x >= nb:
            continue
        dead.add(x)
        bx = f['blocks'][x]
        work.extend(_succ(bx))
        if bx['t']['k'] == 'yield':
            work.append(bx['t'].get('resume'))
    for x in dead:
        f['blocks'][x] = {'c': True, 's': [], 't': {'k': 'unreachable'}, 'dead_await': True}
    f['blocks'].extend(new_blocks)
    B['t'] = {'k': 'goto', 't': nb, 'l': line}
    f.setdefault('inlined', []).append(stub['id'])
    return True


def _mentions(j, fid):
    """is `fid` referred to as a value (fn item passed as an argument) anywhere?"""
    needle = json.dumps(fid)
    for f in j['fns']:
        for b in f['blocks']:
            for s in b['s']:
                if s['k'] == 'a' and needle in json.dumps(s['r']):
                    return True
            t = b['t']
            if t['k'] == 'call' and needle in json.dumps(t['args']):
                return True
    return False


def _async_ok(stub, body):
    """experiment switch: PEARL_INLINE_ASYNC=small restricts async inlining to small bodies; =off disables it"""
    import os
    mode = os.environ.get('PEARL_INLINE_ASYNC', 'all')
    if mode == 'off':
        return False
    if mode == 'small':
        live = [b for b in body['blocks'] if not b['c']]
        return len(live) <= 60
    return True


def _reparent(j, gid, new_parent, old_root=None):
    """closures / coroutines nested in an inlined function become children of the (single) caller"""
    np = next((f for f in j['fns'] if f['id'] == new_parent), None)
    if np is None:
        return
    for f in j['fns']:
        if f.get('parent') == gid:
            f['parent'] = new_parent
        if f.get('root') in (gid, old_root) and f['id'] not in (gid, old_root):
            f['root'] = np.get('root', np['id'])


def inline_new_thin(j, known):
    """returns the list of (function id, number of inlined call sites, dropped?)"""
    report = {}
    callers = {}
    for _round in range(5):
        fns = {f['id']: f for f in j['fns']}
        parents = {f.get('parent') for f in j['fns'] if f.get('parent')}
        # call-site counts: a new function used all over the place is not a wrapper of one code path
        sites = {}
        for f in j['fns']:
            for b in f['blocks']:
                if not b['c'] and b['t']['k'] == 'call':
                    cid = _callee_id(b['t'])
                    if cid:
                        sites[cid] = sites.get(cid, 0) + 1
        thin = {}
        new_async = {}
        for g in j['fns']:
            if g['id'] in known or sites.get(g['id'], 0) == 0:
                continue
            bodyg = fns.get(g['id'] + '::{closure#0}') if g.get('async') else g
            small = bodyg is not None and len([b for b in bodyg['blocks'] if not b['c']]) <= (40 if g.get('async') else 14)
            if sites.get(g['id'], 0) > MAX_SITES and not small:
                continue      # a thin wrapper may be used everywhere; a big new function called from many places is left alone
            if _is_thin_sync(g, known, parents):
                thin[g['id']] = copy.deepcopy(g)
            elif g.get('async'):
                body = fns.get(g['id'] + '::{closure#0}')
                if body is not None and _is_new_async(g, body, known) and _async_ok(g, body):
                    new_async[g['id']] = (copy.deepcopy(g), copy.deepcopy(body))
        if not thin and not new_async:
            break
        changed = False
        for f in j['fns']:
            nb0 = len(f['blocks'])
            for bi in range(nb0):
                b = f['blocks'][bi]
                if b['c'] or b['t']['k'] != 'call':
                    continue
                cid = _callee_id(b['t'])
                if cid is None or cid == f['id'] or f['id'].startswith(cid + '::'):
                    continue
                if cid in thin:
                    if _inline_sync(f, bi, thin[cid]):
                        report[cid] = report.get(cid, 0) + 1
                        callers.setdefault(cid, set()).add(f['id'])
                        changed = True
                elif cid in new_async:
                    stub, body = new_async[cid]
                    if _inline_async_body(f, bi, stub, body):
                        report[cid] = report.get(cid, 0) + 1
                        callers.setdefault(cid + '::{closure#0}', set()).add(f['id'])
                        callers.setdefault(cid, set()).add(f['id'])
                        changed = True
        if not changed:
            break
    # drop stand-alone bodies nobody refers to any more
    dropped = []
    if report:
        called = set()
        for f in j['fns']:
            for b in f['blocks']:
                if not b['c'] and b['t']['k'] == 'call':
                    cid = _callee_id(b['t'])
                    if cid:
                        called.add(cid)
        for fid in list(report):
            g = next((f for f in j['fns'] if f['id'] == fid), None)
            if g is None or fid in called or g.get('pub') or _mentions(j, fid):
                continue
            body_id = fid + '::{closure#0}' if g.get('async') else fid
            who = callers.get(body_id) or callers.get(fid) or set()
            if len(who) == 1:
                _reparent(j, body_id, next(iter(who)), fid)
                drop = {fid, body_id}
            else:
                # nested closures keep their (now absent) parent only if there are none
                if any(f.get('parent') == body_id or (f.get('root') == fid and f['id'] not in (fid, body_id)) for f in j['fns']):
                    continue
                drop = {fid, body_id}
            j['fns'] = [f for f in j['fns'] if f['id'] not in drop]
            dropped.append(fid)
    return [(fid, n, fid in dropped) for fid, n in sorted(report.items())]
