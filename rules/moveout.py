"""X3: what is taken out of shared state is put back (C11: before every err-exit; C14: before every suspension point)."""
import core
import prims
from core import op_local, op_place

# shared-state fields whose content must not be lost
SHARED_FIELDS = {
    'active_blob': 'storage::core::Safe',
    'headers': 'blob::index::core::InMemoryData',
}
TAKERS = ('take', 'replace', 'pop', 'remove', 'swap_remove', 'drain')


def moveouts(prog):
    """(fn, Call, what) for every call that moves a value out of shared state:
    Option::take / mem::take / mem::replace whose receiver path ends in a shared field, and pop() on the closed list."""
    out = []
    for f in prog.fns.values():
        for c in f.calls:
            if c.bb not in f.reachable():
                continue
            what = None
            if c.name in ('take', 'replace') and (c.path.startswith('std::option::Option') or c.path in ('std::mem::take', 'std::mem::replace')):
                fld = prims.field_of_receiver(f, c)
                for n in fld[::-1]:
                    if n in SHARED_FIELDS:
                        what = n
                        break
                if what is None and c.path in ('std::mem::take', 'std::mem::replace'):
                    # mem::take(&mut *guard) on a guard of a shared structure
                    ty = f.locals[op_local(c.args[0])]['s'] if c.args and op_local(c.args[0]) is not None else ''
                    if 'InMemoryData' in ty:
                        what = 'headers'
                    elif 'index::core::State<' in ty:
                        # mem::replace(&mut self.inner, <placeholder>): the published index state itself is moved out
                        what = 'index-state'
            elif c.name == 'pop' and 'HierarchicalFilters' in c.path:
                what = 'closed-list'
            if what:
                out.append((f, c, what))
    return out


def is_sink(prog, f, c, carry):
    """the call/statement hands the moved-out value back to shared state"""
    if any(op_local(a) in carry for a in c.args):
        tg = prog.resolve(c)
        if any(t.endswith('HierarchicalFilters::<Key, Filter, Child>::push') for t in tg):
            return True
        if any(t.endswith('Safe::<K>::replace_active_blob') for t in tg):
            return True
        if c.name in ('replace', 'insert', 'get_or_insert') and c.path.startswith('std::option::Option') and prims.receiver_field(f, c) in SHARED_FIELDS:
            return True
    return False


def sink_blocks(prog, f, carry):
    """blocks whose terminator (call) or statements store the carried value back"""
    sinks = set()
    for c in f.calls:
        if is_sink(prog, f, c, carry):
            sinks.add(c.bb)
    for i, b in enumerate(f.blocks):
        if b['c']:
            continue
        for s in b['s']:
            if s['k'] != 'a':
                continue
            d = s['d']
            names = core.place_fields(d)
            if names and names[-1] in SHARED_FIELDS and any(p[0] in carry for p in core.rvalue_places(s['r'])):
                sinks.add(i)
            if names and names[-1] == 'inner' and 'index::core::State<' in core.place_type_str(f, d) and any(p[0] in carry for p in core.rvalue_places(s['r'])):
                sinks.add(i)
            # `*guard = value`: store through a (guard-derived) &mut to the shared structure itself
            if not names and d[1] and all(e == '*' for e in d[1]) and any(p[0] in carry for p in core.rvalue_places(s['r'])):
                ty = f.locals[d[0]]['s']
                if any(adt.split('::')[-1] in ty for adt in SHARED_FIELDS.values()):
                    sinks.add(i)
            # `self.inner = State::OnDisk(findex)` style replacement of the emptied structure also ends the exposure
    return sinks


def state_replacements(f):
    """blocks that overwrite the index state (`self.inner = State::..`): the emptied map is no longer the published state"""
    out = set()
    for i, b in enumerate(f.blocks):
        if b['c']:
            continue
        for s in b['s']:
            if s['k'] == 'a':
                names = core.place_fields(s['d'])
                if names and names[-1] == 'inner' and s['r']['k'] == 'agg' and s['r'].get('adt', '').endswith('::State'):
                    out.add(i)
    return out


def analyse(prog, f, c, what):
    """returns dict(err=[(exit bb, path)], cancel=[(yield bb, path)]) for exposures after the move-out c"""
    start = c.t['t']
    carry = core.flows_forward(f, c.dest[0], transparent=core.fwd_transparent)
    sinks = sink_blocks(prog, f, carry)
    if what in ('headers', 'index-state'):
        sinks |= state_replacements(f)
    res = {'err': [], 'cancel': [], 'dropped': [], 'sink_suspends': [], 'sinks': sorted(sinks)}
    if start is None:
        return res
    # payload emptiness: `if let Some(x) = taken` -- the None edge carries nothing; skip paths through the None edge
    none_edges = set()
    for i in f.reachable():
        t = f.blocks[i]['t']
        if t['k'] == 'switch':
            l = op_local(t['o'])
            for (bb, si, kind, r) in f.defs().get(l, []):
                if kind == 'assign' and r['k'] == 'discr' and r['p'][0] in carry and not [e for e in r['p'][1] if e != '*']:
                    ty = f.locals[r['p'][0]]
                    if ty.get('h') == 'std::option::Option':
                        hit = False
                        for v, tg in t['vals']:
                            if v == 0:
                                none_edges.add(tg)
                                hit = True
                        if not hit and all(v == 1 for v, _ in t['vals']):
                            none_edges.add(t['otherwise'])
    # a sink call that is awaited: the value is handed over at the START call
    reach = f.reach_from([start], avoid_exit=sinks, avoid_enter=none_edges)
    for (bb, kind, _) in core.exit_defs(f):
        if kind == 'err' and bb in reach:
            # the err exit def is at the block after from_residual; make sure it is reached without passing a sink
            res['err'].append((bb, f.path([start], [bb], avoid_exit=sinks, avoid_enter=none_edges)))
    for (bb, kind, payload) in core.exit_defs(f):
        if kind != 'err' and bb in reach:
            # the value itself returned to the caller is a hand-over, not a loss
            if 0 in carry:
                continue
            res['dropped'].append((bb, f.path([start], [bb], avoid_exit=sinks, avoid_enter=none_edges)))
    # a sink that is an awaited call takes ownership at its START; if the callee can really suspend, the hand-back is not atomic
    for c in f.calls:
        if c.bb in sinks and c.bb in f.reach_from([start]) :
            a = f.await_of_start(c.bb)
            if a is not None and core.await_may_suspend(prog, a):
                res['sink_suspends'].append(c)
    for y in sorted(core.real_yields(prog, f)):
        if y in reach and y not in sinks:
            # yields of the sink's own await come after the hand-over (START is the sink block) - excluded by avoid_exit
            res['cancel'].append((y, f.path([start], [y], avoid_exit=sinks, avoid_enter=none_edges)))
    return res


def _consumes_storage(prog, root, depth):
    """root takes `self` by value, or is a private helper all of whose callers do"""
    if root.argc >= 1 and not root.locals[1]['s'].startswith('&') and 'Storage<' in root.locals[1]['s']:
        return True
    if depth <= 0 or root.is_pub:
        return False
    cs = [c for c in core.call_sites_of(prog, root.id) if c.name != 'poll']
    if not cs:
        return False
    return all(_consumes_storage(prog, prog.fns[prog.fns[c.fn.id].root], depth - 1) for c in cs)


def dropped_rule(ctx, rid):
    """a blob moved out of the active slot / the closed list is never silently dropped: every non-error exit reachable from the
    move-out passes a hand-back (or returns the value); `if let Some(..)` None edges carry nothing.  Functions that consume the
    storage (`self` by value) are exempt: nothing can observe the slot afterwards."""
    prog = ctx.prog
    n = 0
    for (f, c, what) in moveouts(prog):
        if what not in ('active_blob', 'closed-list'):
            continue
        n += 1
        root = prog.fns[prog.fns[f.id].root]
        key = 'moved-out-blob-kept|%s|%s' % (what, root.id)
        if _consumes_storage(prog, root, 3):
            ctx.ok(rid, key, c.where(), 'the function (or every caller of this helper) consumes `self`: the storage ceases to exist', nontrivial=False)
            continue
        r = analyse(prog, f, c, what)
        if r['dropped']:
            bb, path = r['dropped'][0]
            ctx.bad(rid, key, f.where(bb), 'after `%s` moved the blob out of the %s a normal return is reachable on which it is neither put back nor pushed to the closed list: the blob object is dropped, its records are no longer served or counted for the rest of the session' % (c.name, what),
                    witness=['bb%d %s' % (b, f.where(b)) for b in (path or [])])
        else:
            ctx.ok(rid, key, c.where(), 'every non-error exit passes a hand-back (sinks: %s)' % r['sinks'])
    if n < 4:
        raise core.AnchorLost('blob move-out sites: %d' % n)
