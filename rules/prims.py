"""Primitive tables (DESIGN appendix B) and structural classification of in-crate file wrappers."""
import re
import core
from core import op_local, op_place, op_const

RAW_SYNC = ('std::fs::File::sync_all', 'std::fs::File::sync_data', 'tokio::fs::File::sync_all', 'tokio::fs::File::sync_data')
RAW_WRITE_AT = ('std::os::unix::fs::FileExt::write_all_at', 'std::os::unix::fs::FileExt::write_at')
RAW_STREAM_WRITE = ('std::io::Write::write_all', 'std::io::Write::write', 'std::io::Write::write_fmt', 'std::io::Write::write_vectored',
                    'tokio::io::AsyncWriteExt::write_all', 'tokio::io::AsyncWriteExt::write')
RAW_SET_LEN = ('std::fs::File::set_len', 'tokio::fs::File::set_len')
RAW_CREATE_TRUNC = ('std::fs::File::create', 'tokio::fs::File::create', 'std::fs::File::create_new', 'std::fs::write', 'tokio::fs::write',
                    'std::fs::copy', 'tokio::fs::copy')
RAW_TRUNCATE_OPT = ('std::fs::OpenOptions::truncate', 'tokio::fs::OpenOptions::truncate')
RAW_REMOVE = ('std::fs::remove_file', 'tokio::fs::remove_file', 'std::fs::remove_dir', 'tokio::fs::remove_dir',
              'std::fs::remove_dir_all', 'tokio::fs::remove_dir_all')
RAW_RENAME = ('std::fs::rename', 'tokio::fs::rename', 'std::fs::hard_link', 'tokio::fs::hard_link')
RAW_READ_AT = ('std::os::unix::fs::FileExt::read_exact_at', 'std::os::unix::fs::FileExt::read_at')

RAW_MUTATORS = RAW_WRITE_AT + RAW_STREAM_WRITE + RAW_SET_LEN + RAW_CREATE_TRUNC + RAW_TRUNCATE_OPT + RAW_REMOVE + RAW_RENAME

PANICS = ('core::panicking::panic', 'core::panicking::panic_fmt', 'core::panicking::panic_display', 'core::panicking::unreachable_display',
          'std::rt::begin_panic', 'core::panicking::assert_failed', 'core::panicking::panic_explicit', 'std::rt::panic_fmt',
          'core::panicking::panic_nounwind', 'std::process::abort', 'std::process::exit', 'std::panic::resume_unwind',
          'std::panicking::resume_unwind', 'std::panic::panic_any', 'std::panicking::begin_panic')


def base(path):
    """strip a trailing ::{closure#n} chain (poll of an external async fn resolves to its coroutine)"""
    return re.sub(r'(::\{closure#\d+\})+$', '', path)


def is_raw(c, table):
    t = c.target
    return t in table or base(t) in table or c.path in table


def is_raw_sync(c):
    return is_raw(c, RAW_SYNC)


def is_stream_write_to_file(c):
    """std::io::Write on a std::fs::File (not on a BytesMut writer / Vec)"""
    if not is_raw(c, RAW_STREAM_WRITE):
        return False
    st = (c.self_ty or {}).get('s', '')
    return 'fs::File' in st or 'BufWriter<std::fs::File' in st


def field_of_receiver(fn, c, argi=0, depth=6):
    """field names on the access path of the receiver argument: e.g. ['inner','size'] for file_inner.size.fetch_add"""
    l = op_local(c.args[argi]) if c.args else None
    names = []
    hops = 0
    while l is not None and hops < depth:
        hops += 1
        ds = [x for x in fn.defs().get(l, []) if x[2] in ('assign', 'call')]
        if len(ds) != 1:
            break
        bb, si, kind, payload = ds[0]
        if kind == 'call':
            cc = payload
            if cc.name in ('deref', 'deref_mut', 'as_ref', 'borrow', 'clone') and cc.args:
                l = op_local(cc.args[0])
                continue
            break
        r = payload
        if r['k'] in ('ref', 'rawptr'):
            names = core.place_fields(r['p']) + names
            l = r['p'][0]
        elif r['k'] == 'use':
            p = op_place(r['o'])
            if p is None:
                break
            names = core.place_fields(p) + names
            l = p[0]
        else:
            break
    return names


def receiver_field(fn, c, argi=0):
    """last named field on the receiver's access path (None if the receiver is not a field)"""
    n = field_of_receiver(fn, c, argi)
    return n[-1] if n else None


def receiver_root_type(fn, c, argi=0, depth=8):
    """type of the base local the receiver path starts from (through refs/derefs)"""
    l = op_local(c.args[argi]) if c.args else None
    hops = 0
    while l is not None and hops < depth:
        hops += 1
        ds = [x for x in fn.defs().get(l, []) if x[2] in ('assign', 'call')]
        if len(ds) != 1:
            return fn.locals[l]
        bb, si, kind, payload = ds[0]
        if kind == 'call':
            cc = payload
            if cc.name in ('deref', 'deref_mut', 'as_ref', 'borrow') and cc.args:
                l = op_local(cc.args[0])
                continue
            return fn.locals[l]
        r = payload
        if r['k'] in ('ref', 'rawptr'):
            l = r['p'][0]
        elif r['k'] == 'use' and op_place(r['o']) is not None:
            l = op_place(r['o'])[0]
        else:
            return fn.locals[l]
    return fn.locals[l] if l is not None else None


_RESV = {}


def is_reservation(prog, f, c, depth=2):
    """`c` (a call in body `f`) reserves space at the end of a blob file: `FileInner.size.fetch_add`, or a call of a small in-crate
    non-async helper whose return value is such a reservation (`fn reserve(&self, len) -> u64 { self.size.fetch_add(len, ..) }`)"""
    if c.name == 'fetch_add' and c.path.startswith('std::sync::atomic::Atomic'):
        return receiver_field(f, c) == 'size'
    if depth <= 0:
        return False
    tg = [t for t in prog.resolve(c) if t in prog.fns]
    if not tg:
        return False
    _RESV = prog.__dict__.setdefault('_resv_memo', {})      # per program (the thorough tier evaluates many programs in one process)
    for t in tg:
        k = (t, depth)
        if k not in _RESV:
            _RESV[k] = False
            g = prog.body_of(t)
            if g is not None and not g.is_coroutine and g.file.startswith('src/io/'):
                ogs = core.origins(g, 0)
                _RESV[k] = bool(ogs) and any(o.kind == 'call' and is_reservation(prog, g, o.data, depth - 1) for o in ogs) and \
                    all(o.kind in ('binop', 'const') or (o.kind == 'call' and is_reservation(prog, g, o.data, depth - 1)) for o in ogs)
        if not _RESV[k]:
            return False
    return True


class FileWrappers:
    """Classifies in-crate functions that reach a raw positional write:
    'append'  : every origin of every offset handed to the OS is FileInner.size.fetch_add (+ arithmetic on it)
    'positional': some origin is a parameter of the wrapper (caller chooses the offset)."""

    def __init__(self, prog):
        self.prog = prog
        self.sites = []      # (Call raw write, kind, origins)
        self.kind = {}       # top-level fn id -> 'append' | 'positional'
        for f in prog.fns.values():
            for c in f.calls:
                if is_raw(c, RAW_WRITE_AT):
                    self._classify(f, c)

    def _classify(self, f, c):
        prog = self.prog
        ogs = core.origins_ip(prog, f, c.args[2], depth=0)
        # depth=0: stop at parameters of named functions -> tells us which function's parameter chooses the offset
        kind = 'append'
        owner = None
        for og in ogs:
            if og.kind == 'call' and is_reservation(prog, og.fn, og.data):
                continue
            if og.kind == 'binop':
                continue
            if og.kind == 'arg':
                # a parameter of a named function: positional from that function's point of view, unless that function
                # is private plumbing all of whose callers pass fetch_add results
                full = core.origins_ip(prog, og.fn, og.data, depth=3)
                if all(o.kind == 'call' and is_reservation(prog, o.fn, o.data) or o.kind == 'binop' for o in full) and full:
                    continue
                kind = 'positional'
                owner = og.fn.id
                continue
            kind = 'other'
        top = prog.fns[f.id].root
        self.sites.append((c, kind, ogs, owner))
        prev = self.kind.get(top)
        if prev is None or kind != 'append':
            self.kind[top] = kind

    def append_wrappers(self):
        """root fns of the io layer that reach a raw positional write and whose OS offsets all come from the size reservation
        (includes wrappers that only reach the raw write through another append wrapper, e.g. write_append_writable_data)"""
        prog = self.prog
        base = set(k for k, v in self.kind.items() if v == 'append')
        pos = set(k for k, v in self.kind.items() if v != 'append')
        L, E = prog.may_reach()
        out = set(base)
        for f in prog.fns.values():
            if f.root != f.id or not f.file.startswith('src/io/'):
                continue
            reach = L.get(f.id, ())
            if any(x in base or prog.fns[x].root in base for x in reach) and not any(prog.fns[x].root in pos for x in reach) and f.id not in pos:
                out.add(f.id)
        return sorted(out)

    def positional_wrappers(self):
        return sorted(k for k, v in self.kind.items() if v != 'append')


def public_wrappers_of(prog, roots):
    """in-crate functions that are the entry points used by other modules for the given root wrappers:
    here simply the roots plus functions that do nothing but forward to them (FileTrait impl)."""
    return set(roots)


def header_insert_sites(prog, f):
    """calls in `f` that insert a record header into the in-memory index: Vec / BTreeMap `insert`, or a call of a helper of the
    same file that does (`insert_ordered_by_timestamp(v, h)`); [(call, kind)] with kind 'vec' | 'map'"""
    def kind_of(c):
        if c.name != 'insert':
            return None
        if c.path.startswith('std::vec::Vec'):
            return 'vec'
        if c.path.startswith('std::collections::BTreeMap') or c.path.startswith('std::collections::btree') or 'BTreeMap' in c.path:
            return 'map'
        return None
    out = []
    for c in f.calls:
        if c.bb not in f.reachable():
            continue
        k = kind_of(c)
        if k:
            out.append((c, k))
            continue
        for t in prog.resolve(c):
            g = prog.fns.get(t)
            if g is not None and g.file == f.file and g.id != f.id and not g.is_coroutine and g.id == prog.fns[g.id].root:
                ks = [kind_of(x) for x in g.calls if x.bb in g.reachable() and 'Header' in x.full]
                ks = [x for x in ks if x]
                if ks:
                    out.append((c, ks[0]))
                    break
    return out


def index_push_sites(prog, f):
    """calls in `f` that insert a header into a blob's index: IndexTrait::push itself, or a (sync) helper of the same file whose
    every ok path passes such a push (`index_written_header(&index, &file, key, header)`)"""
    import core
    def direct(p):
        return p.name == 'push' and any('IndexTrait' in t or 'IndexStruct' in t for t in prog.resolve(p))
    S = core.Summ(prog, direct)
    out = []
    for p in f.calls:
        if p.bb not in f.reachable():
            continue
        if direct(p):
            out.append(p)
            continue
        for t in prog.resolve(p):
            g = prog.fns.get(t)
            if g is not None and g.file == f.file and not g.is_coroutine and g.id != f.id and g.id == prog.fns[g.id].root \
               and any(direct(x) for x in g.calls) and S.must(t):
                out.append(p)
                break
    return out
