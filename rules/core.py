"""Shared analyses over the pearl-facts JSON (E2 in DESIGN.md).

A1 CFG normalisation, A2 dominators/path queries, A3 await linking, A4 call graph,
A5 summaries, A6 held-resource dataflow, A7 provenance.  Nothing here is specific
to one property; rule modules under rules/props use these primitives.
"""
import json
import os
import re
import sys
from collections import defaultdict, deque

sys.setrecursionlimit(10000)


# --------------------------------------------------------------------------
# small helpers on the JSON encodings
# --------------------------------------------------------------------------

def op_place(o):
    """operand -> place [local, projs] or None for constants"""
    if o is None:
        return None
    if 'c' in o:
        return o['c']
    if 'm' in o:
        return o['m']
    return None


def op_local(o):
    p = op_place(o)
    return p[0] if p is not None else None


def op_const(o):
    return o.get('k') if o is not None else None


def place_fields(p):
    """names of field projections in order (derefs and downcasts skipped)"""
    out = []
    for e in p[1]:
        if isinstance(e, dict) and 'f' in e:
            out.append(e['n'] if e['n'] else str(e['f']))
    return out


def place_fields_deep(fn, p, hops=4):
    """field names of place p; when p is `(*_l)` with _l a single-definition reference `&place2`, the names of place2"""
    names = place_fields(p)
    while not names and hops > 0 and p[1] and all(e == '*' for e in p[1]):
        hops -= 1
        ds = [x for x in fn.defs().get(p[0], []) if x[2] == 'assign']
        if len(ds) != 1 or ds[0][3]['k'] not in ('ref', 'use'):
            break
        r = ds[0][3]
        p2 = r['p'] if r['k'] == 'ref' else op_place(r['o'])
        if p2 is None:
            break
        p = p2
        names = place_fields(p)
    return names


def field_leaf_names(fn, operand, hops=8):
    """names of the last named field of every place the scalar `operand` is (transitively) copied from; None for a leaf that is
    not a field read (call result, arithmetic, constant, parameter)"""
    out = set()
    seen = set()
    work = [(operand, hops)]
    while work:
        o, h = work.pop()
        p = op_place(o) if isinstance(o, dict) else [o, []]
        if p is None:
            out.add(None)
            continue
        names = [n for n in place_fields(p) if not n.isdigit()]
        if names:
            out.add(names[-1])
            continue
        if p[0] in seen or h <= 0:
            continue
        seen.add(p[0])
        ds = [x for x in fn.defs().get(p[0], []) if x[2] in ('assign', 'call', 'arg', 'partial')]
        if not ds:
            out.add(None)
        for (bb, si, kind, payload) in ds:
            if kind == 'assign' and payload['k'] == 'use':
                work.append((payload['o'], h - 1))
            elif kind == 'assign' and payload['k'] == 'ref' :
                names = [n for n in place_fields(payload['p']) if not n.isdigit()]
                if names:
                    out.add(names[-1])
                else:
                    work.append(({'c': payload['p']}, h - 1))
            else:
                out.add(None)
    return out


def place_str(p):
    s = '_%d' % p[0]
    for e in p[1]:
        if e == '*':
            s = '(*%s)' % s
        elif isinstance(e, dict) and 'f' in e:
            s += '.' + (e['n'] or str(e['f']))
        elif isinstance(e, dict) and 'v' in e:
            s += ' as ' + e['n']
        elif isinstance(e, dict) and 'i' in e:
            s += '[_%d]' % e['i']
        else:
            s += '[..]'
    return s


class Call:
    """A call terminator."""
    __slots__ = ('fn', 'bb', 't', 'f')

    def __init__(self, fn, bb, t):
        self.fn = fn
        self.bb = bb
        self.t = t
        self.f = t['f']

    @property
    def path(self):
        """generic (declared) path of the callee"""
        return self.f.get('path', '<indirect>')

    @property
    def target(self):
        """best resolved path"""
        return self.f.get('res') or self.f.get('path', '<indirect>')

    @property
    def full(self):
        return self.f.get('res_full') or self.f.get('full', '<indirect>')

    @property
    def decl_full(self):
        return self.f.get('full', '<indirect>')

    @property
    def name(self):
        return self.f.get('name', '')

    @property
    def crate(self):
        return self.f.get('res_crate') or self.f.get('crate', '')

    @property
    def decl_crate(self):
        return self.f.get('crate', '')

    @property
    def trait(self):
        return self.f.get('trait')

    @property
    def self_ty(self):
        return self.f.get('self_ty')

    @property
    def args(self):
        return self.t['args']

    @property
    def dest(self):
        return self.t['d']

    @property
    def line(self):
        return self.t.get('l', 0)

    @property
    def diverges(self):
        return self.t['t'] is None

    @property
    def from_expansion(self):
        return self.t.get('exp', False)

    def where(self):
        return '%s:%d' % (self.fn.src_file, self.line)

    def __repr__(self):
        return '<call %s in %s bb%d @%s>' % (self.full, self.fn.id, self.bb, self.where())


class Fn:
    def __init__(self, j, prog):
        self.j = j
        self.prog = prog
        self.id = j['id']
        self.kind = j['kind']
        self.file = j['file']
        self.src_file = j.get('file_actual', j['file'])     # differs when a pinned function moved to another file
        self.line = j['line']
        self.end_line = j.get('end_line', j['line'])
        self.argc = j['argc']
        self.locals = j['locals']
        self.debug = j['debug']
        self.blocks = j['blocks']
        self.is_coroutine = j.get('coroutine', False)
        self.is_async = j.get('async', False)
        self.is_pub = j.get('pub', False)
        self.vis = j.get('vis', '')
        self.impl_self = j.get('impl_self')
        self.impl_trait = j.get('impl_trait')
        self.trait_item = j.get('trait_item')
        self.in_trait = j.get('in_trait')
        self.root = j.get('root', self.id)
        self.parent = j.get('parent')
        self.name = j.get('name', '')
        self.bounds = j.get('bounds', [])
        # Edge splitting: every edge of a switchInt gets its own pass-through block, so that "the block entered on the
        # true / None / Ok edge" identifies that *edge* even when the original target is a join block (an `if` without else).
        if not j.get('_split'):
            nb = len(self.blocks)
            for i in range(nb):
                b = self.blocks[i]
                if b['c']:
                    continue
                t = b['t']
                if t['k'] != 'switch':
                    continue
                def split(tgt):
                    if self.blocks[tgt]['t']['k'] == 'unreachable' or self.blocks[tgt]['c']:
                        return tgt
                    self.blocks.append({'c': False, 's': [], 't': {'k': 'goto', 't': tgt, 'l': t.get('l', 0)}, 'edge_of': i})
                    return len(self.blocks) - 1
                t['vals'] = [[v, split(tg)] for v, tg in t['vals']]
                t['otherwise'] = split(t['otherwise'])
            j['_split'] = True
        n = len(self.blocks)
        self.n = n
        self.cleanup = [b['c'] for b in self.blocks]
        self.succ = [[] for _ in range(n)]
        self.cancel_edges = []   # (yield_bb, drop_target)
        self.calls = []
        self.yields = []
        for i, b in enumerate(self.blocks):
            if b['c']:
                continue
            t = b['t']
            k = t['k']
            s = []
            if k == 'goto':
                s = [t['t']]
            elif k == 'switch':
                s = [x[1] for x in t['vals']] + [t['otherwise']]
            elif k == 'call':
                if t['t'] is not None:
                    s = [t['t']]
                self.calls.append(Call(self, i, t))
            elif k == 'drop':
                s = [t['t']]
            elif k == 'yield':
                s = [t['resume']]
                self.yields.append(i)
                if t['drop'] is not None:
                    self.cancel_edges.append((i, t['drop']))
            elif k == 'assert':
                s = [t['t']]
            # de-duplicate, keep order; edges into empty `unreachable` blocks (exhaustive-match fallbacks) are not real
            seen = set()
            self.succ[i] = [x for x in s if not (x in seen or seen.add(x)) and not self.blocks[x]['c']
                            and not (self.blocks[x]['t']['k'] == 'unreachable')]
        self.pred = [[] for _ in range(n)]
        for i in range(n):
            for x in self.succ[i]:
                self.pred[x].append(i)
        self._reach = None
        self._has_inlined = any(b.get('inl') for b in self.blocks)
        self._dom = None
        self._defs = None
        self._call_at = {c.bb: c for c in self.calls}
        self._awaits = None
        self._uses = None

    # ---- basic queries -------------------------------------------------
    def call_at(self, bb):
        return self._call_at.get(bb)

    def local_ty(self, l):
        return self.locals[l]

    def debug_name(self, l):
        for n, p in self.debug:
            if p[0] == l and not p[1]:
                return n
        return None

    def upvar_name(self, idx):
        for n, p in self.debug:
            if p[0] == 1 and len(p[1]) >= 1 and isinstance(p[1][0], dict) and p[1][0].get('f') == idx:
                return n
        return None

    def reachable(self):
        """blocks reachable from entry along normal edges"""
        if self._reach is None:
            self._reach = self.reach_from([0], _plain=True)
        return self._reach

    def reach_from(self, starts, avoid_exit=(), avoid_enter=(), _plain=False):
        """Set of blocks *entered* starting by entering each of `starts`.
        Blocks in avoid_exit may be entered but their terminator is not passed;
        blocks in avoid_enter are never entered.
        In a body into which new helpers were inlined (rules/inline.py) the search is path-sensitive for constants and enum
        variants (reach_from_cp): a helper that returned `Err(..)` makes the former caller's `?` take its Break edge only - as
        if the `?` still sat in this body.  On a tree without new functions nothing is inlined and this is the plain search."""
        if not _plain and self._has_inlined:
            return reach_from_cp(self, starts, avoid_exit=avoid_exit, avoid_enter=avoid_enter)
        avoid_exit = set(avoid_exit)
        avoid_enter = set(avoid_enter)
        seen = set()
        dq = deque()
        for s in starts:
            if s not in avoid_enter and s not in seen:
                seen.add(s)
                dq.append(s)
        while dq:
            b = dq.popleft()
            if b in avoid_exit:
                continue
            for x in self.succ[b]:
                if x not in seen and x not in avoid_enter:
                    seen.add(x)
                    dq.append(x)
        return seen

    def after(self, bb):
        """successor blocks of bb (start set for 'after the terminator of bb')"""
        return list(self.succ[bb])

    def path(self, starts, targets, avoid_exit=(), avoid_enter=()):
        """one shortest path (list of blocks) from entering a start to entering a target"""
        avoid_exit = set(avoid_exit)
        avoid_enter = set(avoid_enter)
        targets = set(targets)
        prev = {}
        dq = deque()
        for s in starts:
            if s in avoid_enter or s in prev:
                continue
            prev[s] = None
            dq.append(s)
        while dq:
            b = dq.popleft()
            if b in targets:
                out = []
                while b is not None:
                    out.append(b)
                    b = prev[b]
                return out[::-1]
            if b in avoid_exit:
                continue
            for x in self.succ[b]:
                if x not in prev and x not in avoid_enter:
                    prev[x] = b
                    dq.append(x)
        return None

    def dominators(self):
        """idom map over reachable blocks (Cooper-Harvey-Kennedy)"""
        if self._dom is not None:
            return self._dom
        order = []
        seen = set()
        stack = [(0, iter(self.succ[0]))]
        seen.add(0)
        while stack:
            b, it = stack[-1]
            adv = False
            for x in it:
                if x not in seen:
                    seen.add(x)
                    stack.append((x, iter(self.succ[x])))
                    adv = True
                    break
            if not adv:
                order.append(b)
                stack.pop()
        rpo = order[::-1]
        num = {b: i for i, b in enumerate(rpo)}
        idom = {0: 0}
        changed = True
        while changed:
            changed = False
            for b in rpo[1:]:
                new = None
                for p in self.pred[b]:
                    if p in idom:
                        if new is None:
                            new = p
                        else:
                            a, c = p, new
                            while a != c:
                                while num[a] > num[c]:
                                    a = idom[a]
                                while num[c] > num[a]:
                                    c = idom[c]
                            new = a
                if new is not None and idom.get(b) != new:
                    idom[b] = new
                    changed = True
        self._dom = idom
        return idom

    def dominates(self, a, b):
        """block a dominates block b (a's entry on every path to b's entry)"""
        idom = self.dominators()
        if b not in idom or a not in idom:
            return False
        while True:
            if a == b:
                return True
            if b == 0:
                return False
            b = idom[b]

    def term_dominates(self, a, b):
        """the terminator of block a is executed on every path from entry to entering b (a != b)"""
        if a == b:
            return False
        return b not in self.reach_from([0], avoid_exit=[a]) and b in self.reachable()

    def line_of(self, bb):
        t = self.blocks[bb]['t']
        if 'l' in t:
            return t['l']
        for s in self.blocks[bb]['s']:
            if 'l' in s:
                return s['l']
        return self.line

    def where(self, bb=None):
        return '%s:%d' % (self.src_file, self.line_of(bb) if bb is not None else self.line)

    # ---- definitions ---------------------------------------------------
    def defs(self):
        """local -> list of (bb, idx, kind, payload) for whole-local definitions
        kind: 'assign' (payload rvalue), 'call' (payload Call), 'yield' (resume arg), 'arg'"""
        if self._defs is not None:
            return self._defs
        d = defaultdict(list)
        for l in range(1, self.argc + 1):
            d[l].append((-1, -1, 'arg', l))
        for i, b in enumerate(self.blocks):
            if b['c']:
                continue
            for si, s in enumerate(b['s']):
                if s['k'] == 'a':
                    dst = s['d']
                    if not dst[1]:
                        d[dst[0]].append((i, si, 'assign', s['r']))
                    else:
                        d[dst[0]].append((i, si, 'partial', s))
            t = b['t']
            if t['k'] == 'call':
                dst = t['d']
                if not dst[1]:
                    d[dst[0]].append((i, len(b['s']), 'call', self._call_at[i]))
                else:
                    d[dst[0]].append((i, len(b['s']), 'partial_call', self._call_at[i]))
            elif t['k'] == 'yield':
                ra = t['ra']
                d[ra[0]].append((i, len(b['s']), 'yield', None))
        self._defs = d
        return d

    def single_def(self, l):
        ds = [x for x in self.defs().get(l, []) if x[2] in ('assign', 'call', 'arg', 'yield')]
        if len(ds) == 1:
            return ds[0]
        return None

    # ---- awaits --------------------------------------------------------
    def awaits(self):
        """list of Await events in this coroutine body"""
        if self._awaits is not None:
            return self._awaits
        out = []
        for c in self.calls:
            if c.name == 'poll' and (c.trait or '').endswith('Future') and c.from_expansion:
                out.append(Await(self, c))
        self._awaits = out
        return out

    def await_of_start(self, bb):
        for a in self.awaits():
            if a.start is not None and a.start.bb == bb:
                return a
        return None


TRANSPARENT_AWAIT = ('new_unchecked', 'into_future')


class Await:
    """x.await: START call (if directly a call), poll, yield, ready edge"""

    def __init__(self, fn, poll):
        self.fn = fn
        self.poll = poll
        self.coroutine = poll.f.get('res') if poll.f.get('res_kind') == 'item' else None
        # the switch after poll
        sw = poll.t['t']
        self.switch_bb = sw
        self.ready_bb = None
        self.pending_bb = None
        self.yield_bb = None
        t = fn.blocks[sw]['t'] if sw is not None else None
        if t and t['k'] == 'switch':
            for v, tgt in t['vals']:
                if v == 0:
                    self.ready_bb = tgt
                elif v == 1:
                    self.pending_bb = tgt
        # follow pending to the yield
        b = self.pending_bb
        hops = 0
        while b is not None and hops < 6:
            tt = fn.blocks[b]['t']
            if tt['k'] == 'yield':
                self.yield_bb = b
                break
            if tt['k'] in ('goto', 'drop'):
                b = tt['t']
            else:
                break
            hops += 1
        # follow ready through false edge
        # trace the awaitee back to its origin
        self.start = None
        self.origin_local = None
        self.awaitee = None
        self._trace()

    def _trace(self):
        fn = self.fn
        l = op_local(self.poll.args[0])
        hops = 0
        while l is not None and hops < 12:
            hops += 1
            ds = [x for x in fn.defs().get(l, []) if x[2] in ('assign', 'call', 'arg')]
            if len(ds) != 1:
                self.origin_local = l
                return
            bb, si, kind, payload = ds[0]
            if kind == 'arg':
                self.origin_local = l
                return
            if kind == 'call':
                c = payload
                if c.name in TRANSPARENT_AWAIT:
                    if c.name == 'into_future':
                        self.into_future = c
                    l = op_local(c.args[0])
                    continue
                self.start = c
                self.origin_local = l
                return
            r = payload
            if r['k'] == 'use':
                p = op_place(r['o'])
                if p is None or p[1]:
                    self.origin_local = l
                    return
                if self.awaitee is None and fn.debug_name(l) == '__awaitee':
                    self.awaitee = l
                l = p[0]
            elif r['k'] == 'ref':
                p = r['p']
                # &mut _9   or &mut (*_15)
                if [e for e in p[1] if e != '*']:
                    self.origin_local = l
                    return
                l = p[0]
            else:
                self.origin_local = l
                return
        self.origin_local = l

    @property
    def line(self):
        return self.poll.line

    def __repr__(self):
        return '<await %s in %s @%d>' % (self.start.full if self.start else '?', self.fn.id, self.line)


class Program:
    def __init__(self, path):
        if path.endswith('.gz'):
            import gzip
            with gzip.open(path, 'rt') as f:
                j = json.load(f)
        else:
            with open(path) as f:
                j = json.load(f)
        import anchors
        self.moved_items = {}
        if not os.environ.get('PEARL_VERIF_PINNING'):
            j, self.moved_items = anchors.canonicalise_paths(j)
        self.renamed_fields = anchors.canonicalise(j)
        self.rebound_fns = anchors.rebind_functions(j)
        import inline
        try:
            with open(anchors.SIG_TABLE) as sf:
                known = set(json.load(sf))
        except OSError:
            known = None
        # newly introduced thin helpers are inlined into their callers (never anything on the tree the rules were written for)
        self.inlined = inline.inline_new_thin(j, known) if known and not os.environ.get('PEARL_VERIF_PINNING') else []
        self.j = j
        self.nonce = j.get('nonce')
        self.crate = j.get('crate')
        self.missing = j.get('missing', [])
        self.fns = {}
        for fj in j['fns']:
            fn = Fn(fj, self)
            self.fns[fn.id] = fn
        self.adts = {a['path']: a for a in j['adts']}
        self.consts = {c['path']: c for c in j['consts']}
        self.impls = j['impls']
        self._children = defaultdict(list)
        for fn in self.fns.values():
            if fn.parent:
                self._children[fn.parent].append(fn.id)
        # trait item -> impl methods
        self.trait_impls = defaultdict(list)
        for im in self.impls:
            for it in im['items']:
                if it['trait_item']:
                    self.trait_impls[it['trait_item']].append((im['self'], it['def']))
        self._cg = None
        self._may = None
        self._resolve_memo = {}
        self._implementors = None
        self._param_memo = {}
        self._inst = None
        self.n_yields = sum(len(f.yields) for f in self.fns.values())
        self.n_calls = sum(len(f.calls) for f in self.fns.values())

    def fn(self, id):
        return self.fns.get(id)

    def find(self, pattern):
        """functions whose id matches the regex (search)"""
        r = re.compile(pattern)
        return [f for f in self.fns.values() if r.search(f.id)]

    def one(self, id):
        f = self.fns.get(id)
        if f is None:
            raise AnchorLost('function %s not found' % id)
        return f

    def body_of(self, id):
        """for an async fn id return its coroutine body; else the fn itself"""
        f = self.fns.get(id)
        if f is None:
            return None
        if f.is_async or any(self.fns[c].is_coroutine for c in self._children.get(id, []) if c == id + '::{closure#0}'):
            c = self.fns.get(id + '::{closure#0}')
            if c is not None and c.is_coroutine:
                return c
        return f

    def children(self, id):
        return self._children.get(id, [])

    def family(self, id):
        """fn + all nested closures/coroutines"""
        out = [id]
        for c in self._children.get(id, []):
            out.extend(self.family(c))
        return out

    # ---- call graph ----------------------------------------------------
    def callgraph(self):
        """fn id -> set of callee ids (local bodies) ; and ext[fn id] -> set of external callee paths"""
        if self._cg is not None:
            return self._cg
        edges = defaultdict(set)
        ext = defaultdict(set)
        for f in self.fns.values():
            for c in f.calls:
                for tgt in self.resolve(c):
                    if tgt in self.fns:
                        edges[f.id].add(tgt)
                    else:
                        ext[f.id].add(tgt)
            # construct edges
            for b in f.blocks:
                if b['c']:
                    continue
                for s in b['s']:
                    if s['k'] == 'a' and s['r']['k'] == 'agg' and s['r'].get('ak') in ('closure', 'coroutine', 'coroutine_closure'):
                        d = s['r']['def']
                        if d in self.fns:
                            edges[f.id].add(d)
                    # fn items used as values (e.g. .map(DirEntry::path), ok_or_else(Error::x))
                    if s['k'] == 'a':
                        for o in rvalue_operands(s['r']):
                            k = op_const(o)
                            if k and 'fn' in k:
                                p = k['fn'].get('res') or k['fn'].get('path')
                                if p in self.fns:
                                    edges[f.id].add(p)
                                elif p:
                                    ext[f.id].add(p)
            for c in f.calls:
                for o in c.args:
                    k = op_const(o)
                    if k and 'fn' in k:
                        p = k['fn'].get('res') or k['fn'].get('path')
                        if p in self.fns:
                            edges[f.id].add(p)
                        elif p:
                            ext[f.id].add(p)
        self._cg = (edges, ext)
        return self._cg

    def resolve(self, c):
        """possible targets (ids or external paths) of a call"""
        key = (c.fn.id, c.bb)
        r = self._resolve_memo.get(key)
        if r is None:
            r = self._resolve(c)
            self._resolve_memo[key] = r
        return r

    def _resolve(self, c):
        f = c.f
        if 'path' not in f:
            return ['<indirect>']
        if f.get('res') and f.get('res_kind') in ('item', 'closure_once', 'clone_shim', 'drop_glue', 'fnptr_shim', 'other'):
            return [f['res']]
        p = f['path']
        if f.get('trait') and not f.get('res'):
            impls = self.trait_impls.get(p)
            if impls:
                st = f.get('self_ty') or {}
                h = st.get('h')
                if h and h not in ('param', 'alias', 'dyn', '&', '&mut'):
                    m = [d for (s, d) in impls if s.get('h') == h]
                    if m:
                        return m
                if h == 'param':
                    heads = self.param_candidates(c.fn, st.get('s'))
                    if heads is not None:
                        m = [d for (s, d) in impls if s.get('h') in heads]
                        # a provided (default) trait method body may also be the target
                        return m + ([p] if p in self.fns and not m else [])
                return [d for (s, d) in impls] + ([p] if p in self.fns else [])
        return [p]

    def implementors(self, trait):
        if self._implementors is None:
            t = defaultdict(set)
            for im in self.impls:
                if im['trait']:
                    t[im['trait']].add(im['self'].get('h'))
            self._implementors = t
        return self._implementors.get(trait, set())

    def param_candidates(self, fn, pname):
        """in-crate type heads that can instantiate type parameter `pname` inside fn:
        (1) heads observed at that argument position of the impl's self ADT anywhere in the program's types,
        else (2) in-crate types implementing every in-crate trait the parameter is bounded by. None = unknown."""
        root = self.fns.get(fn.root, fn)
        key = (root.id, pname)
        if key in self._param_memo:
            return self._param_memo[key]
        res = None
        isf = root.impl_self
        if isf and isf.get('h') in self.adts:
            args = [a for a in isf.get('a', []) if not a.startswith("'")]
            if pname in args:
                pos = args.index(pname)
                heads = self.instantiations(isf['h'], pos)
                conc = set(h for h in heads if '::' in h)
                if conc:
                    res = conc
        if res is None:
            traits = [t for (pn, t) in root.bounds if pn == pname and self.implementors(t)]
            if traits:
                cand = None
                for t in traits:
                    cand = self.implementors(t) if cand is None else (cand & self.implementors(t))
                res = cand
        self._param_memo[key] = res
        return res

    def instantiations(self, adt, pos):
        if self._inst is None:
            self._inst = defaultdict(set)
            strs = set()
            for f in self.fns.values():
                for l in f.locals:
                    strs.add(l['s'])
            for a in self.adts.values():
                for v in a['variants']:
                    for fl in v['fields']:
                        strs.add(fl['ty']['s'])
            for st in strs:
                for (name, args) in generic_apps(st):
                    for i, a in enumerate(args):
                        self._inst[(name, i)].add(norm_ty(a))
        return self._inst.get((adt, pos), set())

    def may_reach(self):
        """fn id -> (set of local fn ids reachable, set of external paths reachable) transitive"""
        if self._may is not None:
            return self._may
        edges, ext = self.callgraph()
        # Tarjan SCC
        index = {}
        low = {}
        onst = set()
        st = []
        sccs = []
        counter = [0]
        nodes = list(self.fns.keys())

        def strong(v):
            work = [(v, iter(sorted(edges.get(v, ()))))]
            index[v] = low[v] = counter[0]
            counter[0] += 1
            st.append(v)
            onst.add(v)
            while work:
                v, it = work[-1]
                adv = False
                for w in it:
                    if w not in index:
                        index[w] = low[w] = counter[0]
                        counter[0] += 1
                        st.append(w)
                        onst.add(w)
                        work.append((w, iter(sorted(edges.get(w, ())))))
                        adv = True
                        break
                    elif w in onst:
                        low[v] = min(low[v], index[w])
                if adv:
                    continue
                work.pop()
                if work:
                    u = work[-1][0]
                    low[u] = min(low[u], low[v])
                if low[v] == index[v]:
                    comp = []
                    while True:
                        w = st.pop()
                        onst.discard(w)
                        comp.append(w)
                        if w == v:
                            break
                    sccs.append(comp)

        for v in nodes:
            if v not in index:
                strong(v)
        reach_l = {}
        reach_e = {}
        for comp in sccs:  # reverse topological order (callees first)
            L = set(comp) if len(comp) > 1 or comp[0] in edges.get(comp[0], ()) else set()
            E = set()
            for v in comp:
                E |= ext.get(v, set())
                for w in edges.get(v, ()):
                    if w in reach_l and w not in comp:
                        L.add(w)
                        L |= reach_l[w]
                        E |= reach_e[w]
                    elif w in comp:
                        L.add(w)
            for v in comp:
                reach_l[v] = L
                reach_e[v] = E
        self._may = (reach_l, reach_e)
        return self._may

    def reaches(self, src, pred_local=None, pred_ext=None):
        L, E = self.may_reach()
        out = []
        if pred_local:
            out += [x for x in L.get(src, ()) if pred_local(x)]
        if pred_ext:
            out += [x for x in E.get(src, ()) if pred_ext(x)]
        return out

    def call_path(self, src, is_target_local=None, is_target_ext=None, max_len=40):
        """shortest call chain (list of fn ids [+ ext path]) from src to a target"""
        edges, ext = self.callgraph()
        prev = {src: None}
        dq = deque([src])
        while dq:
            v = dq.popleft()
            if is_target_ext:
                for e in sorted(ext.get(v, ())):
                    if is_target_ext(e):
                        out = [e]
                        while v is not None:
                            out.append(v)
                            v = prev[v]
                        return out[::-1]
            if is_target_local and v != src and is_target_local(v):
                out = []
                while v is not None:
                    out.append(v)
                    v = prev[v]
                return out[::-1]
            for w in sorted(edges.get(v, ())):
                if w not in prev:
                    prev[w] = v
                    dq.append(w)
        return None

    def callers_of(self, pred):
        """all Call objects whose resolved target(s) satisfy pred(path)"""
        out = []
        for f in self.fns.values():
            for c in f.calls:
                if any(pred(t) for t in self.resolve(c)) or pred(c.path):
                    out.append(c)
        return out


def generic_apps(s):
    """all `path<arg, ...>` applications inside a printed type: yields (path, [non-lifetime args])"""
    out = []
    i = 0
    n = len(s)
    while i < n:
        m = re.compile(r'[A-Za-z_][A-Za-z0-9_:]*<').search(s, i)
        if not m:
            break
        name = m.group(0)[:-1]
        j = m.end()
        depth = 1
        args = []
        cur = ''
        k = j
        while k < n and depth > 0:
            ch = s[k]
            if ch == '<' or ch == '(' or ch == '[':
                depth += 1
                cur += ch
            elif ch == '>' and k > 0 and s[k - 1] == '-':
                cur += ch
            elif ch == '>' or ch == ')' or ch == ']':
                depth -= 1
                if depth > 0:
                    cur += ch
            elif ch == ',' and depth == 1:
                args.append(cur.strip())
                cur = ''
            else:
                cur += ch
            k += 1
        if cur.strip():
            args.append(cur.strip())
        args = [a for a in args if not a.startswith("'")]
        out.append((name.rstrip(':'), args))
        i = m.end()
    return out


class AnchorLost(Exception):
    pass


def rvalue_operands(r):
    k = r['k']
    if k in ('use', 'repeat', 'cast', 'un'):
        return [r['o']]
    if k == 'bin':
        return [r['a'], r['b']]
    if k == 'agg':
        return r['ops']
    return []


def rvalue_places(r):
    """places read by the rvalue"""
    out = []
    for o in rvalue_operands(r):
        p = op_place(o)
        if p is not None:
            out.append(p)
    if r['k'] in ('ref', 'rawptr', 'discr'):
        out.append(r['p'])
    return out


# --------------------------------------------------------------------------
# A7 provenance: backward all-definitions closure
# --------------------------------------------------------------------------

TRANSPARENT_CALLS = {
    # name -> index of argument that flows to the result
    'into_future': 0, 'new_unchecked': 0, 'deref': 0, 'deref_mut': 0, 'as_ref': 0, 'as_mut': 0,
    'clone': 0, 'into': 0, 'from': 0, 'borrow': 0, 'borrow_mut': 0, 'unwrap': 0, 'expect': 0,
    'into_inner': 0, 'as_deref': 0, 'as_deref_mut': 0, 'to_owned': 0, 'as_path': 0, 'to_path_buf': 0,
    'as_str': 0, 'as_slice': 0, 'to_vec': 0, 'freeze': 0, 'branch': 0, 'from_residual': 0,
    'map_err': 0, 'with_context': 0, 'context': 0, 'pin': 0, 'new': 0, 'ok_or_else': 0, 'ok_or': 0,
    'unwrap_or': 0, 'unwrap_or_default': 0, 'unwrap_or_else': 0, 'as_ptr': 0, 'must_use': 0,
    'try_into': 0, 'try_from': 0, 'as_os_str': 0, 'to_os_string': 0, 'get_ref': 0, 'get_mut': 0,
    'index': 0, 'index_mut': 0, 'into_iter': 0, 'iter': 0, 'iter_mut': 0, 'take': 0, 'replace': 0,
    'poll': 0, 'read': 0, 'write': 0, 'upgradable_read': 0, 'lock': 0, 'map_or': 0, 'map': 0, 'and_then': 0, 'max': (0, 1), 'min': (0, 1), 'or': (0, 1), 'and': (0, 1),
    'cloned': 0, 'copied': 0, 'ok': 0, 'err': 0, 'filter': 0, 'or_else': 0, 'unwrap_unchecked': 0,
}
# `new` is transparent only for smart-pointer-like wrappers
TRANSPARENT_NEW_OWNERS = ('std::boxed::Box', 'std::sync::Arc', 'std::rc::Rc', 'async_lock::RwLock', 'tokio::sync::RwLock',
                          'std::sync::RwLock', 'std::sync::Mutex', 'std::pin::Pin', 'std::cell::RefCell', 'std::cell::Cell')


class Origin:
    """A terminal of the provenance closure."""
    __slots__ = ('kind', 'fn', 'bb', 'data')

    def __init__(self, kind, fn, bb, data):
        self.kind = kind    # 'call' | 'const' | 'arg' | 'agg' | 'binop' | 'other' | 'upvar' | 'field'
        self.fn = fn
        self.bb = bb
        self.data = data

    def key(self):
        if self.kind == 'call':
            return ('call', self.fn.id, self.data.bb)
        return (self.kind, self.fn.id, self.bb, str(self.data)[:80])

    def __repr__(self):
        if self.kind == 'call':
            return 'call:%s@%s' % (self.data.full, self.data.where())
        return '%s:%s@%s' % (self.kind, str(self.data)[:60], self.fn.id)


def is_transparent(c):
    n = c.name
    if n not in TRANSPARENT_CALLS:
        return None
    if n == 'new':
        if not any(c.path.startswith(o) for o in TRANSPARENT_NEW_OWNERS):
            return None
    if n == 'poll' and not (c.trait or '').endswith('Future'):
        return None
    if n in ('read', 'write', 'upgradable_read', 'lock') and not re.match(r'^(tokio::sync|async_lock|std::sync)::(RwLock|Mutex)', c.path):
        return None
    if c.decl_crate == 'pearl' and not c.trait:
        # in-crate inherent fns are never transparent by name
        return None
    if not c.args:
        return None
    return TRANSPARENT_CALLS[n]


def origins(fn, operand_or_local, through_fields=True, extra_transparent=None, follow_closure_ret=False, _seen=None, max_nodes=4000, stop_fields=False):
    """Backward closure over *all* definitions of the locals an operand may carry.
    Returns list of Origin.  Field projections on the way are ignored (a value read
    from x.f is attributed to the definitions of x) unless through_fields is False."""
    prog = fn.prog
    out = {}
    seen = set()
    work = []

    STD_ENUMS = ('Ok', 'Err', 'Some', 'None', 'Ready', 'Pending', 'Continue', 'Break')

    def push_operand(o, want=()):
        if isinstance(o, int):
            work.append((o, want))
            return
        k = op_const(o)
        if k is not None:
            og = Origin('const', fn, -1, k)
            out[og.key()] = og
            return
        p = op_place(o)
        if p is not None:
            push_place(p, want)

    def push_place(p, inherit=()):
        if stop_fields and p[1]:
            # last named field of an in-crate ADT on the access path: report the field, not the base
            idxs = [i for i, e in enumerate(p[1]) if isinstance(e, dict) and 'f' in e and e['n'] and not e['n'].isdigit()]
            if idxs and not (p[0] == 1 and fn.kind == 'Closure'):
                cut = [p[0], p[1][:idxs[-1] + 1]]
                adt = place_base_adt(fn, cut)
                if adt and adt in prog.adts:
                    og = Origin('field', fn, -1, (adt, p[1][idxs[-1]]['n']))
                    out[og.key()] = og
                    return
        if p[0] == 1 and fn.kind == 'Closure':
            for e in p[1]:
                if isinstance(e, dict) and 'f' in e:
                    og = Origin('upvar', fn, -1, e['f'])
                    out[og.key()] = og
                    return
        # `match (a, b) { (Some(x), _) => .. }`: a field of a local tuple built in one place is that operand of the aggregate
        proj = [e for e in p[1] if e != '*']
        if proj and isinstance(proj[0], dict) and 'f' in proj[0] and 'v' not in proj[0]:
            ds = [x for x in fn.defs().get(p[0], []) if x[2] != 'partial']
            if len(ds) == 1 and ds[0][2] == 'assign' and ds[0][3]['k'] == 'agg' and ds[0][3].get('ak') == 'tuple' and proj[0]['f'] < len(ds[0][3]['ops']):
                push_operand(ds[0][3]['ops'][proj[0]['f']], inherit if len(proj) == 1 else ())
                return
        # `((x as Ok).0 ..)`: only definitions of `x` that build that variant can be the source (variant-precise for the std
        # enums - after a helper was inlined its Ok and Err results meet in one local)
        want = ()
        if proj and all(isinstance(e, dict) for e in proj):
            names, okp = [], True
            k = 0
            while k < len(proj):
                e = proj[k]
                if 'v' in e and e.get('n') in STD_ENUMS and k + 1 < len(proj) and 'f' in proj[k + 1] and 'v' not in proj[k + 1]:
                    names.append(e['n'])
                    k += 2
                else:
                    okp = False
                    break
            if okp and names:
                want = tuple(names) + tuple(inherit)
        elif not proj:
            want = tuple(inherit)
        work.append((p[0], want))

    push_operand(operand_or_local)
    n = 0
    while work:
        l, want = work.pop()
        if (l, want) in seen or (want and (l, ()) in seen):
            continue
        seen.add((l, want))
        n += 1
        if n > max_nodes:
            break
        ds = fn.defs().get(l, [])
        if not ds:
            og = Origin('other', fn, -1, 'undef _%d' % l)
            out[og.key()] = og
        for (bb, si, kind, payload) in ds:
            if kind == 'arg':
                if fn.is_coroutine or fn.kind == 'Closure':
                    og = Origin('arg', fn, -1, l)
                else:
                    og = Origin('arg', fn, -1, l)
                out[og.key()] = og
            elif kind == 'yield':
                continue
            elif kind in ('call', 'partial_call'):
                c = payload
                ti = is_transparent(c)
                if extra_transparent and ti is None:
                    ti = extra_transparent(c)
                if ti is not None and not isinstance(ti, tuple):
                    ti = (ti,)
                if ti is not None and all(x < len(c.args) for x in ti):
                    w2 = ()
                    if want:
                        if c.name == 'from_residual':
                            if want[0] in ('Ok', 'Some', 'Continue'):
                                continue      # `?` rebuilds an Err / None only
                            w2 = ()
                        elif c.name == 'branch':
                            a0 = op_local(c.args[0])
                            opt = a0 is not None and fn.locals[a0]['s'].startswith('std::option::Option')
                            if want[0] == 'Continue':
                                w2 = (('Some' if opt else 'Ok'),) + want[1:]
                            elif want[0] == 'Break':
                                rest = want[1:]
                                if rest and rest[0] in ('Err', 'None'):
                                    rest = rest[1:]
                                w2 = (('None' if opt else 'Err'),) + rest
                        elif c.name in ('with_context', 'context', 'map_err', 'clone', 'as_ref', 'as_mut', 'as_deref', 'as_deref_mut', 'borrow', 'borrow_mut', 'deref', 'deref_mut', 'into_inner', 'to_owned'):
                            w2 = want
                    for x in ti:
                        push_operand(c.args[x], w2)
                else:
                    og = Origin('call', fn, bb, c)
                    out[og.key()] = og
            elif kind == 'partial':
                s = payload
                for o in rvalue_operands(s['r']):
                    push_operand(o)
                if s['r']['k'] in ('ref', 'rawptr', 'discr'):
                    push_place(s['r']['p'])
            else:
                r = payload
                k = r['k']
                if k == 'use':
                    push_operand(r['o'], want)
                elif k in ('ref', 'rawptr'):
                    push_place(r['p'], want)
                elif k == 'cast':
                    push_operand(r['o'], want)
                elif k == 'agg':
                    ak = r.get('ak')
                    std_enum = ak == 'adt' and r.get('adt') in ('std::option::Option', 'std::result::Result', 'std::task::Poll', 'std::ops::ControlFlow')
                    if std_enum and want and r.get('variant') and r.get('variant') != want[0]:
                        continue      # another variant than the one the reader unwraps
                    if ak == 'adt' and r.get('adt') in ('std::option::Option', 'std::result::Result', 'std::task::Poll') and r['ops']:
                        push_operand(r['ops'][0], want[1:] if want else ())
                    else:
                        og = Origin('agg', fn, bb, r)
                        out[og.key()] = og
                elif k == 'bin':
                    og = Origin('binop', fn, bb, r)
                    out[og.key()] = og
                elif k == 'discr':
                    og = Origin('discr', fn, bb, r)
                    out[og.key()] = og
                elif k == 'un':
                    og = Origin('unop', fn, bb, r)
                    out[og.key()] = og
                else:
                    og = Origin('other', fn, bb, r)
                    out[og.key()] = og
    return list(out.values())


def closure_construction_sites(prog, cid):
    """(fn, bb, rvalue) aggregates that build closure/coroutine `cid`"""
    out = []
    f = prog.fns.get(cid)
    if f is None or not f.parent or f.parent not in prog.fns:
        return out
    par = prog.fns[f.parent]
    for i, b in enumerate(par.blocks):
        if b['c']:
            continue
        for s in b['s']:
            if s['k'] == 'a' and s['r']['k'] == 'agg' and s['r'].get('def') == cid:
                out.append((par, i, s['r']))
    return out


def call_sites_of(prog, fid):
    """Call objects that may target local function fid"""
    idx = getattr(prog, '_callers_idx', None)
    if idx is None:
        idx = defaultdict(list)
        for f in prog.fns.values():
            for c in f.calls:
                for t in prog.resolve(c):
                    if t in prog.fns:
                        idx[t].append(c)
        prog._callers_idx = idx
    return idx.get(fid, [])



def runs_exclusive(prog, root_id, owner='storage::core::Storage<', depth=3, _seen=None):
    """the function runs while `&mut <owner>` is held: it takes `&mut owner` itself, or it is a non-public function whose every
    call site lies in a function that does (helpers extracted from an exclusive initialisation)"""
    _seen = _seen or set()
    root = prog.fns.get(root_id)
    if root is None or root_id in _seen:
        return False
    if root.argc >= 1 and root.locals[1]['s'].startswith('&mut ' + owner):
        return True
    if depth <= 0 or root.j.get('pub'):
        return False
    sites = [c for c in call_sites_of(prog, root_id) if c.bb in c.fn.reachable()]
    if not sites:
        return False
    return all(runs_exclusive(prog, prog.fns[c.fn.id].root, owner, depth - 1, _seen | {root_id}) for c in sites)

def origins_ip(prog, fn, operand, depth=4, _seen=None, **kw):
    """origins() expanded across closure upvars, coroutine stubs and (depth-limited) callers' arguments"""
    if _seen is None:
        _seen = set()
    res = []
    for og in origins(fn, operand, **kw):
        k = (fn.id,) + og.key()
        if k in _seen:
            continue
        _seen.add(k)
        if og.kind == 'upvar':
            sites = closure_construction_sites(prog, fn.id)
            if not sites:
                res.append(og)
            for (par, bb, r) in sites:
                if og.data < len(r['ops']):
                    res.extend(origins_ip(prog, par, r['ops'][og.data], depth, _seen, **kw))
        elif og.kind == 'arg' and fn.kind != 'Closure' and depth > 0:
            cs = call_sites_of(prog, fn.id)
            if not cs:
                res.append(og)
            for c in cs:
                ai = og.data - 1
                if ai < len(c.args):
                    res.extend(origins_ip(prog, c.fn, c.args[ai], depth - 1, _seen, **kw))
        else:
            res.append(og)
    return res


def const_str(prog, k):
    """string value of a constant operand payload (direct literal or named const item)"""
    if k is None:
        return None
    if 'str' in k:
        return k['str']
    it = k.get('item')
    if it and it in prog.consts:
        return prog.consts[it].get('str')
    return None


def const_int(prog, k):
    if k is None:
        return None
    if 'int' in k:
        return k['int']
    it = k.get('item')
    if it and it in prog.consts:
        return prog.consts[it].get('int')
    return None


def field_sources(prog, adt, field):
    """(fn, bb, operand) for every construction of `adt` (operand of `field`) and every direct store into a
    place ending in .field whose base type is `adt`"""
    idx = getattr(prog, '_field_src', None)
    if idx is None:
        idx = defaultdict(list)
        for f in prog.fns.values():
            for i, b in enumerate(f.blocks):
                if b['c']:
                    continue
                for st in b['s']:
                    if st['k'] != 'a':
                        continue
                    r = st['r']
                    if r['k'] == 'agg' and r.get('ak') == 'adt':
                        for fname, o in zip(r['fields'], r['ops']):
                            idx[(r['adt'], fname)].append((f, i, o, 'construct'))
                    d = st['d']
                    if d[1]:
                        last = d[1][-1]
                        if isinstance(last, dict) and 'f' in last and last['n']:
                            bt = place_base_adt(f, d)
                            if bt:
                                for o in rvalue_operands(r) or [None]:
                                    idx[(bt, last['n'])].append((f, i, o, 'store:' + r['k']))
                t = b['t']
                if t['k'] == 'call':
                    d = t['d']
                    if d[1]:
                        last = d[1][-1]
                        if isinstance(last, dict) and 'f' in last and last['n']:
                            bt = place_base_adt(f, d)
                            if bt:
                                idx[(bt, last['n'])].append((f, i, None, 'store:call'))
        prog._field_src = idx
    return idx.get((adt, field), [])


def place_base_adt(fn, place):
    """ADT path of the value whose field is the last projection of `place` (best effort via local types)"""
    ty = fn.locals[place[0]]
    # walk: we only know local types; handle the common shapes  (*_x).f  /  _x.f  / ((*_x).g).f is not resolved
    projs = [e for e in place[1][:-1] if not (e == '*')]
    if projs:
        # nested projection: resolve through adts table
        cur = ty_head_adt(ty)
        for e in projs:
            if isinstance(e, dict) and 'f' in e and cur in fn.prog.adts:
                a = fn.prog.adts[cur]
                fld = None
                for v in a['variants']:
                    for ff in v['fields']:
                        if ff['name'] == e['n']:
                            fld = ff
                cur = ty_head_adt(fld['ty']) if fld else None
            elif isinstance(e, dict) and 'v' in e:
                continue
            else:
                return None
        return cur
    return ty_head_adt(ty)


def place_type_str(fn, place):
    """printed type of a place (best effort): follows Ok.0 / Err.0 / Some.0 downcasts on std enums, derefs of references
    and named fields of in-crate ADTs. Returns None when unknown."""
    cur = fn.locals[place[0]]['s']
    variant = None
    for e in place[1]:
        if cur is None:
            return None
        if e == '*':
            m = re.match(r"^&(?:'[a-z_]+ )?(?:mut )?(.*)$", cur)
            if m:
                cur = m.group(1)
            else:
                apps = generic_apps(cur)
                cur = apps[0][1][0] if apps and apps[0][1] and cur.startswith(('std::boxed::Box<', 'std::sync::Arc<')) else None
        elif isinstance(e, dict) and 'v' in e:
            variant = e['n']
        elif isinstance(e, dict) and 'f' in e:
            apps = generic_apps(cur)
            head = re.match(r'^([A-Za-z0-9_:]+)', cur)
            head = head.group(1) if head else None
            args = apps[0][1] if apps and cur.startswith(apps[0][0]) else []
            if head in ('std::result::Result',) and variant in ('Ok', 'Err') and len(args) >= 2:
                cur = args[0] if variant == 'Ok' else args[1]
            elif head in ('std::option::Option', 'std::task::Poll') and variant in ('Some', 'Ready') and args:
                cur = args[0]
            elif head in fn.prog.adts:
                a = fn.prog.adts[head]
                fld = None
                for v in a['variants']:
                    if variant is None or v['name'] == variant or len(a['variants']) == 1:
                        for ff in v['fields']:
                            if ff['name'] == (e['n'] or str(e['f'])):
                                fld = ff
                cur = fld['ty']['s'] if fld else None
            else:
                cur = None
            variant = None
        else:
            return None
    return cur


def ty_head_adt(ty):
    h = ty.get('h')
    if h in ('&', '&mut', '*mut', '*const'):
        inner = ty['a'][0]
        m = re.match(r'^([A-Za-z0-9_:]+)', inner)
        return m.group(1) if m else None
    if h in ('std::boxed::Box', 'std::sync::Arc'):
        args = [a for a in ty['a'] if not a.startswith("'")]
        m = re.match(r'^([A-Za-z0-9_:]+)', args[0]) if args else None
        return m.group(1) if m else None
    return h


def origins_deep(prog, fn, operand, depth=3, expand=None, _seen=None):
    """origins_ip, additionally expanding calls to in-crate functions into the origins of their return value
    (all operands of returned in-crate aggregates), depth-limited. `expand(call)` may veto."""
    if _seen is None:
        _seen = set()
    out = []
    for og in origins_ip(prog, fn, operand, depth=2):
        if og.kind == 'call' and depth > 0:
            tg = [t for t in prog.resolve(og.data) if t in prog.fns]
            if tg and (expand is None or expand(og.data)):
                out.append(og)
                for t in tg:
                    b = prog.body_of(t)
                    if b is None or (b.id, 'ret') in _seen:
                        continue
                    _seen.add((b.id, 'ret'))
                    for sub in origins_deep(prog, b, 0, depth - 1, expand, _seen):
                        out.append(sub)
                continue
        if og.kind == 'agg' and ((og.data.get('ak') == 'adt' and og.data.get('adt') in prog.adts) or og.data.get('ak') == 'tuple') and depth > 0:
            out.append(og)
            for o in og.data['ops']:
                out.extend(origins_deep(prog, og.fn, o, depth - 1, expand, _seen))
            continue
        out.append(og)
    return out


def origin_calls(fn, operand, **kw):
    return [o.data for o in origins(fn, operand, **kw) if o.kind == 'call']


# --------------------------------------------------------------------------
# forward flow of a value (which locals may carry a value produced at a def)
# --------------------------------------------------------------------------

def flows_forward(fn, start_local, transparent=is_transparent):
    """set of locals that may carry (a wrapper / a reference / a part of) the value first held in start_local."""
    carry = {start_local}
    changed = True
    while changed:
        changed = False
        for i, b in enumerate(fn.blocks):
            if b['c']:
                continue
            for s in b['s']:
                if s['k'] != 'a':
                    continue
                srcs = [p[0] for p in rvalue_places(s['r'])]
                if any(x in carry for x in srcs):
                    d = s['d'][0]
                    if d not in carry:
                        carry.add(d)
                        changed = True
            t = b['t']
            if t['k'] == 'call':
                c = fn.call_at(i)
                ti = transparent(c) if transparent else None
                if ti is not None and not isinstance(ti, tuple):
                    ti = (ti,)
                if ti is not None:
                    for x in ti:
                        if x < len(c.args):
                            l = op_local(c.args[x])
                            if l in carry and c.dest[0] not in carry:
                                carry.add(c.dest[0])
                                changed = True
    return carry


# --------------------------------------------------------------------------
# A6 held-guard dataflow
# --------------------------------------------------------------------------

GUARD_TYPES = {
    'tokio::sync::RwLockReadGuard': ('tokio', 'R'),
    'tokio::sync::RwLockWriteGuard': ('tokio', 'W'),
    'tokio::sync::RwLockMappedWriteGuard': ('tokio', 'W'),
    'tokio::sync::OwnedRwLockReadGuard': ('tokio', 'R'),
    'tokio::sync::OwnedRwLockWriteGuard': ('tokio', 'W'),
    'async_lock::RwLockReadGuard': ('async_lock', 'R'),
    'async_lock::RwLockUpgradableReadGuard': ('async_lock', 'U'),
    'async_lock::RwLockWriteGuard': ('async_lock', 'W'),
    'std::sync::RwLockReadGuard': ('std', 'R'),
    'std::sync::RwLockWriteGuard': ('std', 'W'),
    'std::sync::MutexGuard': ('std', 'W'),
    'tokio::sync::SemaphorePermit': ('tokio_sem', 'P'),
    'tokio::sync::OwnedSemaphorePermit': ('tokio_sem', 'P'),
    'tokio::sync::MutexGuard': ('tokio_mutex', 'W'),
    'tokio::sync::OwnedMutexGuard': ('tokio_mutex', 'W'),
    'async_lock::MutexGuard': ('async_lock_mutex', 'W'),
    'async_lock::MutexGuardArc': ('async_lock_mutex', 'W'),
}


GUARD_CONTAINERS = ('std::option::Option', 'std::result::Result', 'tuple', 'std::boxed::Box', 'std::vec::Vec')


def guard_class(ty):
    """(lock crate, mode, protected type string) if ty is a guard type, or a plain container (Option/Result/tuple/Box/Vec)
    of one (e.g. the Option<RwLockReadGuard<Blob>> returned by Safe::read_active_blob)"""
    h = ty.get('h')
    g = GUARD_TYPES.get(h)
    if g:
        args = [a for a in ty.get('a', []) if not a.startswith("'")]
        prot = args[0] if args else '()'
        if g[0] == 'tokio_sem':
            return (g[0], g[1], 'Semaphore')     # a permit names no protected type: same class as the acquire it came from
        return (g[0], g[1], norm_ty(prot))
    if h in GUARD_CONTAINERS:
        for (name, args) in generic_apps(ty.get('s', '')):
            g = GUARD_TYPES.get(name)
            if g:
                if g[0] == 'tokio_sem':
                    return (g[0], g[1], 'Semaphore')
                return (g[0], g[1], norm_ty(args[0]) if args else '()')
    return None


def norm_ty(s):
    """strip generic key parameter noise: Safe<K> -> Safe"""
    s = re.sub(r"'[a-z_]+,?\s*", '', s)
    m = re.match(r'^([A-Za-z0-9_:]+)', s)
    return m.group(1) if m else s


def held_guards(fn):
    """Forward may-analysis. Returns IN[bb] = frozenset of guard locals that may be live (held) on entry,
    and per-block transfer so that callers can compute the set at a terminator: held_at_term(bb)."""
    guards = {}
    for l, ty in enumerate(fn.locals):
        gc = guard_class(ty)
        if gc:
            guards[l] = gc
    if not guards:
        return {}, lambda bb: frozenset(), guards
    n = fn.n

    def transfer(bb, s):
        s = set(s)
        b = fn.blocks[bb]
        for st in b['s']:
            if st['k'] == 'a':
                # moves out of a guard local kill it; assignment into a guard local gens it
                for o in rvalue_operands(st['r']):
                    if 'm' in o and not o['m'][1] and o['m'][0] in guards:
                        s.discard(o['m'][0])
                d = st['d']
                if not d[1] and d[0] in guards:
                    s.add(d[0])
            elif st['k'] == 'sd':
                s.discard(st['v'])
        return s

    def transfer_term(bb, s):
        s = set(s)
        t = fn.blocks[bb]['t']
        if t['k'] == 'call':
            for o in t['args']:
                if 'm' in o and not o['m'][1] and o['m'][0] in guards:
                    s.discard(o['m'][0])
            d = t['d']
            if not d[1] and d[0] in guards:
                s.add(d[0])
        elif t['k'] == 'drop':
            p = t['p']
            if not p[1] and p[0] in guards:
                s.discard(p[0])
        return s

    IN = {0: frozenset()}
    work = deque([0])
    at_term = {}
    while work:
        b = work.popleft()
        s = transfer(b, IN[b])
        at_term[b] = frozenset(s)
        s2 = frozenset(transfer_term(b, s))
        for x in fn.succ[b]:
            old = IN.get(x)
            new = s2 if old is None else (old | s2)
            if old is None or new != old:
                IN[x] = new
                work.append(x)

    def held_at_term(bb):
        """guards live just before the terminator of bb executes (arguments not yet moved)"""
        return at_term.get(bb, frozenset())

    return IN, held_at_term, guards


# payload of Ready(..) holding a guard: the guard is held only once moved out of the Poll temp.
# Locals of type Poll<Guard> are not guards themselves, so the analysis above starts at the move
# out of `(_33 as Ready).0`, which is an assignment into a guard-typed local. Good.


# --------------------------------------------------------------------------
# exits, ok-edges, must-summaries
# --------------------------------------------------------------------------

def exit_defs(fn):
    """definitions of the return place _0: list of (bb, kind, payload)
    kind: 'err' (Err aggregate / from_residual), 'ok' (Ok aggregate), 'fwd' (forwarded value of unknown variant),
    'val' (non-Result value)"""
    out = []
    ret_ty = fn.locals[0]
    is_res = ret_ty.get('h') == 'std::result::Result'
    for (bb, si, kind, payload) in fn.defs().get(0, []):
        if kind == 'call':
            c = payload
            # position of the exit = the block entered when the defining call has returned
            pos = c.t['t'] if c.t['t'] is not None else bb
            if c.name == 'from_residual':
                out.append((pos, 'err', c))
            elif is_res:
                out.append((pos, 'fwd', c))
            else:
                out.append((pos, 'val', c))
        elif kind == 'assign':
            r = payload
            if r['k'] == 'agg' and r.get('adt') == 'std::result::Result':
                out.append((bb, 'err' if r['variant'] == 'Err' else 'ok', r))
            elif is_res:
                out.append((bb, 'fwd', r))
            else:
                out.append((bb, 'val', r))
    if not out:
        # unit-returning bodies may never assign _0 explicitly in mir_built? (they do: _0 = const ())
        pass
    return out


FWD_TRANSPARENT = dict(TRANSPARENT_CALLS)
FWD_TRANSPARENT['poll'] = 0


def fwd_transparent(c):
    n = c.name
    if n == 'poll' and (c.trait or '').endswith('Future'):
        return 0
    return is_transparent(c)


def result_flow(fn, call):
    """locals that carry the result of `call` (through await / wrappers)"""
    return flows_forward(fn, call.dest[0], transparent=fwd_transparent)


def _result_discr_edges(fn, carry):
    """(ok targets, err targets) of switches on the discriminant of a Result value carried in `carry`
    (`match r { Ok(..) => .., Err(..) => .. }`, `if let Err(e) = r`, `if r.is_ok()`)"""
    oks, errs = [], []
    for i in fn.reachable():
        t = fn.blocks[i]['t']
        if t['k'] != 'switch':
            continue
        for (bb, si, kind, r) in fn.defs().get(op_local(t['o']), []):
            if kind == 'assign' and r['k'] == 'discr' and r['p'][0] in carry and fn.locals[r['p'][0]].get('h') == 'std::result::Result' and not [x for x in r['p'][1] if x != '*']:
                vals = dict((v, tg) for v, tg in t['vals'])
                if 0 in vals:
                    oks.append(vals[0])
                elif all(v == 1 for v in vals):
                    oks.append(t['otherwise'])
                if 1 in vals:
                    errs.append(vals[1])
                elif all(v == 0 for v in vals):
                    errs.append(t['otherwise'])
            elif kind == 'call' and r.name in ('is_ok', 'is_err') and r.path.startswith('std::result::Result') and r.args and op_local(r.args[0]) is not None:
                src = op_local(r.args[0])
                base = src
                ds = [x for x in fn.defs().get(src, []) if x[2] == 'assign' and x[3]['k'] == 'ref']
                if len(ds) == 1:
                    base = ds[0][3]['p'][0]
                if base not in carry and src not in carry:
                    continue
                tt = [tg for v, tg in t['vals'] if v != 0] or ([t['otherwise']] if all(v == 0 for v, _ in t['vals']) else [])
                ff = [tg for v, tg in t['vals'] if v == 0] or ([t['otherwise']] if all(v != 0 for v, _ in t['vals']) else [])
                if r.name == 'is_ok':
                    oks += tt
                    errs += ff
                else:
                    oks += ff
                    errs += tt
    return oks, errs


def _bfs_dist(fn, start):
    """block -> number of edges from `start` (normal edges)"""
    dist = {start: 0}
    dq = deque([start])
    while dq:
        b = dq.popleft()
        for x in fn.succ[b]:
            if x not in dist:
                dist[x] = dist[b] + 1
                dq.append(x)
    return dist


def ok_block(fn, call):
    """Block entered when the (awaited) Result of `call` is known to be Ok: the Continue edge of `?`, or the Ok edge of a
    `match` / `if let` / `is_ok()` test on that value.  None when the value is never tested."""
    carry = result_flow(fn, call)
    # the nearest `?` on the value (after inlining, the value can flow on into the `?` of the former caller)
    dist = _bfs_dist(fn, call.bb)
    cands = [c for c in fn.calls if c.name == 'branch' and c.args and op_local(c.args[0]) in carry and c.bb in fn.reachable()]
    for c in sorted(cands, key=lambda c: dist.get(c.bb, 10 ** 9)):
            sw = c.t['t']
            if sw is None:
                continue
            t = fn.blocks[sw]['t']
            if t['k'] == 'switch':
                for v, tgt in t['vals']:
                    if v == 0:
                        return tgt
    oks, errs = _result_discr_edges(fn, carry)
    if len(set(oks)) == 1:
        return oks[0]
    return None


def err_block(fn, call):
    carry = result_flow(fn, call)
    dist = _bfs_dist(fn, call.bb)
    cands = [c for c in fn.calls if c.name == 'branch' and c.args and op_local(c.args[0]) in carry]
    for c in sorted(cands, key=lambda c: dist.get(c.bb, 10 ** 9)):
            sw = c.t['t']
            if sw is None:
                continue
            t = fn.blocks[sw]['t']
            if t['k'] == 'switch':
                for v, tgt in t['vals']:
                    if v == 1:
                        return tgt
    oks, errs = _result_discr_edges(fn, carry)
    if len(set(errs)) == 1:
        return errs[0]
    return None


def err_edge(fn, call):
    """blocks entered when the (awaited) Result of `call` is observed to be Err: the Break edge of `?`, the Err edge of a
    `match` / `if let` on the value"""
    carry = result_flow(fn, call)
    out = []
    e = err_block(fn, call)
    if e is not None:
        out.append(e)
    for i in fn.reachable():
        t = fn.blocks[i]['t']
        if t['k'] != 'switch':
            continue
        for (bb, si, kind, r) in fn.defs().get(op_local(t['o']), []):
            if kind == 'assign' and r['k'] == 'discr' and r['p'][0] in carry and fn.locals[r['p'][0]].get('h') == 'std::result::Result' and not [x for x in r['p'][1] if x != '*']:
                hit = [tg for v, tg in t['vals'] if v == 1]
                if not hit and all(v == 0 for v, _ in t['vals']):
                    hit = [t['otherwise']]
                out += hit
    return out


def completion_block(fn, call):
    """Block entered when `call` has completed: the Ready arm of its await, or the call's return block."""
    a = fn.await_of_start(call.bb)
    if a is not None:
        return a.ready_bb
    return call.t['t']


def is_awaited(fn, call):
    return fn.await_of_start(call.bb) is not None


class Summ:
    """Must-on-ok summaries for one event predicate.

    must(fid): every ok/forwarding exit of body `fid` is preceded on all paths by an event.
    An event is: a completed call c with pred(c) (with its `?` passed when the callee is fallible),
    a completed call to a local function g with must(g), or a completed call to a *runner*
    (a function that must call its closure argument: spawn_blocking / block_in_place wrappers)
    that is handed a closure K with must(K).
    excuse(fn) -> blocks whose entry excuses a path (e.g. the None edge of `active_blob`)."""

    def __init__(self, prog, pred, excuse=None, need_ok=True):
        self.prog = prog
        self.pred = pred
        self.excuse = excuse
        self.need_ok = need_ok
        self.memo = {}
        self.queries = 0

    def must(self, fid):
        if fid in self.memo:
            return self.memo[fid][0]
        self.memo[fid] = (False, [])
        fn = self.prog.body_of(fid)
        if fn is None:
            return False
        ev = self.events(fn)
        exits = [bb for (bb, kind, _) in exit_defs(fn) if kind in ('ok', 'fwd', 'val') and bb in fn.reachable()]
        if not exits:
            self.memo[fid] = (False, ev)
            return False
        avoid = set(ev)
        if self.excuse:
            avoid |= set(self.excuse(fn))
        reach = fn.reach_from([0], avoid_enter=avoid)
        self.queries += 1
        ok = not any(bb in reach for bb in exits)
        self.memo[fid] = (ok, ev)
        return ok

    def events(self, fn):
        """blocks whose entry means an event has completed successfully"""
        prog = self.prog
        ev = []
        for c in fn.calls:
            if c.bb not in fn.reachable():
                continue
            hit = bool(self.pred(c))
            if not hit:
                tg = [t for t in prog.resolve(c) if t in prog.fns]
                if tg and all((not prog.fns[t].is_coroutine) and t != fn.id and self.must(t) for t in tg):
                    hit = True
                elif tg and all(is_runner(prog, t) for t in tg):
                    for o in c.args:
                        l = op_local(o)
                        if l is None:
                            continue
                        ty = fn.locals[l]
                        if ty.get('h') == 'closure' and self.must(ty['a'][0]):
                            hit = True
            if not hit:
                continue
            ev.extend(self.event_entry(fn, c))
        return ev

    def event_entry(self, fn, c):
        fallible = returns_result(self.prog, c)
        if fallible and self.need_ok:
            ob = ok_block(fn, c)
            if ob is not None:
                return [ob]
            # result forwarded as the function's own result: an Ok exit implies the call was ok
            cb = completion_block(fn, c)
            carry = result_flow(fn, c)
            fwd = [bb for (bb, kind, p) in exit_defs(fn) if kind == 'fwd' and _payload_local(p) in carry]
            if fwd and cb is not None:
                return [cb]
            return []
        cb = completion_block(fn, c)
        return [cb] if cb is not None else []


_RUNNER = {}


def is_runner(prog, gid):
    """g must call its closure parameter and forward the result: g hands a closure K2 that calls the
    parameter (FnOnce::call_once on a generic param) to tokio spawn_blocking / block_in_place, and the
    completion of that hand-off precedes every exit of g."""
    tab = prog.__dict__.setdefault('_runner_memo', {})
    if gid in tab:
        return tab[gid]
    tab[gid] = False
    body = prog.body_of(gid)
    if body is None:
        return False
    k2s = []
    for fid in prog.family(gid):
        f = prog.fns[fid]
        for c in f.calls:
            if c.name in ('call_once', 'call', 'call_mut') and (c.self_ty or {}).get('h') == 'param':
                exits = [bb for (bb, k, _) in exit_defs(f) if bb in f.reachable()]
                if exits and all(f.term_dominates(c.bb, e) for e in exits):
                    k2s.append(fid)
    # forwarding runner: g hands its own closure *parameter* to a runner, and every exit of g follows the completion of such a
    # hand-off (e.g. a helper choosing between the in-place and the blocking-pool runner)
    params = set()
    root = prog.fns.get(gid)
    if root is not None:
        for i in range(1, root.argc + 1):
            if root.locals[i].get('h') == 'param' or root.locals[i]['s'] in [pn for (pn, t) in root.bounds if 'FnOnce' in t or 'Fn(' in t or t.startswith('std::ops::Fn')]:
                params.add(root.locals[i]['s'])
    if params and body is not None:
        carried = set()
        for l, ty in enumerate(body.locals):
            if ty['s'] in params:
                carried.add(l)
        done = []
        for c in body.calls:
            if c.bb not in body.reachable() or c.name == 'poll':
                continue
            direct = c.name in ('spawn_blocking', 'block_in_place') and c.crate == 'tokio'    # `spawn_blocking(f)`: f itself is run
            if any(op_local(a) in carried for a in c.args) and (direct or any(t in prog.fns and t != gid and is_runner(prog, t) for t in prog.resolve(c))):
                cb = completion_block(body, c)
                if cb is not None:
                    done.append(cb)
        exits = [bb for (bb, k, _) in exit_defs(body) if bb in body.reachable()]
        if done and exits and not any(e in body.reach_from([0], avoid_enter=done) for e in exits):
            tab[gid] = True
            return True
    if not k2s:
        return False
    for c in body.calls:
        if c.name in ('spawn_blocking', 'block_in_place') and c.crate == 'tokio':
            passed = [body.locals[op_local(o)]['a'][0] for o in c.args if op_local(o) is not None and body.locals[op_local(o)].get('h') == 'closure']
            if any(k in passed for k in k2s):
                cb = completion_block(body, c)
                exits = [bb for (bb, k, _) in exit_defs(body) if bb in body.reachable()]
                if cb is not None and exits and not any(e in body.reach_from([0], avoid_enter=[cb]) for e in exits):
                    tab[gid] = True
    return tab[gid]


def _payload_local(p):
    if isinstance(p, Call):
        return p.dest[0]
    if isinstance(p, dict) and p.get('k') == 'use':
        return op_local(p['o'])
    return None


def returns_result(prog, c):
    """does the call (after await) produce a Result?"""
    ty = c.fn.locals[c.dest[0]]
    if ty.get('h') == 'std::result::Result':
        return True
    s = ty.get('s', '')
    if 'Output = std::result::Result<' in s or 'Output = Result<' in s:
        return True
    # async fn of the crate: look at the coroutine's return type
    for tgt in prog.resolve(c):
        b = prog.body_of(tgt)
        if b is not None and b.is_coroutine and b.locals[0].get('h') == 'std::result::Result':
            return True
    return False


def dominated_up(prog, fn, bb, events_fn, depth=4, seen=None):
    """Block bb of fn is only entered after one of events_fn(fn) (blocks whose entry establishes the required fact) - in fn itself,
    or, recursively, at every call site of fn in its callers. Returns (ok, witness list)."""
    if seen is None:
        seen = set()
    ev = events_fn(fn)
    if bb not in fn.reach_from([0], avoid_enter=ev):
        return True, []
    target = fn.parent if (fn.is_coroutine and fn.parent in prog.fns) else fn.id
    if depth == 0 or target in seen:
        return False, ['%s: not established (depth limit)' % target]
    cs = [c for c in call_sites_of(prog, target) if c.name != 'poll']
    if not cs:
        p = fn.path([0], [bb], avoid_enter=ev) or []
        return False, ['%s has no callers; unguarded path: %s' % (target, ' '.join('bb%d' % x for x in p[:14]))]
    for c in cs:
        ok, w = dominated_up(prog, c.fn, c.bb, events_fn, depth - 1, seen | {target})
        if not ok:
            return False, ['%s called from %s' % (target, c.where())] + w
    return True, []


# ---- real suspension points ------------------------------------------------
_SUSP = {}


def coroutines_built_by(prog, fid):
    """coroutine bodies a (non-coroutine) function constructs: the body of an async fn, or the `Box::pin(async move {..})`
    of an async_trait stub"""
    f = prog.fns.get(fid)
    if f is None:
        return None
    if f.is_coroutine:
        return [fid]
    out = []
    for b in f.blocks:
        if b['c']:
            continue
        for s in b['s']:
            if s['k'] == 'a' and s['r']['k'] == 'agg' and s['r'].get('ak') == 'coroutine' and s['r'].get('def') in prog.fns:
                out.append(s['r']['def'])
    return out


def await_may_suspend(prog, a):
    """can `a` (an Await of coroutine a.fn) actually return Pending?  False only when every possible awaitee is a coroutine of
    this crate none of whose awaits may suspend (an `async fn` that never reaches a leaf future)."""
    if a.start is None:
        return True
    for t in prog.resolve(a.start):
        if t not in prog.fns:
            return True
        cs = coroutines_built_by(prog, t)
        if not cs:
            return True
        if any(may_suspend(prog, c) for c in cs):
            return True
    return False


def may_suspend(prog, cid):
    tab = prog.__dict__.setdefault('_susp_memo', {})
    if cid in tab:
        return tab[cid]
    tab[cid] = False    # least fixpoint on recursion
    f = prog.fns[cid]
    r = False
    # a bare `yield` that does not belong to an await we understand is a suspension
    ay = set()
    for a in f.awaits():
        if a.yield_bb is not None:
            ay.add(a.yield_bb)
        if await_may_suspend(prog, a):
            r = True
    if any(y not in ay for y in f.yields if y in f.reachable()):
        r = True
    tab[cid] = r
    return r


def real_yields(prog, f):
    """yield blocks of f at which the future can really be suspended (and hence dropped)"""
    out = set()
    known = {}
    for a in f.awaits():
        if a.yield_bb is not None:
            known[a.yield_bb] = a
    for y in f.yields:
        a = known.get(y)
        if a is None or await_may_suspend(prog, a):
            out.add(y)
    return out


def scalar_leaves(prog, f, operand, depth=4, out=None, sites=None, _seen=None):
    """fields / constants / opaque calls a scalar expression is computed from (through arithmetic, comparisons, in-crate helpers)"""
    if out is None:
        out = set()
    if _seen is None:
        _seen = set()
    for o in origins(f, operand, stop_fields=True):
        if o.kind in ('binop', 'unop'):
            k = (f.id, o.kind, o.bb, id(o.data))
            if k in _seen:
                continue    # loop-carried value (`x = x + 1`)
            _seen.add(k)
            for side in ('a', 'b', 'o'):
                if side in o.data:
                    scalar_leaves(prog, f, o.data[side], depth, out, sites, _seen)
        elif o.kind == 'field':
            out.add(('field', o.data[1]))
        elif o.kind == 'const':
            k = o.data
            out.add(('const', k.get('int') if isinstance(k, dict) and 'int' in k else str(k)[:30]))
        elif o.kind == 'call':
            c = o.data
            k = (f.id, 'call', c.bb, depth)
            if k in _seen:
                continue    # loop-carried value (`buf = read(buf)`)
            _seen.add(k)
            tg = [t for t in prog.resolve(c) if t in prog.fns]
            if tg and depth > 0:
                for t in tg:
                    g = prog.body_of(t) or prog.fns[t]
                    decision_leaves(prog, g, depth - 1, out, sites, _seen)
                for a in c.args:
                    scalar_leaves(prog, f, a, depth, out, sites, _seen)
            elif c.name in ('saturating_sub', 'checked_sub', 'wrapping_sub', 'unwrap_or', 'unwrap_or_default', 'min', 'max', 'cmp', 'ge', 'le', 'gt', 'lt', 'eq', 'ne', 'is_ge', 'is_le', 'is_gt', 'is_lt', 'is_eq'):
                if sites is not None:
                    sites.append((c.name, f.id, c.bb))
                for a in c.args:
                    scalar_leaves(prog, f, a, depth, out, sites, _seen)
            else:
                out.add(('call', c.name))
                if sites is not None:
                    sites.append((c.name, f.id, c.bb))
        elif o.kind == 'arg':
            ty = f.locals[o.data]['s'] if isinstance(o.data, int) and o.data < len(f.locals) else '&'
            if not ty.startswith('&') and not ty.startswith('{'):
                out.add(('arg', f.debug_name(o.data) or '_%s' % o.data))
        elif o.kind == 'upvar':
            out.add(('upvar', o.data))
        else:
            out.add((o.kind, str(o.data)[:30]))
    return out


def decision_leaves(prog, f, depth=4, out=None, sites=None, _seen=None):
    """leaves of everything a small pure function's result depends on: the data that flows into the return value and the
    operands of every branch in its body (`a && b` is control flow in MIR)"""
    if out is None:
        out = set()
    if _seen is None:
        _seen = set()
    if ('fn', f.id, depth) in _seen:
        return out
    _seen.add(('fn', f.id, depth))
    scalar_leaves(prog, f, 0, depth, out, sites, _seen)
    aw = {a.switch_bb for a in f.awaits()} if f.is_coroutine else set()
    for i in f.reachable():
        t = f.blocks[i]['t']
        if t['k'] == 'switch' and i not in aw:
            ogs = origins(f, t['o'])
            if ogs and all(o.kind == 'call' and o.data.from_expansion for o in ogs):
                continue    # branches of log / format macros
            scalar_leaves(prog, f, t['o'], depth, out, sites, _seen)
    return out




def _whole_local(o):
    """the local of an operand that names a whole local (no projection), else None"""
    p = op_place(o)
    return p[0] if p is not None and not p[1] else None


def reach_from_cp(f, starts, avoid_exit=(), avoid_enter=(), max_states=20000, _ret_envs=None):
    """Fn.reach_from with a little path sensitivity: integer / bool constants assigned to whole locals (`flag = true`, copies of
    such locals, `Not` of them) are tracked along each path, and a switch on a local whose value is known on that path takes
    only the matching edge.  Decides the correlated-condition idiom
        let required = !only_if || found();   if !required { return .. }
    (the early return is unreachable on the path where `only_if` was false).  Over-approximates like reach_from otherwise."""
    avoid_exit, avoid_enter = set(avoid_exit), set(avoid_enter)
    # only locals whose value can reach a switch operand are tracked (keeps the number of distinct path states small)
    rel = getattr(f, '_cp_relevant', None)
    if rel is None:
        rel = set()
        for i in f.reachable():
            t = f.blocks[i]['t']
            if t['k'] == 'switch' and _whole_local(t['o']) is not None:
                rel.add(_whole_local(t['o']))
        rel.add(0)      # the returned value: an exit that forwards a known `Err` is not an ok exit (ok_exits_cp)
        changed = True
        while changed:
            changed = False
            for i in f.reachable():
                b = f.blocks[i]
                for s in b['s']:
                    if s['k'] == 'a' and not s['d'][1] and s['d'][0] in rel:
                        r = s['r']
                        src = None
                        if r['k'] == 'use' or (r['k'] == 'un' and r.get('op') == 'Not'):
                            src = _whole_local(r['o'])
                            if src is None and r['k'] == 'use' and op_place(r['o']) is not None:
                                src = op_place(r['o'])[0]
                        elif r['k'] == 'agg' and len(r.get('ops', [])) == 1:
                            src = _whole_local(r['ops'][0])
                        elif r['k'] == 'discr' and not r['p'][1]:
                            src = r['p'][0]
                        if src is not None and src not in rel:
                            rel.add(src)
                            changed = True
                t = b['t']
                if t['k'] == 'call' and t.get('d') and not t['d'][1] and t['d'][0] in rel and t['f'].get('name') in ('branch', 'with_context', 'context', 'map_err', 'map', 'inspect_err', 'inspect') and t.get('args'):
                    src = _whole_local(t['args'][0])
                    if src is not None and src not in rel:
                        rel.add(src)
                        changed = True
        f._cp_relevant = rel
    seen = set()
    out = set()
    work = []
    for st in starts:
        if st not in avoid_enter:
            work.append((st, frozenset()))
    n = 0
    while work:
        bb, env = work.pop()
        if (bb, env) in seen:
            continue
        seen.add((bb, env))
        out.add(bb)
        n += 1
        if n > max_states:
            return f.reach_from(starts, avoid_exit=avoid_exit, avoid_enter=avoid_enter, _plain=True)
        if bb in avoid_exit:
            continue
        e = dict(env)
        b = f.blocks[bb]
        for s in b['s']:
            if s['k'] != 'a':
                continue
            d = s['d']
            if d[1]:
                continue
            r = s['r']
            val = None
            if r['k'] == 'use':
                k = op_const(r['o'])
                if k is not None and isinstance(k, dict) and 'int' in k:
                    val = int(k['int'])
                else:
                    l = _whole_local(r['o'])
                    if l is not None and l in e:
                        val = e[l]
                    else:
                        # `move ((poll as Ready).0)`: the remembered payload of a known variant
                        pl = op_place(r['o'])
                        if pl is not None and pl[1] and isinstance(e.get(pl[0]), tuple) and len(e[pl[0]]) > 2 and e[pl[0]][2] is not None \
                           and len([x for x in pl[1] if isinstance(x, dict) and 'f' in x]) == 1 and not [x for x in pl[1] if x == '*']:
                            val = e[pl[0]][2]
            elif r['k'] == 'un' and r.get('op') == 'Not':
                l = _whole_local(r['o'])
                if l is not None and l in e and e[l] in (0, 1):
                    val = 1 - e[l]
            elif r['k'] == 'agg' and r.get('ak') == 'adt' and 'vd' in r and r.get('variant'):
                # `Err(..)`, `Ok(..)`, `Some(..)`: the variant is known on this path; a single payload with a known variant is
                # remembered too (`Poll::Ready(result)` of an inlined async helper)
                inner = None
                if len(r.get('ops', [])) == 1:
                    li = _whole_local(r['ops'][0])
                    if li is not None and isinstance(e.get(li), tuple):
                        inner = e[li]
                val = ('var', r['vd'], inner)
            elif r['k'] == 'discr' and not r['p'][1] and isinstance(e.get(r['p'][0]), tuple):
                val = e[r['p'][0]][1]
            if val is None or d[0] not in rel:
                e.pop(d[0], None)
            else:
                e[d[0]] = val
        t = b['t']
        if t['k'] == 'call' and t.get('d') and not t['d'][1]:
            e.pop(t['d'][0], None)
            # `x?`: Try::branch maps Ok -> Continue, Err -> Break (Some -> Continue, None -> Break)
            nm = t['f'].get('name')
            if nm in ('from_residual', 'from_output') and t['d'][0] in rel:
                # `?` rebuilds the residual: Err / None (from_output: Ok / Some)
                ty = f.locals[t['d'][0]]['s']
                if ty.startswith('std::result::Result'):
                    e[t['d'][0]] = ('var', 1 if nm == 'from_residual' else 0)
                elif ty.startswith('std::option::Option'):
                    e[t['d'][0]] = ('var', 0 if nm == 'from_residual' else 1)
            if nm in ('with_context', 'context', 'map_err', 'map', 'inspect_err', 'inspect') and t.get('args') and t['d'][0] in rel:
                # adapters that keep the variant (`Err` stays `Err`)
                l = _whole_local(t['args'][0])
                if l is not None and isinstance(e.get(l), tuple):
                    e[t['d'][0]] = ('var', e[l][1], None)
            if t['f'].get('name') == 'branch' and t.get('args'):
                l = _whole_local(t['args'][0])
                if l is not None and isinstance(e.get(l), tuple):
                    v = e[l][1]
                    if f.locals[l]['s'].startswith('std::option::Option'):
                        v = 1 - v if v in (0, 1) else None
                    if v is not None:
                        e[t['d'][0]] = ('var', v)
        succ = list(f.succ[bb])
        if t['k'] == 'switch':
            l = _whole_local(t['o'])
            if l is not None and l in e:
                tg = None
                for v, x in t['vals']:
                    if v == e[l]:
                        tg = x
                if tg is None:
                    tg = t['otherwise']
                succ = [tg] if tg in f.succ[bb] else []
        env2 = frozenset(e.items())
        if _ret_envs is not None and bb in _ret_envs:
            _ret_envs[bb].append(dict(e))
        for x in succ:
            if x not in avoid_enter:
                work.append((x, env2))
    return out


def ok_exits_cp(f, starts, avoid_exit=(), avoid_enter=()):
    """ok / forwarding exits of `f` reachable from `starts` on which the returned value is not known to be an `Err` / `None`
    (path-sensitive: the forwarded result of an inlined helper that took its `?` exit is an error exit)"""
    envs = {bb: [] for (bb, k, _p) in exit_defs(f)}
    reach = reach_from_cp(f, starts, avoid_exit=avoid_exit, avoid_enter=avoid_enter, _ret_envs=envs)
    out = []
    for (bb, k, _p) in exit_defs(f):
        if k not in ('ok', 'fwd', 'val') or bb not in reach:
            continue
        if k == 'fwd' and bb in envs and envs[bb]:
            ty = f.locals[0]['s']
            errv = 1 if ty.startswith('std::result::Result') else (0 if ty.startswith('std::option::Option') else None)
            if errv is not None and all(isinstance(ev.get(0), tuple) and ev[0][1] == errv for ev in envs[bb]):
                continue
        out.append(bb)
    return out


def loop_depth(f, bb):
    """number of natural loops of `f` (back edge u -> h with h dominating u) whose body contains `bb`"""
    cache = getattr(f, '_loops', None)
    if cache is None:
        cache = []
        reach = f.reachable()
        preds = {}
        for i in reach:
            for j in f.succ[i]:
                preds.setdefault(j, set()).add(i)
        heads = {}
        for u in reach:
            for h in f.succ[u]:
                if h in reach and f.dominates(h, u):
                    heads.setdefault(h, set()).add(u)
        for h, us in heads.items():
            body = {h}
            stack = [u for u in us]
            while stack:
                x = stack.pop()
                if x in body:
                    continue
                body.add(x)
                stack.extend(preds.get(x, ()))
            cache.append((h, body))
        f._loops = cache
    return sum(1 for (h, body) in cache if bb in body)


def loop_headers_of(f, bb):
    """header blocks of the natural loops whose body contains `bb`"""
    loop_depth(f, bb)
    return [h for (h, body) in f._loops if bb in body]


def access_root(fn, local, hops=8):
    """the local a place base is reached through: follows Deref/DerefMut/as_ref/as_mut calls and `&`/copies back to the
    guard / parameter local (single definitions only). Returns a local number or None."""
    l = local
    while hops > 0:
        hops -= 1
        ds = [x for x in fn.defs().get(l, []) if x[2] in ('assign', 'call', 'arg')]
        if len(ds) != 1:
            return l
        bb, si, kind, payload = ds[0]
        if kind == 'arg':
            return l
        if kind == 'call':
            c = payload
            if c.name in ('deref', 'deref_mut', 'as_ref', 'as_mut', 'borrow', 'borrow_mut') and c.args and op_local(c.args[0]) is not None:
                l = op_local(c.args[0])
                continue
            return l
        r = payload
        if r['k'] == 'ref':
            l = r['p'][0]
            continue
        if r['k'] == 'use' and op_place(r['o']) is not None and not [e for e in op_place(r['o'])[1] if e != '*']:
            l = op_place(r['o'])[0]
            continue
        return l
    return l


def deciding_switches(f, target_bb):
    """switch blocks that decide whether `target_bb` is reached: one out-edge can reach it (without passing the switch again),
    another cannot.  The Ready/Pending switches of awaits are not decisions."""
    aw = {a.switch_bb for a in f.awaits()} if f.is_coroutine else set()
    out = []
    for i in sorted(f.reachable()):
        t = f.blocks[i]['t']
        if t['k'] != 'switch' or i in aw:
            continue
        if target_bb not in f.reach_from([i]):
            continue
        outs = [tg for _, tg in t['vals']] + [t['otherwise']]
        outs = [x for x in outs if x is not None and f.blocks[x]['t']['k'] != 'unreachable']
        rr = [target_bb in f.reach_from([x], avoid_enter=[i]) for x in outs]
        if any(rr) and not all(rr):
            out.append(i)
    return out


def switch_kind(f, i):
    """coarse classification of what a switch tests: 'try' (the Continue/Break of `?`), 'result' / 'option' (discriminant of
    such a value), 'enum:<adt>' or 'value' (with the origins of the operand)"""
    t = f.blocks[i]['t']
    l = op_local(t['o'])
    for (bb, si, kind, r) in f.defs().get(l, []):
        if kind == 'assign' and r['k'] == 'discr':
            ty = place_type_str(f, r['p']) or f.locals[r['p'][0]]['s']
            ty = ty.lstrip('&')
            if ty.startswith('std::ops::ControlFlow'):
                return 'try', ty
            if ty.startswith('std::result::Result'):
                return 'result', ty
            if ty.startswith('std::option::Option'):
                return 'option', ty
            return 'enum', ty
    return 'value', origins(f, t['o'])
