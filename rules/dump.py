#!/usr/bin/env python3
"""debug helper: python3 rules/dump.py <facts.json> <regex> [--calls]"""
import sys, re, json
sys.path.insert(0, __file__.rsplit('/',1)[0])
import core
def opstr(o):
    if 'k' in o:
        k=o['k']
        if 'fn' in k: return 'fn:'+k['fn'].get('full','?')
        if 'int' in k: return 'const %s'%k['int']
        if 'str' in k: return 'const %r'%k['str']
        if 'item' in k: return 'const<%s>'%k['item']
        return 'const:'+k['ty'][:30]
    p=core.op_place(o); return ('move ' if 'm' in o else '')+core.place_str(p)
def rv(r):
    k=r['k']
    if k=='use': return opstr(r['o'])
    if k=='ref': return '&%s%s'%('mut ' if r['m']=='m' else '',core.place_str(r['p']))
    if k=='agg':
        h=r.get('adt') or r.get('def') or r.get('ak')
        if r.get('variant'): h+='::'+r['variant']
        return '%s(%s)'%(h,', '.join(opstr(o) for o in r['ops']))
    if k=='bin': return '%s(%s, %s)'%(r['op'],opstr(r['a']),opstr(r['b']))
    if k=='un': return '%s(%s)'%(r['op'],opstr(r['o']))
    if k=='cast': return '%s as %s'%(opstr(r['o']),r['ty'][:40])
    if k=='discr': return 'discr(%s)'%core.place_str(r['p'])
    return k
def dump(fn, calls_only=False):
    print('=== %s  [%s:%d] kind=%s cor=%s argc=%d blocks=%d'%(fn.id,fn.file,fn.line,fn.kind,fn.is_coroutine,fn.argc,fn.n))
    reach=fn.reachable()
    for i,b in enumerate(fn.blocks):
        if b['c']: continue
        t=b['t']
        if calls_only and t['k'] not in('call','yield','return','switch'): continue
        tag='' if i in reach else ' (unreach)'
        print(' bb%d%s:'%(i,tag))
        if not calls_only:
            for s in b['s']:
                if s['k']=='a': print('     %s = %s   // L%d'%(core.place_str(s['d']),rv(s['r']),s['l']))
        k=t['k']
        if k=='call':
            c=fn.call_at(i)
            print('     %s = CALL %s(%s) -> bb%s   // L%d%s'%(core.place_str(c.dest),c.full,', '.join(opstr(o) for o in c.args),t['t'],c.line,' [exp]' if c.from_expansion else ''))
        elif k=='switch':
            print('     switch %s %s else bb%d'%(opstr(t['o']),t['vals'],t['otherwise']))
        elif k=='yield':
            print('     YIELD -> resume bb%d drop bb%s'%(t['resume'],t['drop']))
        elif k=='drop':
            print('     drop(%s) -> bb%d'%(core.place_str(t['p']),t['t']))
        elif k=='goto': print('     goto bb%d'%t['t'])
        else: print('     '+k)
if __name__=='__main__':
    prog=core.Program(sys.argv[1])
    for f in prog.find(sys.argv[2]):
        dump(f,'--calls' in sys.argv)
        if '--locals' in sys.argv:
            for i,l in enumerate(f.locals): print('   _%d: %s %s'%(i,l['s'],f.debug_name(i) or ''))
