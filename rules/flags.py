"""Acquire/release pairing of boolean `in progress` / `requested` flags (AtomicBool fields of shared structures).

A flag that suppresses work while it is set (fsync_in_progress: a second sync is skipped; a `request pending` flag: further
requests are not sent) must be released on every path after it was acquired, otherwise the suppressed work never happens again.
"""
import core
import prims
from core import op_local, op_const


def bool_flag_sites(prog):
    """field name -> {'set': [(fn, call)], 'clr': [(fn, call)], 'load': [...]} for AtomicBool fields of in-crate ADTs"""
    out = {}
    for f in prog.fns.values():
        for c in f.calls:
            if not c.path.startswith('std::sync::atomic::Atomic::<bool>'):
                continue
            fld = prims.receiver_field(f, c)
            if not fld:
                continue
            d = out.setdefault(fld, {'set': [], 'clr': [], 'load': []})
            if c.name == 'load':
                d['load'].append((f, c))
            elif c.name in ('store', 'swap'):
                v = core.const_int(prog, op_const(c.args[1])) if len(c.args) > 1 else None
                if v == 1:
                    d['set'].append((f, c))
                elif v == 0:
                    d['clr'].append((f, c))
                else:
                    d['set'].append((f, c))
                    d['clr'].append((f, c))
            elif c.name in ('compare_exchange', 'compare_exchange_weak'):
                new = core.const_int(prog, op_const(c.args[2])) if len(c.args) > 2 else None
                (d['set'] if new == 1 else d['clr']).append((f, c))
            elif c.name in ('fetch_or',):
                d['set'].append((f, c))
            elif c.name in ('fetch_and',):
                d['clr'].append((f, c))
    return out


def drop_guards_for(prog, field_sites):
    """ADTs whose Drop impl stores false into an AtomicBool reached through one of their fields: RAII release guards.
    returns {adt path: drop fn id}"""
    out = {}
    for im in prog.impls:
        if im['trait'] != 'std::ops::Drop':
            continue
        for it in im['items']:
            f = prog.fns.get(it['def'])
            if not f:
                continue
            for c in f.calls:
                if c.path.startswith('std::sync::atomic::Atomic::<bool>') and c.name == 'store' and len(c.args) > 1 and core.const_int(prog, op_const(c.args[1])) == 0:
                    out[im['self'].get('h')] = f.id
    return out


def success_start(f, c):
    """block entered when the acquire succeeded.
    compare_exchange(..).is_err() -> the false edge; .is_ok() -> the true edge; swap(true) negated result used as condition."""
    carry = core.flows_forward(f, c.dest[0], transparent=core.fwd_transparent)
    for x in f.calls:
        if x.name in ('is_err', 'is_ok') and x.args and op_local(x.args[0]) in carry:
            cc = core.flows_forward(f, x.dest[0])
            for j in f.reachable():
                t = f.blocks[j]['t']
                if t['k'] == 'switch' and op_local(t['o']) in cc:
                    tt = ff = None
                    for v, tg in t['vals']:
                        if v == 0:
                            ff = tg
                        else:
                            tt = tg
                    if tt is None:
                        tt = t['otherwise']
                    if ff is None:
                        ff = t['otherwise']
                    return ff if x.name == 'is_err' else tt
    if c.name.startswith('compare_exchange') or c.name == 'fetch_update':
        # `match flag.compare_exchange(..) { Ok(_) => .., Err(_) => .. }`: the Ok edge of the result
        ob = core.ok_block(f, c)
        if ob is not None:
            return ob
    return c.t['t']


def check_pairing(prog, field, sites, guards):
    """yields (ok, key, where, detail)"""
    res = []
    set_fns = {}
    for (f, c) in sites['set']:
        set_fns.setdefault(f.id, []).append((f, c))
    clr_fns = {}
    for (f, c) in sites['clr']:
        clr_fns.setdefault(f.id, []).append((f, c))
    # Drop-guard bodies are release sites of their own kind: ignore them as "functions containing a clear"
    guard_drop_fns = set(guards.values())
    released_locally = False
    for fid, lst in set_fns.items():
        f = lst[0][0]
        # releases in this body: explicit clears and constructions of a guard ADT
        rel = [c.bb for (g, c) in clr_fns.get(fid, [])]
        for i, b in enumerate(f.blocks):
            if b['c']:
                continue
            for s in b['s']:
                if s['k'] == 'a' and s['r']['k'] == 'agg' and s['r'].get('adt') in guards:
                    rel.append(i)
        for (_, c) in lst:
            key = 'flag-released|%s|%s' % (field, prog.fns[fid].root)
            if not rel:
                res.append((None, key, c.where(), 'set here, released elsewhere'))
                continue
            released_locally = True
            start = success_start(f, c)
            region = f.reach_from([start], avoid_exit=rel)
            exits = [bb for (bb, k, _) in core.exit_defs(f) if bb in region and bb not in rel]
            # guard constructions cover every later exit including cancellation; explicit clears do not cover yields before them
            explicit = [c2.bb for (g, c2) in clr_fns.get(fid, [])]
            guard_blocks = [x for x in rel if x not in explicit]
            ys = []
            if f.is_coroutine:
                region2 = f.reach_from([start], avoid_exit=guard_blocks)
                ys = [y for y in f.yields if y in region2 and not any(f.dominates(g, y) for g in guard_blocks)]
            if exits:
                res.append((False, key, c.where(), 'after the flag `%s` was set an exit of the function is reachable without releasing it: the work it guards is skipped for ever after' % field,
                            ['bb%d %s' % (b, f.where(b)) for b in (f.path([start], exits, avoid_exit=rel) or [])]))
            elif ys and explicit and not guard_blocks:
                res.append((False, key, f.where(ys[0]), 'the flag `%s` is released by an explicit store after suspension points: a dropped future leaves it set' % field, []))
            else:
                res.append((True, key, c.where(), 'released on every exit (%s)' % ('drop guard' if guard_blocks else 'explicit clear')))
    if sites['set'] and not released_locally:
        # cross-function protocol: every function that clears the flag must clear it on every exit path
        if not sites['clr']:
            f, c = sites['set'][0]
            res.append((False, 'flag-released|%s|nowhere' % field, c.where(), 'the flag `%s` is set but never cleared' % field, []))
        for fid, lst in clr_fns.items():
            if fid in guard_drop_fns:
                continue
            f = lst[0][0]
            rel = [c.bb for (_, c) in lst]
            key = 'flag-always-cleared|%s|%s' % (field, prog.fns[fid].root)
            # trivial setter helpers (a function whose only job is the clear) are transparent: look at their callers
            body_calls = [x for x in f.calls if x.bb in f.reachable()]
            if len(body_calls) <= 2 and not f.is_coroutine:
                for cs in core.call_sites_of(prog, fid):
                    g = cs.fn
                    exits = [bb for (bb, k, _) in core.exit_defs(g) if bb in g.reachable()]
                    region = g.reach_from([0], avoid_exit=[cs.bb])
                    badx = [e for e in exits if e in region and e != cs.bb]
                    k2 = 'flag-always-cleared|%s|%s' % (field, prog.fns[g.id].root)
                    if badx:
                        res.append((False, k2, cs.where(), 'the handler clears the flag `%s` only on some of its paths: when the request does not apply (or fails) the flag stays set and no further request is ever sent' % field,
                                    ['bb%d %s' % (b, g.where(b)) for b in (g.path([0], badx, avoid_exit=[cs.bb]) or [])]))
                    else:
                        res.append((True, k2, cs.where(), 'cleared on every exit of the handler'))
                continue
            exits = [bb for (bb, k, _) in core.exit_defs(f) if bb in f.reachable()]
            region = f.reach_from([0], avoid_exit=rel)
            badx = [e for e in exits if e in region and e not in rel]
            if badx:
                res.append((False, key, lst[0][1].where(), 'the flag `%s` is cleared only on some paths of this function' % field, []))
            else:
                res.append((True, key, lst[0][1].where(), 'cleared on every exit'))
    return res
