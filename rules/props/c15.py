"""C15 Accounting."""
import core
import prims
import blobs
from core import op_local, op_const
from engine import Rule

EXPLANATION = (
    "A1: every path through IndexStruct::push that inserts a header into the in-memory map passes register_record_allocation exactly "
    "on the ok path, and the loader seeds the in-memory count from the count recorded by the index file (provenance of the count "
    "argument of InMemoryData::new reaches FileIndexTrait::get_records_headers / the header's records_count, never a len() of the "
    "key map). A2: sibling agreement - every accessor of HierarchicalFilters.children that reports a quantity or an element treats "
    "empty (removed) slots as absent (flatten / Option test), none reports the raw vector length. A3: the corrupted-blob counter is "
    "only stored during exclusive initialisation and its increment in read_blobs is dominated by the ok edge of the quarantine "
    "rename. A4: a blob file created for the active slot is always installed or returned: from the ok edge of Blob::open_new every "
    "path to an ok exit passes a store into the active slot / replace_active_blob or returns the blob (no orphan file with a "
    "consumed id). Decides this bookkeeping structure, not equality of every gauge with the history.")
EXPLANATION += (" " + 'A7 = moved-out blobs are handed back on every non-error exit; A8 = C04.T7; A1 additionally checks the count the loaders return.')
EXPLANATION += (" " + 'A9 = C03.I2.')
ASSUMPTIONS = []


def loader_returns_count(ctx, rid):
    prog = ctx.prog
    # (b') what the loaders return as the count: the header's records_count, not a property of the rebuilt key map
    m = 0
    for im in [f for f in prog.fns.values() if f.id.endswith('FileIndexTrait<K>>::get_records_headers')]:
        for fid in prog.family(im.id):
            g = prog.fns[fid]
            for i, b in enumerate(g.blocks):
                if b['c'] or i not in g.reachable():
                    continue
                for st in b['s']:
                    if st['k'] != 'a' or st['r']['k'] != 'agg' or st['r'].get('ak') != 'tuple' or len(st['r']['ops']) != 2:
                        continue
                    ty = core.place_type_str(g, st['d']) or ''
                    if not (ty.startswith('(') and ty.rstrip().endswith('usize)') and 'BTreeMap' in ty):
                        continue
                    m += 1
                    key = 'loader-returns-file-count|%s' % im.id
                    op = st['r']['ops'][1]
                    leafs = core.field_leaf_names(g, op)
                    flds = leafs == {'records_count'}
                    other = [] if flds else core.origins(g, op)
                    if flds and not other:
                        ctx.ok(rid, key, g.where(i), 'the returned count is header.records_count')
                    else:
                        ctx.bad(rid, key, g.where(i), 'the count returned next to the rebuilt header map is not the records_count of the index header (origins: %s): after a reload the record count of the blob differs from the number of records stored in it' % other[:3])
    if m < 2:
        raise core.AnchorLost('(headers, count) results of get_records_headers: %d' % m)


def a1(ctx, rid):
    prog = ctx.prog
    # (a) push: insertion into headers map => register_record_allocation
    pushes = [f for f in prog.fns.values() if f.id.endswith('IndexTrait<K>>::push') and 'IndexStruct' in f.id]
    if not pushes:
        raise core.AnchorLost('IndexStruct::push')
    for f in pushes:
        inserts = prims.header_insert_sites(prog, f)
        regs = [c for c in f.calls if c.name == 'register_record_allocation']
        if len(inserts) < 2:
            raise core.AnchorLost('insert sites in push: %d' % len(inserts))
        exits = [bb for (bb, k, _) in core.exit_defs(f) if k in ('ok', 'fwd', 'val') and bb in f.reachable()]
        for (c, ikind) in inserts:
            key = 'count-on-insert|%s|%s' % (f.id, {'vec': 'vec', 'map': 'collections'}[ikind])
            reach = f.reach_from([c.t['t']], avoid_exit=[r.bb for r in regs])
            if any(e in reach for e in exits):
                ctx.bad(rid, key, c.where(), 'a header is inserted into the in-memory index on a path that does not register it in the record count')
            else:
                ctx.ok(rid, key, c.where(), 'register_record_allocation passed on every path from the insertion to the ok-return')
        # each path registers at most once: no register call reachable from another
        for r in regs:
            again = [r2 for r2 in regs if r2.bb in f.reach_from(f.after(r.bb))]
            if again:
                ctx.bad(rid, 'count-once|%s' % f.id, r.where(), 'register_record_allocation can run twice for one push')
    # register_record_allocation increments by exactly 1
    reg = prog.fns.get('blob::index::core::InMemoryData::<K>::register_record_allocation')
    if reg is None:
        raise core.AnchorLost('register_record_allocation')
    incs = []
    for b in reg.blocks:
        for s in b['s']:
            if s['k'] == 'a' and s['r']['k'] == 'bin' and s['r']['op'] in ('AddWithOverflow', 'Add'):
                for o in (s['r']['a'], s['r']['b']):
                    k = op_const(o)
                    if k and 'int' in k:
                        incs.append(k['int'])
    names = []
    for b in reg.blocks:
        for s in b['s']:
            if s['k'] == 'a':
                nm = core.place_fields(s['d'])
                if nm and nm[-1] == 'records_count':
                    names.append(nm)
    if 1 in incs and names:
        ctx.ok(rid, 'increment-by-one', reg.where(), 'records_count += 1')
    else:
        ctx.bad(rid, 'increment-by-one', reg.where(), 'register_record_allocation does not add the constant 1 to records_count')
    # (b) loader: count argument of InMemoryData::new
    n = 0
    for f in prog.fns.values():
        for c in f.calls:
            if not any(t == 'blob::index::core::InMemoryData::<K>::new' for t in prog.resolve(c)):
                continue
            n += 1
            key = 'loader-count|%s' % prog.fns[f.id].root
            ogs = core.origins_deep(prog, f, c.args[1], depth=1) if len(c.args) > 1 else []
            calls = [o.data for o in ogs if o.kind == 'call']
            good = [x for x in calls if x.name in ('get_records_headers', 'records_count')]
            lens = [x for x in calls if x.name in ('len', 'count') and x not in good]
            if good and not lens:
                ctx.ok(rid, key, c.where(), 'count comes from the index file (%s)' % good[0].name)
            else:
                ctx.bad(rid, key, c.where(), 'the in-memory record count is not seeded from the count recorded in the index file (origins: %s)' % [x.full[:60] for x in calls])
    loader_returns_count(ctx, rid)
    newf = prog.fns.get('blob::index::core::InMemoryData::<K>::new')
    if newf is None or n < 1:
        raise core.AnchorLost('InMemoryData::new / its callers')
    for (f, bb, o, how) in core.field_sources(prog, 'blob::index::core::MemoryAttrs', 'records_count'):
        if f.id != newf.id:
            continue
        ogs = core.origins(f, o)
        if all(og.kind == 'arg' for og in ogs) and ogs:
            ctx.ok(rid, 'ctor-count-is-parameter', f.where(bb), 'records_count field = the count parameter')
        else:
            ctx.bad(rid, 'ctor-count-is-parameter', f.where(bb), 'InMemoryData::new derives records_count from %s instead of the count handed in by the loader' % ogs)


def a2(ctx, rid):
    prog = ctx.prog
    n = 0
    for f in prog.fns.values():
        if f.file != 'src/filter/hierarchical.rs' or not (f.impl_self or {}).get('h', '').endswith('HierarchicalFilters'):
            continue
        if f.root != f.id or not f.is_pub:
            continue
        # public accessor that reads self.children
        reads = []
        fam = prog.family(f.id)
        for fid in fam:
            g = prog.fns[fid]
            for i, b in enumerate(g.blocks):
                if b['c']:
                    continue
                for s in b['s']:
                    if s['k'] == 'a':
                        for p in core.rvalue_places(s['r']):
                            if 'children' in core.place_fields(p) and core.place_base_adt(g, [p[0], p[1][:[j for j, e in enumerate(p[1]) if isinstance(e, dict) and e.get('n') == 'children'][0] + 1]]) == 'filter::hierarchical::HierarchicalFilters':
                                reads.append((g, i))
        if not reads:
            continue
        ret = f.locals[0]['s']
        mutating = f.argc >= 1 and f.locals[1]['s'].startswith('&mut')
        # quantity accessors: return usize
        if ret == 'usize' and not mutating:
            n += 1
            key = 'slot-aware|%s' % f.id
            calls = [c for fid in fam for c in prog.fns[fid].calls]
            raw_len = [c for c in calls if c.name == 'len' and c.path.startswith('std::vec::Vec') and prims.receiver_field(c.fn, c) == 'children']
            flat = [c for c in calls if c.name in ('flatten', 'flat_map', 'filter_map', 'filter', 'is_some', 'as_ref')]
            # is the raw length what is returned?
            ogs = core.origins(prog.body_of(f.id), 0)
            returns_len = any(o.kind == 'call' and o.data in raw_len for o in ogs)
            if returns_len and not flat:
                ctx.bad(rid, key, f.where(), 'a public quantity accessor returns the raw length of the children vector: removed (None) slots are counted (blobs_count is too high after restore/pop)')
            else:
                ctx.ok(rid, key, f.where(), 'does not report the raw vector length')
        elif not mutating and ('Option<&' in ret or 'Iterator' in ret or 'Vec<' in ret):
            n += 1
            key = 'slot-aware|%s' % f.id
            calls = [c for fid in fam for c in prog.fns[fid].calls]
            aware = [c for c in calls if c.name in ('flatten', 'flat_map', 'filter_map', 'as_ref', 'get_child', 'last_id', 'is_none', 'is_some')]
            if aware:
                ctx.ok(rid, key, f.where(), 'tests / flattens the Option slots')
            else:
                ctx.bad(rid, key, f.where(), 'an element accessor of the children vector does not test for empty slots')
    if n < 4:
        raise core.AnchorLost('children accessors: %d' % n)


def a3(ctx, rid):
    prog = ctx.prog
    n = 0
    for f in prog.fns.values():
        for c in f.calls:
            if not c.path.startswith('std::sync::atomic::Atomic') or prims.receiver_field(f, c) != 'corrupted_blobs':
                continue
            n += 1
            key = 'corrupted_blobs.%s|%s' % (c.name, prog.fns[f.id].root)
            if c.name == 'load':
                ctx.ok(rid, key, c.where(), 'read', nontrivial=False)
                continue
            root = prog.fns[prog.fns[f.id].root]
            excl = core.runs_exclusive(prog, root.id)
            if c.name == 'store' and excl:
                ctx.ok(rid, key, c.where(), 'stored during exclusive initialisation')
            else:
                ctx.bad(rid, key, c.where(), 'corrupted-blob counter modified by `%s` outside initialisation' % c.name)
    # the per-session increment in read_blobs follows a successful quarantine
    rb = prog.body_of('storage::core::Storage::<K>::read_blobs')
    if rb is None:
        raise core.AnchorLost('read_blobs')
    saves = [c for c in rb.calls if 'storage::core::Storage::<K>::save_corrupted_blob' in prog.resolve(c)]
    okb = [core.ok_block(rb, c) for c in saves]
    okb = [x for x in okb if x is not None]
    incs = []
    for i, b in enumerate(rb.blocks):
        if b['c'] or i not in rb.reachable():
            continue
        for s in b['s']:
            if s['k'] == 'a' and s['r']['k'] == 'bin' and s['r']['op'] in ('AddWithOverflow', 'Add'):
                dn = rb.debug_name(op_local(s['r']['a'])) if op_local(s['r']['a']) is not None else None
                if dn == 'corrupted':
                    incs.append(i)
    if not incs or not okb:
        raise core.AnchorLost('quarantine counter increment / save_corrupted_blob in read_blobs')
    reach = rb.reach_from([0], avoid_enter=okb)
    for i in incs:
        if i in reach:
            ctx.bad(rid, 'count-after-quarantine', rb.where(i), 'the new-corrupted-blob count is incremented on a path where the quarantine rename did not succeed')
        else:
            ctx.ok(rid, 'count-after-quarantine', rb.where(i), 'increment dominated by the ok edge of save_corrupted_blob')
    if n < 3:
        raise core.AnchorLost('corrupted_blobs uses: %d' % n)


def a4(ctx, rid):
    prog = ctx.prog
    n = 0
    OPEN_NEW = 'blob::core::Blob::<K>::open_new'
    for f in prog.fns.values():
        if not f.file.startswith('src/storage/'):
            continue
        for c in f.calls:
            if not blobs.is_fresh_call(prog, c) or c.name == 'poll':
                continue
            n += 1
            key = 'created-blob-installed|%s' % prog.fns[f.id].root
            ob = core.ok_block(f, c)
            carry = core.result_flow(f, c)
            if ob is None:
                # result forwarded as the function's own result
                if any(p is not None and core._payload_local(p) in carry for (bb, k, p) in core.exit_defs(f) if k == 'fwd'):
                    ctx.ok(rid, key, c.where(), 'the created blob is returned to the caller')
                else:
                    ctx.bad(rid, key, c.where(), 'result of Blob::open_new neither checked nor returned')
                continue
            sinks = set()
            for i, b in enumerate(f.blocks):
                if b['c']:
                    continue
                for s in b['s']:
                    if s['k'] == 'a':
                        names = core.place_fields(s['d'])
                        if names and names[-1] == 'active_blob' and any(p[0] in carry for p in core.rvalue_places(s['r'])):
                            sinks.add(i)
                        if s['d'][0] == 0 and not s['d'][1] and any(p[0] in carry for p in core.rvalue_places(s['r'])):
                            sinks.add(i)   # returned (Ok(blob))
                        if s['r']['k'] == 'agg' and s['r'].get('adt') == 'std::option::Option' and any(op_local(o) in carry for o in s['r']['ops']):
                            carry.add(s['d'][0])
            # second pass for values wrapped after the first pass
            for i, b in enumerate(f.blocks):
                if b['c']:
                    continue
                for s in b['s']:
                    if s['k'] == 'a':
                        names = core.place_fields(s['d'])
                        if names and names[-1] == 'active_blob' and any(p[0] in carry for p in core.rvalue_places(s['r'])):
                            sinks.add(i)
                        if s['d'][0] == 0 and not s['d'][1] and any(p[0] in carry for p in core.rvalue_places(s['r'])):
                            sinks.add(i)
            for c2 in f.calls:
                if any(op_local(a) in carry for a in c2.args) and any(t.endswith('Safe::<K>::replace_active_blob') for t in prog.resolve(c2)):
                    sinks.add(c2.bb)
            exits = [bb for (bb, k, _) in core.exit_defs(f) if k in ('ok', 'fwd', 'val') and bb in f.reachable()]
            reach = f.reach_from([ob], avoid_exit=sinks)
            badx = [e for e in exits if e in reach and e not in sinks]
            if badx:
                ctx.bad(rid, key, c.where(), 'a blob file is created (and an id consumed) but on some path to the ok-return it is neither installed as active nor returned: an orphan blob file remains and the counts disagree with the files',
                        witness=['bb%d %s' % (b, f.where(b)) for b in (f.path([ob], badx, avoid_exit=sinks) or [])])
            else:
                ctx.ok(rid, key, c.where(), 'installed into the active slot / handed to replace_active_blob / returned on every ok path')
    if n < 4:
        raise core.AnchorLost('Blob::open_new call sites in storage: %d' % n)


GAUGES = ('storage::core::Storage::<K>::blobs_count', 'storage::core::Storage::<K>::records_count', 'storage::core::Storage::<K>::records_count_detailed',
          'storage::core::Storage::<K>::records_count_in_active_blob', 'storage::core::Storage::<K>::disk_used')


def a5(ctx, rid):
    import waitfor
    prog = ctx.prog
    W = waitfor.WaitFor(prog)

    def acquires_safe(c, f):
        acq = waitfor.acquisition(c)
        if acq and acq[2] == 'storage::core::Safe':
            return True
        if c.name == 'poll':
            return False
        for t in prog.resolve(c):
            if t in prog.fns and any(n[0] == 'LOCK' and n[2] == 'storage::core::Safe' for n in W.may.get(t, ())):
                return True
        return False

    for g in GAUGES:
        if g not in prog.fns:
            raise core.AnchorLost(g)
        f = prog.body_of(g)
        ev = [c for c in f.calls if c.bb in f.reachable() and acquires_safe(c, f)]
        key = 'one-snapshot|' + g
        twice = None
        for e1 in ev:
            after = f.reach_from(f.after(e1.bb))
            for e2 in ev:
                if e2.bb != e1.bb and e2.bb in after:
                    twice = (e1, e2)
        fam = [prog.fns[x] for x in prog.family(prog.fns[f.id].root)]
        tries = [c for h in fam for c in h.calls if c.bb in h.reachable() and c.name in ('try_read', 'try_write', 'try_lock', 'try_upgradable_read')]
        if tries:
            ctx.bad(rid, key, tries[0].where(), 'the gauge answers from `%s`: under contention (an index dump holds the list for its whole duration) it reports a remembered or partial value that does not describe the files on disk' % tries[0].name)
            continue
        if not ev:
            ctx.bad(rid, key, f.where(), 'the gauge does not take the storage lock')
        elif twice:
            ctx.bad(rid, key, twice[1].where(), 'the gauge takes the storage lock twice (%s, then %s): a close/restore/rotation can run in between and the reported number never existed' % (twice[0].name, twice[1].name))
        else:
            ctx.ok(rid, key, ev[0].where(), 'a single acquisition of the storage lock covers all reads')


def a6(ctx, rid):
    """next_blob_id accounting (C07.H6 / H6d instances): ids of opened, failed and quarantined blobs all feed the counter"""
    import props.c07 as c07
    c07.h6(ctx, rid)
    c07.h6d(ctx, rid)


def a7(ctx, rid):
    import moveout
    moveout.dropped_rule(ctx, rid)


def a8(ctx, rid):
    import props.c04 as c04
    c04.t7(ctx, rid)


def a9(ctx, rid):
    """the record count of a reopened blob comes from its index file only when that file passed the gate (C03.I2 instances:
    blob size by equality etc.)"""
    import props.c03 as c03
    c03.i2(ctx, rid)


def a10(ctx, rid):
    """the record count of a blob equals the number of records appended to it: the per-key header vectors of the in-memory index
    only grow (insert in push) or are reset as a whole (clear, followed by regeneration).  No element is removed from a vector
    reached through a mutable accessor of the header map (values_mut / get_mut / iter_mut / entry) - the serializer derives the
    on-disk records_count from the vector lengths, so pruning before a dump makes the count drop below the records in the blob
    and differ between a dumped and a regenerated index."""
    prog = ctx.prog
    REM = ('retain', 'retain_mut', 'remove', 'truncate', 'drain', 'pop', 'clear', 'dedup', 'dedup_by', 'dedup_by_key', 'split_off', 'swap_remove', 'pop_first', 'pop_last')
    ACC = ('values_mut', 'get_mut', 'iter_mut', 'entry', 'or_insert', 'or_insert_with', 'or_default', 'last_mut', 'first_mut', 'last_entry', 'first_entry')
    n = 0
    bad = 0
    for f in prog.fns.values():
        if f.file != 'src/blob/index/core.rs':
            continue
        for c in f.calls:
            if c.bb not in f.reachable():
                continue
            if c.name in ACC and ('BTreeMap' in c.path or 'btree_map' in c.path):
                n += 1
            if c.name in REM and (c.path.startswith('std::vec::Vec') or 'BTreeMap' in c.path or 'slice' in c.path) and 'record::record::Header' in c.full:
                def ext(x):
                    return 0 if x.name in ('next', 'next_back', 'into_iter', 'rev', 'skip', 'take', 'filter', 'unwrap', 'expect', 'deref_mut', 'as_mut', 'as_mut_slice') else None
                ogs = core.origins(f, c.args[0], extra_transparent=ext)
                via = [o for o in ogs if o.kind == 'call' and o.data.name in ACC]
                if via:
                    bad += 1
                    ctx.bad(rid, 'headers-only-grow|%s|%s' % (prog.fns[f.id].root, c.name), c.where(), '`%s` removes headers from a per-key vector of the in-memory index (reached through `%s`): the index no longer lists every record of the blob, records_count (derived from the vector lengths at the next dump) drops below the number of appended records' % (c.name, via[0].data.name))
    if n < 1:
        raise core.AnchorLost('mutable accessors of the header map in src/blob/index/core.rs: %d' % n)
    if not bad:
        ctx.ok(rid, 'headers-only-grow|scan', '', '%d mutable accesses to the header map, none followed by an element removal' % n, queries=n)


def _option_aggs(f, operand, depth=6, seen=None):
    """the `Some(..)` / `None` aggregates an Option-typed operand is copied from (through plain copies and the payload of a
    `Poll::Ready`); [] when some definition is anything else"""
    if seen is None:
        seen = set()
    p = core.op_place(operand)
    if p is None or depth <= 0:
        return []
    l = p[0]
    if l in seen:
        return []
    seen.add(l)
    out = []
    for (bb, si, kind, r) in f.defs().get(l, []):
        if bb not in f.reachable():
            continue
        if kind != 'assign':
            return []
        if r['k'] == 'use':
            sub = _option_aggs(f, r['o'], depth - 1, seen)
            if not sub:
                return []
            out += sub
        elif r['k'] == 'agg' and r.get('adt') == 'std::task::Poll' and r.get('ops'):
            sub = _option_aggs(f, r['ops'][0], depth - 1, seen)
            if not sub:
                return []
            out += sub
        elif r['k'] == 'agg' and r.get('adt') == 'std::option::Option':
            out.append((bb, r))
        else:
            return []
    return out


def a11(ctx, rid):
    """records_count_in_active_blob is None exactly when there is no active blob: every Some answer is produced on the Some edge
    of a test of the active-blob slot (or is a projection of that slot), never taken from a list that also describes closed
    blobs (after try_close_active_blob the last entry of the detailed counts is a closed blob)"""
    prog = ctx.prog
    n = 0
    for f in prog.fns.values():
        root = prog.fns[f.id].root
        if not root.endswith('::records_count_in_active_blob') or not f.is_coroutine:
            continue
        n += 1
        key = 'some-only-with-active-blob|%s' % root
        slot_edges = []
        for i in f.reachable():
            t = f.blocks[i]['t']
            if t['k'] != 'switch':
                continue
            for (bb, si, kind, r) in f.defs().get(op_local(t['o']), []):
                if kind == 'assign' and r['k'] == 'discr':
                    ogs = core.origins(f, {'c': r['p']}, stop_fields=True)
                    if ogs and all(o.kind == 'field' and o.data[1] == 'active_blob' for o in ogs):
                        slot_edges += [tg for v, tg in t['vals'] if v == 1]
        bad = None
        ret_calls = [o.data for o in core.origins(f, 0) if o.kind == 'call']
        if ret_calls and all(any(t.endswith('::records_count_in_active_blob') and t != root for t in prog.resolve(c)) for c in ret_calls) \
           and all(o.kind == 'call' for o in core.origins(f, 0)):
            ctx.ok(rid, key, f.where(), 'delegates to another records_count_in_active_blob (checked as its own instance)', nontrivial=False)
            continue
        for (bb, si, kind, r) in f.defs().get(0, []):
            if bb not in f.reachable():
                continue
            if kind == 'assign' and r['k'] == 'agg' and r.get('adt') == 'std::option::Option':
                if r.get('variant') == 'Some' and (not slot_edges or bb in f.reach_from([0], avoid_enter=slot_edges)):
                    bad = (bb, 'a Some answer is produced on a path that did not see an active blob')
            elif kind == 'assign' and r['k'] == 'use':
                aggs = _option_aggs(f, r['o'])
                if aggs:
                    # the answer was built as Some / None further up (an inlined helper hands it over through `Poll::Ready`)
                    for (b2, r2) in aggs:
                        if r2.get('variant') == 'Some' and (not slot_edges or b2 in f.reach_from([0], avoid_enter=slot_edges)):
                            bad = (b2, 'a Some answer is produced on a path that did not see an active blob')
                    continue
                leaf = {x for x in core.field_leaf_names(f, r['o'])}
                if leaf != {'active_blob'}:
                    bad = (bb, 'the answer is copied from something other than the active-blob slot')
            elif kind == 'call':
                ogs = core.origins(f, 0)
                leafs = set()
                for o in ogs:
                    if o.kind == 'call':
                        for a in o.data.args[:1]:
                            leafs |= {x for x in core.field_leaf_names(o.fn, a)}
                if leafs != {'active_blob'}:
                    bad = (bb, 'the answer is computed by `%s` from %s, not from the active-blob slot' % (r.name, sorted(str(x) for x in leafs)))
        if bad:
            ctx.bad(rid, key, f.where(bad[0]), bad[1] + ': without an active blob (after try_close_active_blob, after init_lazy) the call reports the count of a closed blob instead of None')
        else:
            ctx.ok(rid, key, f.where(), 'Some only on the Some edge of the active-blob slot')
    if n < 1:
        raise core.AnchorLost('records_count_in_active_blob bodies: %d' % n)


def a12(ctx, rid):
    """C07.H7 instance: a quarantined blob keeps its own file name, so that its id is still counted at every later start"""
    import props.c07 as c07
    c07.h7(ctx, rid)


def a13(ctx, rid):
    """memory accounting of the in-memory index: `records_allocated` counts *capacity* (push adds the growth of a vector's
    capacity), so wherever the counter is seeded for an index loaded back from a file it is computed from the capacities of
    the per-key vectors.  Seeded from lengths or from the record count it is smaller than what later pushes assume, the
    subtraction in memory_used underflows and panics inside the maintenance worker (force-update statistics)"""
    prog = ctx.prog
    n = 0
    for (f, bb, o, how) in core.field_sources(prog, 'blob::index::core::MemoryAttrs', 'records_allocated'):
        root = prog.fns[prog.fns[f.id].root]
        if (root.trait_item or '').startswith('std::default::Default::') or how != 'construct':
            continue
        n += 1
        key = 'allocated-seeded-from-capacity|%s' % root.id
        fam = [prog.fns[g] for g in prog.family(root.id)]
        caps = [c for g in fam for c in g.calls if c.bb in g.reachable() and c.name == 'capacity' and c.path.startswith('std::vec::Vec')]
        lv = core.scalar_leaves(prog, f, o, depth=1) if o is not None else set()
        params = {v for (k, v) in lv if k == 'arg'}
        if caps and not params:
            ctx.ok(rid, key, f.where(bb), 'computed from Vec::capacity of the per-key vectors')
        else:
            ctx.bad(rid, key, f.where(bb), 'records_allocated of a reloaded index is not computed from the capacities of its vectors (%s): after one more push for a key with spare capacity records_count exceeds it and memory_used() underflows - in the worker this ends background maintenance' % (sorted(str(x) for x in lv) or 'no capacity call'))
    if n < 1:
        raise core.AnchorLost('constructions of MemoryAttrs.records_allocated: %d' % n)


RULES = [
    Rule('C15.A1', 'every header insertion is counted exactly once; the loader seeds the count from the index file, not from the key map', a1, 5),
    Rule('C15.A2', 'public accessors of the closed-blob vector agree that empty slots are absent', a2, 4),
    Rule('C15.A3', 'the corrupted-blob counter is stored only in exclusive initialisation; the per-session count follows a successful quarantine', a3, 3),
    Rule('C15.A4', 'a blob created for the active slot is installed or returned on every ok path', a4, 4),
    Rule('C15.A5', 'the gauges named by the property read the closed list and the active slot under one storage guard (one acquisition per call)', a5, 5),
    Rule('C15.A7', 'a blob moved out of the active slot or the closed list is handed back on every non-error exit (never dropped from the accounting)', a7, 4),
    Rule('C15.A8', 'an assignment into the active slot never overwrites a live blob (C04.T7 instances)', a8, 4),
    Rule('C15.A9', 'a count is taken from an index file only after the full validation gate (C03.I2 instances)', a9, 2),
    Rule('C15.A10', 'per-key header vectors of the in-memory index only grow or are cleared as a whole', a10, 1),
    Rule('C15.A11', 'records_count_in_active_blob answers Some only where it saw an active blob', a11, 1),
    Rule('C15.A12', 'a quarantined blob keeps its own file name (its id stays countable; C07.H7 instance)', a12, 1),
    Rule('C15.A13', 'the allocation counter of a reloaded index is seeded from the capacities of the per-key vectors', a13, 1),
    Rule('C15.A6', 'next_blob_id is fed by the ids of opened, failed and quarantined blobs (C07.H6/H6d instances)', a6, 4),
]
