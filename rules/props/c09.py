"""C09 On-disk B+tree index vs in-memory index - agreement of conventions between writer, searcher and loader."""
import core
import prims
from core import op_local, op_const
from engine import Rule

EXPLANATION = (
    "Equality of the two lookup procedures over every header multiset is arithmetic over sizes and offsets and is not decided here. "
    "What is decided are the conventions that the serializer, the search code and the loader must share - each is a necessary "
    "condition of the equality and each can be broken by an edit that the suite (4-byte lexicographic keys, one inner level) "
    "cannot see. P1 (= C04.T10): keys are ordered through the key type everywhere in the index code - the tree is laid out in "
    "K order, a byte-wise comparison in the descent misses keys for any non-lexicographic key type. P2 (= C04.T12): every cursor "
    "over the leaf region moves by whole record headers (alignment abstract domain), including the hand-over from the in-buffer "
    "walk to the file walk. P3 (= C04.T9 / C15.A1): the loaders return the record count of the index header. P4: the per-key "
    "order convention is shared: the serializer writes each key's versions newest first (`.rev()` over the ascending vector), the "
    "loader reverses every per-key vector back, the all-versions search reverses the part it collected walking left; either all "
    "three or none. P5: the latest-version search on disk answers with the leftmost header of the key (get_leftmost), the sibling "
    "of `last()` in memory (C01.R5).")
ASSUMPTIONS = ["the in-memory per-key vectors are ascending by timestamp (C02.U10 / C01.R1)"]

BPT = 'blob::index::bptree::'


def p1(ctx, rid):
    import props.c04 as c04
    c04.t10(ctx, rid)


def p2(ctx, rid):
    import props.c04 as c04
    c04.t12(ctx, rid)


def p3(ctx, rid):
    import props.c15 as c15
    c15.loader_returns_count(ctx, rid)


def _family_calls(prog, root):
    out = []
    for g in prog.family(root):
        f = prog.fns[g]
        out += [c for c in f.calls if c.bb in f.reachable()]
    return out


def p4(ctx, rid):
    """writer / loader / all-versions search agree on `newest first on disk, ascending in memory`"""
    prog = ctx.prog
    ser = [f.id for f in prog.fns.values() if f.id == f.root and f.file == 'src/blob/index/bptree/serializer.rs' and f.id.endswith('::append_headers')]
    ldr = [f.id for f in prog.fns.values() if f.id == f.root and f.id.endswith('FileIndexTrait<K>>::get_records_headers') and 'BPTreeFileIndex' in f.id]
    fnd = [f.id for f in prog.fns.values() if f.id == f.root and f.id.endswith('FileIndexTrait<K>>::find_by_key') and 'BPTreeFileIndex' in f.id]
    if not ser or not ldr or not fnd:
        raise core.AnchorLost('append_headers / get_records_headers / find_by_key: %s %s %s' % (len(ser), len(ldr), len(fnd)))
    L, E = prog.may_reach()

    def reach_calls(root):
        # the body, its closures and the helpers of the b+tree module it may reach (named helpers, fn items handed to adaptors)
        reach = set(prog.family(root))
        for g in list(reach):
            reach |= {x for x in L.get(g, ()) if x in prog.fns and prog.fns[x].file.startswith('src/blob/index/bptree/')}
        return [c for g in sorted(reach) for c in prog.fns[g].calls if c.bb in prog.fns[g].reachable()]
    w = [c for c in reach_calls(ser[0]) if c.name == 'rev' and (c.trait or '').endswith('Iterator')]
    l = [c for c in reach_calls(ldr[0]) if c.name == 'reverse' and 'record::record::Header' in c.full]
    s = [c for c in reach_calls(fnd[0]) if c.name == 'reverse' and 'record::record::Header' in c.full]
    key = 'per-key-order-convention'
    state = (bool(w), bool(l), bool(s))
    if state in ((True, True, True), (False, False, False)):
        ctx.ok(rid, key, (w or l or s)[0].where() if (w or l or s) else prog.fns[ser[0]].where(), 'writer reverses each key\'s ascending vector, loader and all-versions search reverse back (%s)' % (state,))
    else:
        ctx.bad(rid, key, prog.fns[ser[0]].where() if not w else (prog.fns[ldr[0]].where() if not l else prog.fns[fnd[0]].where()),
                'the per-key order convention is no longer shared: serializer reverses = %s, loader reverses back = %s, all-versions search reverses its left walk = %s - the index file answers / reloads with each key\'s versions in the opposite order of the in-memory index' % state)


def p5(ctx, rid):
    """the on-disk latest-version lookup takes the leftmost header of the key's run"""
    prog = ctx.prog
    gl = [f.id for f in prog.fns.values() if f.id == f.root and f.id.endswith('FileIndexTrait<K>>::get_latest') and 'BPTreeFileIndex' in f.id]
    if not gl:
        raise core.AnchorLost('BPTreeFileIndex::get_latest')
    L, E = prog.may_reach()
    reach = set()
    for g in prog.family(gl[0]):
        reach |= set(L.get(g, ())) | {g}
    key = 'disk-latest-is-leftmost'
    if any(x.endswith('::get_leftmost') for x in reach):
        ctx.ok(rid, key, prog.fns[gl[0]].where(), 'get_latest on disk goes through get_leftmost')
    else:
        ctx.bad(rid, key, prog.fns[gl[0]].where(), 'the on-disk latest-version lookup no longer walks to the leftmost header of the key (newest first on disk): it answers with whichever version the binary search hit')


def p6(ctx, rid):
    """the file index returns every version of a key, exactly like the per-key vector of the in-memory index: the walks over the
    leaf region (find_by_key, go_left, go_right, go_right_file) stop at a key change or at the end of the region only.  Cutting at
    deletion markers is the job of the layer above (IndexStruct), which does it for both representations; a walk that stops at a
    marker while moving towards newer versions hides records written after the deletion."""
    prog = ctx.prog
    n = 0
    bad = 0
    for f in prog.fns.values():
        if not f.file.startswith('src/blob/index/bptree/'):
            continue
        if f.id == prog.fns[f.id].root:
            n += 1
        for c in f.calls:
            if c.name == 'is_deleted' and c.bb in f.reachable():
                bad += 1
                ctx.bad(rid, 'walk-ignores-markers|%s' % prog.fns[f.id].root, c.where(), 'the on-disk index code looks at deletion markers: its version walks must return every header of the key (the in-memory index does) - stopping at a marker hides versions, in particular newer ones on the leftward walk')
    if n < 10:
        raise core.AnchorLost('functions in src/blob/index/bptree: %d' % n)
    if not bad:
        ctx.ok(rid, 'walk-ignores-markers|scan', '', '%d functions of the on-disk index, none inspects deletion markers' % n, queries=n)


def p7(ctx, rid):
    """the pass that writes a layer of tree nodes and the pass that builds the parent layer over it split the layer identically:
    collect_next_layer_nodes and shift_all_and_write are handed the same (min, max) node amounts, computed once by their common
    caller, and neither derives an amount of its own (no division inside them).  When the two passes disagree - e.g. on the
    rounding of `half full` for an odd fan-out - the parent's pointers and separator keys describe nodes that are not in the file."""
    prog = ctx.prog
    names = ('collect_next_layer_nodes', 'shift_all_and_write')
    callees = {}
    for f in prog.fns.values():
        if f.file == 'src/blob/index/bptree/serializer.rs' and f.id == prog.fns[f.id].root and f.id.split('::')[-1] in names:
            callees[f.id.split('::')[-1]] = f
    if len(callees) < 2:
        raise core.AnchorLost('layer passes of the serializer: %s' % sorted(callees))
    key = 'layer-passes-share-amounts'
    # (a) no own division
    for nm, g in sorted(callees.items()):
        for gid in prog.family(g.id):
            for b in prog.fns[gid].blocks:
                for st in b['s']:
                    if st['k'] == 'a' and st['r']['k'] == 'bin' and st['r']['op'] in ('Div', 'Shr', 'Rem'):
                        ctx.bad(rid, key, prog.fns[gid].where(), '`%s` derives a node amount of its own (a division inside the pass) instead of using the amounts its caller computed for both passes' % nm)
                        return
    # (a') the two passes walk the layer with the same loop guards: the same comparison operators in the same order
    def guards(g):
        out = []
        for gid in prog.family(g.id):
            h = prog.fns[gid]
            for i in sorted(h.reachable()):
                for st in h.blocks[i]['s']:
                    if st['k'] == 'a' and st['r']['k'] == 'bin' and st['r']['op'] in ('Gt', 'Ge', 'Lt', 'Le'):
                        # only the guards that compare against the node capacity handed in by the caller
                        def is_cap(o):
                            l = op_local(o)
                            hops = 0
                            while l is not None and hops < 4:
                                if 'max' in (h.debug_name(l) or ''):
                                    return True
                                ds = [x for x in h.defs().get(l, []) if x[2] == 'assign' and x[3]['k'] == 'use']
                                l = op_local(ds[0][3]['o']) if len(ds) == 1 else None
                                hops += 1
                            return False
                        if is_cap(st['r']['a']) or is_cap(st['r']['b']):
                            out.append(st['r']['op'] + ('<' if is_cap(st['r']['a']) else '>'))
        return out
    g1, g2 = guards(callees[names[0]]), guards(callees[names[1]])
    if g1 != g2:
        ctx.bad(rid, key, callees[names[0]].where(), 'the two passes over a tree layer use different loop guards (%s vs %s): for a layer that leaves exactly the node capacity they split it differently, and the parent layer points into the middle of a node' % (g1, g2))
        return
    # (b) same argument values at the call sites
    sites = {}
    for f in prog.fns.values():
        if f.file != 'src/blob/index/bptree/serializer.rs':
            continue
        for c in f.calls:
            for nm, g in callees.items():
                if g.id in prog.resolve(c) and c.bb in f.reachable():
                    sites.setdefault(f.id, {})[nm] = c
    ok = False
    for fid, d in sites.items():
        if len(d) < 2:
            continue
        f = prog.fns[fid]

        def amounts(c):
            out = set()
            for a in c.args:
                l = op_local(a)
                if l is None:
                    continue
                ty = f.locals[l]['s']
                if ty in ('(usize, usize)', 'usize'):
                    for o in core.origins(f, a):
                        if o.kind == 'agg':
                            for op in o.data['ops']:
                                out |= {x.key() for x in core.origins(f, op)}
                        else:
                            out.add(o.key())
            return out
        a1, a2 = amounts(d[names[0]]), amounts(d[names[1]])
        if a1 and a1 == a2:
            ok = True
            ctx.ok(rid, key, d[names[0]].where(), 'both passes receive the amounts computed once in %s' % fid.split('::')[-1])
        else:
            ctx.bad(rid, key, d[names[0]].where(), 'the two passes over a tree layer are handed different node amounts (%d vs %d origins): they split the layer differently and the parent layer points at nodes that are not where it says' % (len(a1), len(a2)))
            return
    if not ok:
        raise core.AnchorLost('common caller of the two layer passes')


def p8(ctx, rid):
    """the all-versions walk continues in the file whenever the in-buffer walk ran out of buffer: in go_right every Ok return is
    either the key-mismatch return inside the loop or follows the call of go_right_file (the hand-over is unconditional - a
    hand-over that is skipped when the buffer ends exactly on a header boundary drops the older versions behind it)"""
    prog = ctx.prog
    n = 0
    for f in prog.fns.values():
        if not f.is_coroutine or not f.root.endswith('BPTreeFileIndex::<K>::go_right'):
            continue
        hand = [c for c in f.calls if c.name == 'go_right_file' and c.bb in f.reachable()]
        if not hand:
            raise core.AnchorLost('go_right_file call in go_right')
        n += 1
        key = 'handover-unconditional|%s' % f.root
        done = [core.completion_block(f, c) for c in hand]
        done = [d for d in done if d is not None] + [c.bb for c in hand]
        # key-mismatch returns: blocks entered on the `keys differ` edge of the comparison of two key() results
        mism = []
        for i in f.reachable():
            t = f.blocks[i]['t']
            if t['k'] != 'switch':
                continue
            ogs = core.origins(f, t['o'])
            for o in ogs:
                if o.kind == 'call' and o.data.name in ('eq', 'ne') and any(x.kind == 'call' and x.data.name == 'key' for a in o.data.args for x in core.origins(f, a)):
                    for v, tg in t['vals']:
                        if (v == 0) == (o.data.name == 'eq'):
                            mism.append(tg)
                    if o.data.name == 'ne' and all(v == 0 for v, _ in t['vals']):
                        mism.append(t['otherwise'])
        exits = [bb for (bb, k, _) in core.exit_defs(f) if k in ('ok', 'val') and bb in f.reachable()]
        loose = [e for e in exits if e in f.reach_from([0], avoid_enter=done + mism)]
        if loose:
            ctx.bad(rid, key, f.where(loose[0]), 'go_right can return Ok without a key mismatch and without handing over to go_right_file: when the buffer ends on a header boundary the versions behind it are dropped (read_all / read_with lose older versions and markers once the index is on disk)')
        else:
            ctx.ok(rid, key, hand[0].where(), 'every Ok return is the key-mismatch return or follows go_right_file')
    if n < 1:
        raise core.AnchorLost('go_right: %d' % n)


def p9(ctx, rid):
    """C05.V12 instances: the shared buffer of the tree walk is resized to the extent to be read on every path before an exact read
    fills it - a buffer that keeps a shorter previous length makes the all-versions walk see only part of a leaf"""
    import props.c05 as c05
    c05.v12(ctx, rid)


def p10(ctx, rid):
    """a non-leaf node of the on-disk tree fits into one block for every key length: lookups fetch an inner node (and cache the
    root) as exactly BLOCK_SIZE bytes, so a completely filled node may not be larger.  Decided symbolically: the fan-out formula
    (max_nonleaf_node_capacity) and the node size formula (Node::serialized_size_with_keys, children - 1 keys) are evaluated to
    polynomials over the key length and the meta size; the division is eliminated with q*D <= X and the remaining inequality
    size <= BLOCK_SIZE must hold coefficient-wise.  `(B - meta - off) / (key + off) + 1` passes in any arrangement; dropping the
    reserve for the extra offset leaves `B + off <= B`, which does not."""
    import poly
    prog = ctx.prog
    cap_f = [f for f in prog.fns.values() if f.id == prog.fns[f.id].root and f.id.endswith('::max_nonleaf_node_capacity')]
    size_f = [f for f in prog.fns.values() if f.id == prog.fns[f.id].root and f.id.endswith('Node::serialized_size_with_keys')]
    blk = prog.consts.get('blob::index::bptree::core::BLOCK_SIZE', {}).get('int')
    if not size_f or blk is None:
        raise core.AnchorLost('Node::serialized_size_with_keys / BLOCK_SIZE')
    key = 'full-inner-node-fits-a-block'
    se = poly.Eval(prog, size_f[0], {1: 'key', 2: 'keys'}).run()
    size = se.result()
    cap = None
    if cap_f:
        ce = poly.Eval(prog, cap_f[0], {1: 'key'}).run()
        cap = ce.result()
    else:
        # the formula was inlined into the tree builder: the capacity is the `max` element of the (min, max) amounts handed to the
        # layer passes; the key length is the one `len(..)` symbol of that expression
        for g in prog.fns.values():
            if g.file != 'src/blob/index/bptree/serializer.rs' or g.id != prog.fns[g.id].root:
                continue
            for c in g.calls:
                if c.bb not in g.reachable() or c.name not in ('collect_next_layer_nodes', 'shift_all_and_write'):
                    continue
                for a in c.args:
                    l = op_local(a)
                    ds = [x for x in g.defs().get(l, []) if x[2] == 'assign' and x[3]['k'] == 'agg' and x[3].get('ak') == 'tuple' and len(x[3]['ops']) == 2] if l is not None else []
                    if len(ds) == 1 and cap is None:
                        ce = poly.Eval(prog, g, {}).run()
                        v = ce.scalar(ds[0][3]['ops'][1])
                        lens = sorted({s_ for m in (v or {}) for s_ in m if s_.startswith('len(')} | {s_ for (X, D) in ce.facts.values() for pp in (X, D) for m in pp for s_ in m if s_.startswith('len(')})
                        if v is not None and len(lens) == 1:
                            cap = poly.subst(v, lens[0], poly.sym('key'))
                            ce.facts = {q: (poly.subst(X, lens[0], poly.sym('key')), poly.subst(D, lens[0], poly.sym('key'))) for q, (X, D) in ce.facts.items()}
                            cap_f = [g]
        if cap is None:
            raise core.AnchorLost('max_nonleaf_node_capacity (or the inlined `max` amount of the tree builder)')
    if cap is None or size is None:
        ctx.bad(rid, key, cap_f[0].where(), 'the capacity / node size formula is no longer an arithmetic expression this rule can evaluate (capacity: %s, size: %s)' % (cap, size))
        return
    # the serializer hands `children - 1` as the number of keys of a node
    n_ok = 0
    for f in prog.fns.values():
        if f.file != 'src/blob/index/bptree/serializer.rs':
            continue
        import affine
        ev = None
        for c in f.calls:
            if c.bb in f.reachable() and c.name == 'serialized_size_with_keys' and len(c.args) > 1:
                ev = ev or affine.Eval(prog, f).run()
                v = ev.scalar(c.args[1])
                if v is not None and v.get(1) == -1 and sorted(x for k, x in v.items() if k != 1) == [1] and all(str(k).startswith('len(') for k in v if k != 1):
                    n_ok += 1
                else:
                    ctx.bad(rid, key + '|keys-are-children-minus-one', c.where(), 'the node size is asked for a key count that is not `children - 1` (%s)' % (affine.show(v) if v else '?'))
                    return
    if n_ok < 1:
        raise core.AnchorLost('serialized_size_with_keys(.., children - 1) call sites in the serializer')
    full = poly.subst(size, 'keys', poly.add(cap, poly.const(1), -1))
    ok, bound = poly.bound_le(full, poly.const(blk), ce.facts)
    if ok:
        ctx.ok(rid, key, cap_f[0].where(), 'capacity = %s with %s; size of a full node <= %s <= %d for every key length' % (
            poly.show(cap), ', '.join('%s = floor((%s) / (%s))' % (q, poly.show(X), poly.show(D)) for q, (X, D) in ce.facts.items()), poly.show(bound), blk))
    else:
        ctx.bad(rid, key, cap_f[0].where(), 'a completely filled non-leaf node can exceed the %d-byte block the readers fetch: capacity = %s (%s), full node size <= %s, '
                'which is not <= %d for all key lengths (its last child offsets lie outside the block that lookups read)' % (
                    blk, poly.show(cap), ', '.join('%s = floor((%s) / (%s))' % (q, poly.show(X), poly.show(D)) for q, (X, D) in ce.facts.items()), poly.show(bound), blk))


def p11(ctx, rid):
    """`identically (same headers, same order)`: the order of a key's versions is defined in exactly one place each - the position
    chosen at insertion for the in-memory index (C02.U10) and the order of the leaf section for the index file.  No function
    of the index code re-sorts a vector of record headers: a sort by timestamp cannot reproduce the append order of equal
    timestamps (a stable sort followed by reverse flips every tie)."""
    prog = ctx.prog
    n = 0
    bad = None
    for f in prog.fns.values():
        if not f.file.startswith('src/blob/index/'):
            continue
        n += 1
        for c in f.calls:
            if c.bb in f.reachable() and c.name.startswith('sort') and ('record::record::Header' in c.full or 'RecordHeader' in c.full):
                bad = c
    if n < 20:
        raise core.AnchorLost('functions in src/blob/index: %d' % n)
    if bad:
        ctx.bad(rid, 'no-resort-of-versions', bad.where(), 'a vector of record headers is re-sorted (`%s`) in the index code: versions with equal timestamps come out in a different order than the in-memory index / the leaf section holds them' % bad.name)
    else:
        ctx.ok(rid, 'no-resort-of-versions', '', 'no sort of record-header vectors in %d index functions' % n, nontrivial=False, queries=n)


def p12(ctx, rid):
    """a leaf of the on-disk tree starts at the first header of a key: the (min key, offset) pair of a leaf is recorded in the
    iteration over the keys of the in-memory index, never inside an inner loop over the versions of one key.  A boundary between
    two versions of a key makes the separator equal to that key; the equal-key descent then lands in the right-hand leaf, the
    leftmost scan stops at its first header, and a lookup answers with an older version than the in-memory index did"""
    prog = ctx.prog
    n = 0
    bad = None
    for f in prog.fns.values():
        if f.file != 'src/blob/index/bptree/serializer.rs' or '::tests::' in f.id:
            continue
        # the leaf pass: a body that iterates over the in-memory index (BTreeMap iteration)
        if not any(c.bb in f.reachable() and c.name == 'next' and 'btree' in c.full.lower() for c in f.calls):
            continue
        for c in f.calls:
            if c.bb in f.reachable() and c.name == 'push' and c.path.startswith('std::vec::Vec') and 'u64)' in c.full:
                d = core.loop_depth(f, c.bb)
                n += 1
                if d >= 2:
                    bad = c
    if n < 1:
        raise core.AnchorLost('leaf boundary records in the leaf pass of the serializer: %d' % n)
    if bad:
        ctx.bad(rid, 'leaf-starts-at-key-boundary', bad.where(), 'a leaf boundary is recorded inside an inner loop of the key iteration (between the versions of one key): the leaf can start with an older version of the key its separator names')
    else:
        ctx.ok(rid, 'leaf-starts-at-key-boundary', '', '%d boundary records, each at the level of the key iteration' % n, nontrivial=False, queries=n)


RULES = [
    Rule('C09.P1', 'keys are ordered through the key type, never as raw byte strings, in the index code (C04.T10 instances)', p1, 4),
    Rule('C09.P2', 'cursors over the on-disk leaf region move by whole record headers (C04.T12 instances)', p2, 4),
    Rule('C09.P3', 'the loaders return the record count stored in the index header (C15.A1 instances)', p3, 2),
    Rule('C09.P4', 'serializer, loader and all-versions search share the per-key order convention (newest first on disk)', p4, 1),
    Rule('C09.P6', 'the on-disk index walks return every version of a key: no deletion-marker test in the b+tree code', p6, 1),
    Rule('C09.P7', 'the writing pass and the parent-building pass of the tree serializer share one (min, max) amount computation', p7, 1),
    Rule('C09.P8', 'the in-buffer walk always hands over to the file walk unless it saw the next key', p8, 1),
    Rule('C09.P9', 'the reused buffer of the on-disk walks is resized before every exact read (C05.V12 instances)', p9, 3),
    Rule('C09.P10', 'a completely filled non-leaf node fits into one block for every key length (polynomial evaluation of the fan-out and node-size formulas)', p10, 1),
    Rule('C09.P11', 'no function of the index code re-sorts a vector of record headers', p11, 1),
    Rule('C09.P12', 'a leaf of the on-disk tree starts at the first header of a key', p12, 1),
    Rule('C09.P5', 'the on-disk latest-version lookup takes the leftmost header of the key', p5, 1),
]
