"""C07 No harm: ownership of destructive primitives, effect-free queries, id monotonicity."""
import re
import core
import prims
from core import op_local, op_const, op_place
from engine import Rule

EXPLANATION = (
    "Who-may-call and provenance rules over every call site of a raw OS mutator (positional write, stream write to a File, "
    "set_len, truncating create/open, remove, rename, fs::write/copy) in the type-resolved MIR: H1 module ownership of each "
    "primitive kind; H2 in-crate positional wrappers (classified from their bodies: the offset handed to the OS has a parameter "
    "among its origins) are called only by index-file builders with the constant offset 0 on a file created in the same body; "
    "H3 the append offset has all origins in FileInner.size.fetch_add and the counter is only ever loaded / fetch_add-ed; H4 the "
    "path operand of truncating create / remove / index-file creation originates in with_extension(\"index\"); H5 the call-graph "
    "closure of every query entry point contains no mutator; H6 operations on next_blob_id are load/fetch_add, stores only under "
    "&mut Storage with failed-blob ids and quarantine-dir ids among the origins; H7 the quarantined blob path only flows into "
    "rename (as source) and the index remover. Decides this ownership/effect structure, not the byte comparison itself.")
EXPLANATION += (" " + 'H6 also requires that two id sources meeting on the way into the counter are joined by max, not by a selector such as or / unwrap_or / min.')
EXPLANATION += (" " + 'H6 also: in a body that seeds the counter, every call that can reach the fetch_add on next_blob_id is dominated by a seeding store / fetch_max whose origins include the quarantined ids.')
ASSUMPTIONS = ["class-hierarchy call resolution over-approximates reachability (closures attributed at construction)"]

MOD_OWNERS = {
    'write_at': ('io::unix::sync',),
    'stream_write': ('tools::blob_writer',),
    'truncate_opt': ('tools::blob_writer',),
    'create_trunc': ('blob::index::tools',),
    'remove': ('storage::core',),
    'rename': ('storage::core', 'tools::utils'),
    'set_len': (),
    'raw_syscall': ('io::unix::sync',),
}


def module_of_fn(f):
    m = f.file
    if m.startswith('src/'):
        m = m[4:]
    if m.endswith('.rs'):
        m = m[:-3]
    if m.endswith('/mod'):
        m = m[:-4]
    return m.replace('/', '::')


def prim_kind(c):
    if prims.is_raw(c, prims.RAW_WRITE_AT):
        return 'write_at'
    if prims.is_stream_write_to_file(c):
        return 'stream_write'
    if c.path == 'bincode::serialize_into' and c.f.get('args') and 'std::fs::File' in c.f['args'][0]:
        return 'stream_write'
    if prims.is_raw(c, prims.RAW_SET_LEN):
        return 'set_len'
    if prims.is_raw(c, prims.RAW_CREATE_TRUNC):
        return 'create_trunc'
    if prims.is_raw(c, prims.RAW_TRUNCATE_OPT):
        return 'truncate_opt'
    if prims.is_raw(c, prims.RAW_REMOVE):
        return 'remove'
    if prims.is_raw(c, prims.RAW_RENAME):
        return 'rename'
    if c.crate in ('libc', 'nix') and re.search(r'^(p?writev?(64)?|pwritev2|ftruncate(64)?|truncate(64)?|unlink(at)?|rename(at2?)?|fallocate(64)?|posix_fallocate|sendfile(64)?|copy_file_range|link(at)?|symlink(at)?|rmdir|mmap(64)?)$', c.name):
        return 'raw_syscall'
    return None


def h1(ctx, rid):
    prog = ctx.prog
    seen = set()
    for f in prog.fns.values():
        for c in f.calls:
            k = prim_kind(c)
            if not k:
                continue
            if c.name == 'poll':
                continue  # the START call of the same async primitive is the site
            root = prog.fns[f.id].root
            m = module_of_fn(prog.fns[root])
            key = '%s|%s|%s' % (k, root, prims.base(c.target))
            if key in seen:
                continue
            seen.add(key)
            if k == 'truncate_opt':
                v = core.const_int(prog, op_const(c.args[1])) if len(c.args) > 1 else None
                if v == 0:
                    ctx.ok(rid, key, c.where(), 'truncate(false)', nontrivial=False)
                    continue
            if m in MOD_OWNERS[k]:
                ctx.ok(rid, key, c.where(), '%s in owner module %s' % (k, m))
            else:
                ctx.bad(rid, key, c.where(), 'destructive primitive `%s` (%s) used outside its owner module(s) %s' % (prims.base(c.target), k, MOD_OWNERS[k]))


def positional_closure(prog, FW):
    pos = set(FW.positional_wrappers())
    changed = True
    while changed:
        changed = False
        for f in prog.fns.values():
            root = prog.fns[f.id].root
            if root in pos:
                continue
            for c in f.calls:
                if any(t in pos for t in prog.resolve(c)):
                    # offset argument: the u64 argument
                    offs = [a for a in c.args if f.locals[op_local(a)]['s'] == 'u64'] if all(op_local(a) is not None for a in c.args) else []
                    for a in offs:
                        ogs = core.origins_ip(prog, f, a, depth=0)
                        if any(o.kind == 'arg' for o in ogs):
                            pos.add(root)
                            changed = True
    return pos


def h2(ctx, rid):
    prog = ctx.prog
    FW = prims.FileWrappers(prog)
    pos = positional_closure(prog, FW)
    if not pos:
        raise core.AnchorLost('no positional wrapper found')
    n = 0
    for f in prog.fns.values():
        root = prog.fns[f.id].root
        if root in pos:
            continue
        for c in f.calls:
            if c.name == 'poll' or not any(t in pos for t in prog.resolve(c)):
                continue
            n += 1
            key = 'positional-call|%s' % root
            rf = prog.fns[root]

            def in_builder(r, depth=2):
                if r.trait_item == 'blob::index::core::FileIndexTrait::from_records':
                    return True
                if depth <= 0 or r.is_pub:
                    return False
                cs = [x for x in core.call_sites_of(prog, r.id) if x.name != 'poll']
                return bool(cs) and all(in_builder(prog.fns[prog.fns[x.fn.id].root], depth - 1) for x in cs)
            if not in_builder(rf):
                ctx.bad(rid, key, c.where(), 'positional file write called outside an index-file builder (FileIndexTrait::from_records impl or a private helper only it calls)')
                continue
            offs = [a for a in c.args if op_const(a) is not None and op_const(a)['ty'] == 'u64']
            if not offs or core.const_int(prog, op_const(offs[0])) != 0:
                ogs = [o for a in c.args if op_local(a) is not None and f.locals[op_local(a)]['s'] == 'u64' for o in core.origins(f, a)]
                if not ogs or not all(o.kind == 'const' and core.const_int(prog, o.data) == 0 for o in ogs):
                    ctx.bad(rid, key, c.where(), 'positional write at an offset other than the constant 0 (index header)')
                    continue
            # receiver file created in this body
            ogs = core.origins_ip(prog, f, c.args[0], depth=2)
            # a helper that returns `Result<File>` merges the residual of its own `?`s into the value: only origins that produce a
            # file count (the error of a failed append is not a file)
            ogs = [o for o in ogs if not (o.kind == 'call' and o.data.dest and 'File' not in o.fn.locals[o.data.dest[0]]['s'])]
            if not all(o.kind == 'call' and o.data.name == 'create' and 'IoDriver' in o.data.path for o in ogs) or not ogs:
                ctx.bad(rid, key, c.where(), 'positional write on a file not created by this index builder: %s' % ogs)
                continue
            ctx.ok(rid, key, c.where(), 'offset const 0 on the index file created in the same body')
    if n == 0:
        raise core.AnchorLost('no caller of the positional wrapper')


def h3(ctx, rid):
    prog = ctx.prog
    FW = prims.FileWrappers(prog)
    n = 0
    for (c, kind, ogs, owner) in FW.sites:
        n += 1
        key = 'offset|%s' % c.fn.id
        if kind == 'append':
            ctx.ok(rid, key, c.where(), 'all origins of the OS offset are FileInner.size.fetch_add (+arith)')
        elif kind == 'positional':
            ctx.ok(rid, key, c.where(), 'positional wrapper (offset chosen by parameter of %s) - callers constrained by H2' % owner)
        else:
            ctx.bad(rid, key, c.where(), 'offset of a raw positional write has an origin that is neither the size counter reservation nor a wrapper parameter: %s' % ogs)
    for f in prog.fns.values():
        for c in f.calls:
            if not c.path.startswith('std::sync::atomic::Atomic'):
                continue
            if prims.receiver_field(f, c) != 'size':
                continue
            rt = prims.receiver_root_type(f, c)
            n += 1
            key = 'size.%s|%s' % (c.name, f.id)
            if c.name in ('load', 'fetch_add'):
                ctx.ok(rid, key, c.where(), 'monotonic use', nontrivial=False)
            else:
                ctx.bad(rid, key, c.where(), 'file size counter modified by `%s`: offsets handed out earlier can be handed out again' % c.name)
    # direct stores to the field
    for (f, bb, o, how) in core.field_sources(prog, 'io::unix::sync::FileInner', 'size'):
        if how != 'construct':
            ctx.bad(rid, 'size.store|%s' % f.id, f.where(bb), 'direct store into FileInner.size')
        else:
            ctx.ok(rid, 'size.construct|%s' % f.id, f.where(bb), 'constructed', nontrivial=False)
            n += 1
    if n < 5:
        raise core.AnchorLost('size counter uses: %d' % n)


def path_is_index_ext(prog, fn, operand, depth=4, _seen=None):
    """all origins of a path operand lead to with_extension(<"index">); returns (ok, detail)"""
    if _seen is None:
        _seen = set()
    ogs = core.origins_ip(prog, fn, operand, depth=depth, stop_fields=True)
    found = False
    for o in ogs:
        if o.kind == 'call' and o.data.name == 'with_extension':
            ext = o.data.args[1] if len(o.data.args) > 1 else None
            eo = core.origins(o.fn, ext) if ext is not None else []
            vals = [core.const_str(prog, e.data) if e.kind == 'const' else None for e in eo]
            if vals and all(v == 'index' for v in vals):
                found = True
                continue
            return False, 'with_extension(%s) at %s' % (vals, o.data.where())
        elif o.kind == 'call' and o.data.crate == 'pearl' and o.data.name in ('name', 'as_path') and o.data.args:
            k = (o.fn.id, o.data.bb)
            if k in _seen:
                continue
            _seen.add(k)
            ok2, d2 = path_is_index_ext(prog, o.fn, o.data.args[0], depth, _seen)
            if not ok2:
                return False, d2
            found = True
        elif o.kind == 'field':
            ok2, d2 = field_is_index_ext(prog, o.data[0], o.data[1])
            if not ok2:
                return False, d2
            found = True
        elif o.kind == 'arg' and not core.call_sites_of(prog, o.fn.id) and not o.fn.is_pub:
            # a crate-private function without any caller in the analysed build (SimpleFileIndex is compiled but never
            # instantiated): nothing can pass it a path; as soon as a caller appears its argument is traced
            found = True
        else:
            return False, 'origin %r' % o
    return found, 'with_extension("index")'


_FIELD_MEMO = {}


def field_is_index_ext(prog, adt, field):
    _FIELD_MEMO = prog.__dict__.setdefault('_field_idx_memo', {})
    k = (adt, field)
    if k in _FIELD_MEMO:
        return _FIELD_MEMO[k]
    _FIELD_MEMO[k] = (True, 'rec')
    srcs = core.field_sources(prog, adt, field)
    res = (bool(srcs), 'no sources')
    for (f, bb, o, how) in srcs:
        if o is None:
            res = (False, 'opaque store in %s' % f.id)
            break
        ok, d = path_is_index_ext(prog, f, o)
        if not ok:
            res = (False, '%s in %s' % (d, f.id))
            break
        res = (True, d)
    _FIELD_MEMO[k] = res
    return res


def h4(ctx, rid):
    prog = ctx.prog
    n = 0
    for f in prog.fns.values():
        for c in f.calls:
            if c.name == 'poll':
                continue
            k = prim_kind(c)
            tg = prog.resolve(c)
            site = None
            if k in ('create_trunc', 'remove'):
                site = (c.args[0], k)
            elif 'blob::index::tools::clean_file' in tg:
                site = (c.args[0], 'clean_file')
            elif c.name == 'create' and 'IoDriver' in c.path and prog.fns[prog.fns[f.id].root].trait_item == 'blob::index::core::FileIndexTrait::from_records':
                site = (c.args[1], 'index-create')
            if not site:
                continue
            if k == 'create_trunc' and module_of_fn(f) == 'blob::index::tools':
                # clean_file's own body: its path parameter is constrained at its call sites
                ctx.ok(rid, 'path|%s|%s' % (site[1], f.id), c.where(), 'inside clean_file; callers checked', nontrivial=False)
                n += 1
                continue
            n += 1
            ok, d = path_is_index_ext(prog, f, site[0])
            key = 'path|%s|%s' % (site[1], prog.fns[f.id].root)
            if ok:
                ctx.ok(rid, key, c.where(), 'path originates in %s' % d)
            else:
                ctx.bad(rid, key, c.where(), 'destructive index maintenance on a path not derived from with_extension("index"): %s' % d)
    if n < 4:
        raise core.AnchorLost('index path operands: %d' % n)


QUERY_ENTRIES = [
    'storage::core::Storage::<K>::read', 'storage::core::Storage::<K>::read_with', 'storage::core::Storage::<K>::read_all',
    'storage::core::Storage::<K>::read_all_with_deletion_marker', 'storage::core::Storage::<K>::contains',
    'storage::core::Storage::<K>::check_filters', 'storage::core::Storage::<K>::records_count',
    'storage::core::Storage::<K>::records_count_detailed', 'storage::core::Storage::<K>::records_count_in_active_blob',
    'storage::core::Storage::<K>::blobs_count', 'storage::core::Storage::<K>::corrupted_blobs_count',
    'storage::core::Storage::<K>::active_index_memory', 'storage::core::Storage::<K>::inactive_index_memory',
    'storage::core::Storage::<K>::index_memory', 'storage::core::Storage::<K>::disk_used', 'storage::core::Storage::<K>::next_blob_id',
    'storage::core::Storage::<K>::has_active_blob',
    '<storage::core::Storage<K> as filter::traits::BloomProvider<K>>::check_filter',
    '<storage::core::Storage<K> as filter::traits::BloomProvider<K>>::get_filter',
    '<storage::core::Storage<K> as filter::traits::BloomProvider<K>>::filter_memory_allocated',
    'blob::entry::Entry::load', 'blob::entry::Entry::load_data', 'blob::entry::Entry::load_meta',
]


def h5(ctx, rid):
    prog = ctx.prog
    FW = prims.FileWrappers(prog)
    bad_local = set(FW.append_wrappers()) | positional_closure(prog, FW) | {'io::unix::sync::IoDriver::create', 'blob::index::tools::clean_file'}
    L, E = prog.may_reach()

    def is_mut_ext(e):
        b = prims.base(e)
        if b in prims.RAW_MUTATORS or b in ('tokio::fs::create_dir', 'tokio::fs::create_dir_all', 'std::fs::create_dir', 'std::fs::create_dir_all'):
            return True
        # a request to the maintenance worker is a deferred mutation: its handlers create, close and dump files
        return e.startswith('tokio::sync::mpsc::Sender') and e.split('::')[-1] in ('send', 'try_send', 'send_timeout', 'blocking_send', 'reserve', 'try_reserve')

    for q in QUERY_ENTRIES:
        if q not in prog.fns:
            raise core.AnchorLost('query entry %s not found' % q)
        hit_l = [x for x in L.get(q, ()) if x in bad_local]
        hit_e = [x for x in E.get(q, ()) if is_mut_ext(x)]
        if hit_l or hit_e:
            p = prog.call_path(q, (lambda x: x in bad_local) if hit_l else None, is_mut_ext if hit_e else None)
            ctx.bad(rid, 'query|' + q, prog.fns[q].where(), 'a query entry point can reach a file mutator (or a request to the maintenance worker, whose handlers create / close / dump files)', witness=p)
        else:
            ctx.ok(rid, 'query|' + q, prog.fns[q].where(), 'no mutator in the call-graph closure (%d functions)' % len(L.get(q, ())))


def h6(ctx, rid):
    prog = ctx.prog
    n = 0
    stores = []
    for f in prog.fns.values():
        for c in f.calls:
            if not c.path.startswith('std::sync::atomic::Atomic') or prims.receiver_field(f, c) != 'next_blob_id':
                continue
            n += 1
            key = 'next_blob_id.%s|%s' % (c.name, prog.fns[f.id].root)
            if c.name in ('load', 'fetch_add'):
                ctx.ok(rid, key, c.where(), 'monotonic use', nontrivial=False)
                continue
            if c.name not in ('store', 'fetch_max'):
                ctx.bad(rid, key, c.where(), 'blob id counter modified by `%s`' % c.name)
                continue
            root = prog.fns[prog.fns[f.id].root]
            excl = core.runs_exclusive(prog, root.id)
            if not excl:
                ctx.bad(rid, key, c.where(), 'blob id counter %s outside initialisation (the function does not hold &mut Storage)' % c.name)
                continue
            if c.name == 'fetch_max':
                ctx.ok(rid, key, c.where(), 'monotonic (fetch_max) during exclusive initialisation')
                continue
            stores.append((f, c, key))
    def deep_arith(f, operand, depth=3):
        out = []
        for o in core.origins_deep(prog, f, operand, depth=3):
            if o.kind == 'binop' and depth > 0:
                for side in ('a', 'b'):
                    out += deep_arith(o.fn, o.data[side], depth - 1)
            else:
                out.append(o)
        return out
    for (f, c, key) in stores:
        ogs = deep_arith(f, c.args[1])
        calls = [o.data for o in ogs if o.kind == 'call']
        from_failed = [x for x in calls if x.target == 'blob::file_name::FileName::id' and 'read_blobs' in x.fn.id]
        from_opened = [x for x in calls if x.target == 'blob::core::Blob::<K>::id']
        from_quarantine = [x for x in calls if x.target == 'blob::file_name::FileName::id' and 'corrupted' in x.fn.id]
        consts = [o for o in ogs if o.kind == 'const']
        if from_opened and not from_failed:
            ctx.bad(rid, key + '|failed-ids', c.where(), 'the id counter is stored from opened blobs only: the id of a blob that failed to open (quarantined) can be handed out again')
        elif from_opened:
            ctx.ok(rid, key + '|failed-ids', c.where(), 'origins include ids parsed from names of blobs that failed to open')
        elif consts and not from_opened:
            # init_new-style store of a constant start value is only sound when no blob files exist
            ctx.ok(rid, key + '|const', c.where(), 'constant start value', nontrivial=False)
        else:
            ctx.bad(rid, key + '|failed-ids', c.where(), 'unexpected origin of the stored id: %s' % ogs[:4])
        if from_opened or from_failed:
            if from_quarantine:
                ctx.ok(rid, key + '|quarantine-ids', c.where(), 'origins include ids of files already in the quarantine directory')
            else:
                ctx.bad(rid, key + '|quarantine-ids', c.where(), 'ids of blobs sitting in the quarantine directory are not among the origins of the id counter: after a restart such an id is handed out again and a later quarantine renames over the preserved file')
    # H6f: in exclusive initialisation the counter is seeded before it is consumed: every call that can reach the fetch_add on
    # next_blob_id (next_blob_name, a fresh-blob helper) is dominated by every store / fetch_max of the same body
    L, E = prog.may_reach()
    consumers_fn = set()
    for g in prog.fns.values():
        for c in g.calls:
            if c.name == 'fetch_add' and c.path.startswith('std::sync::atomic::Atomic') and prims.receiver_field(g, c) == 'next_blob_id':
                consumers_fn.add(g.id)
                consumers_fn.add(prog.fns[g.id].root)
    for f in prog.fns.values():
        seeds = [c for c in f.calls if c.path.startswith('std::sync::atomic::Atomic') and prims.receiver_field(f, c) == 'next_blob_id' and c.name in ('store', 'fetch_max') and c.bb in f.reachable()]
        if not seeds:
            # an initialisation body (it holds &mut Storage itself) that takes ids without any seeding of its own: fine only when
            # each of its callers seeded the counter before the call (a seeding helper called first is found through the callee set)
            root = prog.fns[prog.fns[f.id].root]
            takes = [c for c in f.calls if c.bb in f.reachable() and c.name != 'poll' and any(t in consumers_fn for t in prog.resolve(c) if t in prog.fns)]
            if root.file == 'src/storage/core.rs' and root.argc >= 1 and root.locals[1]['s'].startswith('&mut storage::core::Storage<') and takes \
               and root.id.split('::')[-1].startswith('init'):
                seeders = {g.id for g in prog.fns.values() for c in g.calls if c.path.startswith('std::sync::atomic::Atomic')
                           and prims.receiver_field(g, c) == 'next_blob_id' and c.name in ('store', 'fetch_max')}
                seeders |= {prog.fns[x].root for x in seeders}
                helper_first = [c for c in f.calls if c.bb in f.reachable() and any(t in seeders for t in prog.resolve(c))]
                for c in takes:
                    if not any(c.bb not in f.reach_from([0], avoid_exit=[h.bb]) for h in helper_first):
                        ctx.bad(rid, 'seeded-before-consumed|%s|%s' % (root.id, c.name), c.where(), '`%s` takes a blob id from the counter in an initialisation path that never raised the counter above the ids found in the quarantine directory: an id that is in use there is handed out again, and a later quarantine of that blob renames over the preserved file' % c.name)
            continue
        cons = []
        for c in f.calls:
            if c.bb not in f.reachable() or c.name == 'poll' or c in seeds:
                continue
            tg = [t for t in prog.resolve(c) if t in prog.fns]
            if any(t in consumers_fn or (L.get(t, set()) & consumers_fn) for t in tg):
                cons.append(c)
        def covers_quarantine(sd):
            ogs = deep_arith(f, sd.args[1]) if len(sd.args) > 1 else []      # through `match max { Some(id) => id + 1, None => 0 }`
            return any(o.kind == 'call' and o.data.target == 'blob::file_name::FileName::id' and 'corrupted' in o.data.fn.id for o in ogs)
        full = [sd for sd in seeds if covers_quarantine(sd)]
        for c in cons:
            key = 'seeded-before-consumed|%s|%s' % (prog.fns[f.id].root, c.name)
            dom = [sd for sd in full if c.bb not in f.reach_from([0], avoid_exit=[sd.bb])]
            if not dom:
                ctx.bad(rid, key, c.where(), '`%s` takes a blob id from the counter on a path on which the counter has not yet been raised above the ids found in the quarantine directory (%s): an id that is in use there is handed out, and a later quarantine of that blob renames over the preserved file' % (c.name, ', '.join('%s at %s' % (sd.name, sd.where()) for sd in full) or 'no such seeding in this body'))
            else:
                ctx.ok(rid, key, c.where(), 'dominated by the seeding `%s` that includes the quarantined ids' % dom[0].name)
    # H6f: the scan of the quarantine directory that feeds the counter is unconditional - it does not depend on ignore_corrupted
    # or any other mode switch (a run in that mode would hand out the ids of blobs quarantined by earlier runs)
    for g in prog.fns.values():
        if g.id != prog.fns[g.id].root or not g.id.endswith('::count_old_corrupted_blobs'):
            continue
        modes = [c for x in prog.family(g.id) for c in prog.fns[x].calls if c.bb in prog.fns[x].reachable() and c.name in ('ignore_corrupted', 'allow_duplicates', 'validate_data_during_index_regen')]
        key = 'quarantine-scan-unconditional|%s' % g.id
        n += 1
        if modes:
            ctx.bad(rid, key, modes[0].where(), 'the scan of the quarantine directory depends on the mode switch `%s`: in that mode the ids of blobs quarantined by earlier runs are not reserved, a new blob reuses one and a later quarantine renames over the preserved file' % modes[0].name)
        else:
            ctx.ok(rid, key, g.where(), 'no mode switch in the quarantine scan')
    # H6e: the sources are joined by a maximum - a selector that prefers one source (`or`, `unwrap_or`, `min`, ..) stores an id
    # below one that is in use as soon as the preferred source is the smaller one
    SELECTORS = ('or', 'or_else', 'xor', 'and', 'min', 'unwrap_or', 'unwrap_or_else', 'unwrap_or_default', 'min_by', 'min_by_key', 'zip')
    ID_TARGETS = ('blob::file_name::FileName::id', 'blob::core::Blob::<K>::id')
    for (f, c, key) in stores:
        dst = op_local(c.args[1])
        for c2 in f.calls:
            if c2.name not in SELECTORS or c2.bb not in f.reachable():
                continue
            if dst not in core.flows_forward(f, c2.dest[0]):
                continue
            carrying = 0
            for a in c2.args:
                ogs = core.origins_deep(prog, f, a, depth=3)
                if any(o.kind == 'call' and o.data.target in ID_TARGETS for o in ogs):
                    carrying += 1
            if carrying >= 2:
                ctx.bad(rid, key + '|joined-by-max', c2.where(), 'two sources of blob ids are combined with `%s` on the way into the id counter: it prefers one source instead of taking the maximum, so an id that is in use (in the work dir or in the quarantine dir) can be handed out again' % c2.name)
                break
        else:
            # every definition of the stored value passes through the join: with `max` opaque, the only id-carrying terminals of
            # the stored value are max(..) calls over >= 2 id sources (a `match` that picks one source on some path is a selector too)
            saved = {k: core.TRANSPARENT_CALLS.pop(k) for k in ('max', 'max_by', 'max_by_key') if k in core.TRANSPARENT_CALLS}
            try:
                term = core.origins(f, c.args[1])
            finally:
                core.TRANSPARENT_CALLS.update(saved)
            joins = [o for o in term if o.kind == 'call' and o.data.name == 'max']
            direct = []
            for o in term:
                if o.kind == 'call' and o.data.name != 'max':
                    sub = core.origins_deep(prog, f, o.data.dest[0], depth=3) + [o]
                    if any(x.kind == 'call' and x.data.target in ID_TARGETS for x in sub):
                        direct.append(o)
            if joins and not direct:
                ctx.ok(rid, key + '|joined-by-max', c.where(), 'id sources joined with max on every path', nontrivial=False)
            elif joins and direct:
                ctx.bad(rid, key + '|joined-by-max', c.where(), 'on some path the id counter is stored from one id source alone (%s), bypassing the maximum over all sources: an id that is in use in the other place (work dir / quarantine dir) can be handed out again' % direct[0].data.name)
            elif any(c2.name == 'max' and dst in core.flows_forward(f, c2.dest[0]) for c2 in f.calls):
                ctx.ok(rid, key + '|joined-by-max', c.where(), 'id sources joined with max', nontrivial=False)
            else:
                allo = deep_arith(f, c.args[1])
                srcs = {('quarantine' if 'corrupted' in o.data.fn.id else 'workdir') for o in allo if o.kind == 'call' and o.data.target in ID_TARGETS}
                if len(srcs) >= 2:
                    ctx.bad(rid, key + '|joined-by-max', c.where(), 'ids of the work dir and of the quarantine dir both feed the id counter but are not joined by a maximum: one of them is ignored on some path, and an id that is in use there can be handed out again')
    if n < 3:
        raise core.AnchorLost('next_blob_id uses: %d' % n)


def h6d(ctx, rid):
    """in read_blobs the id parsed from the name of a blob that failed to open is merged into max_blob_id on every path through the
    error arm (ignored, quarantined or propagated) - not only when the blob is quarantined"""
    prog = ctx.prog
    f = prog.body_of('storage::core::Storage::<K>::read_blobs')
    if f is None:
        raise core.AnchorLost('read_blobs')
    key = 'failed-id-on-every-error-path|storage::core::Storage::<K>::read_blobs'
    ids = [c for c in f.calls if c.target == 'blob::file_name::FileName::id']
    if not ids:
        ctx.bad(rid, key, f.where(), 'the id of a blob that failed to open is not taken from its file name at all')
        return
    # update blocks: assignments whose value originates in such an id() call and whose destination is the max-id accumulator
    upd = set()
    for i, b in enumerate(f.blocks):
        if b['c'] or i not in f.reachable():
            continue
        for s in b['s']:
            if s['k'] == 'a' and not s['d'][1]:
                nm = f.debug_name(s['d'][0])
                if nm and 'max' in nm and any(o.kind == 'call' and o.data.target == 'blob::file_name::FileName::id' for o in core.origins(f, s['d'][0]) if True):
                    if any(p[0] != s['d'][0] or True for p in core.rvalue_places(s['r'])):
                        ogs = []
                        for o in core.rvalue_operands(s['r']):
                            ogs += core.origins(f, o)
                        if any(o.kind == 'call' and o.data.target == 'blob::file_name::FileName::id' for o in ogs):
                            upd.add(i)
        t = b['t']
        if t['k'] == 'call':
            c = f.call_at(i)
            nm = f.debug_name(c.dest[0]) if not c.dest[1] else None
            if nm and 'max' in nm and c.name == 'max':
                ogs = []
                for a in c.args:
                    ogs += core.origins(f, a)
                if any(o.kind == 'call' and o.data.target == 'blob::file_name::FileName::id' for o in ogs):
                    upd.add(i)
    # the error arm: Err edge of the switch on the per-blob open result
    err_entries = []
    for j in f.reachable():
        t = f.blocks[j]['t']
        if t['k'] != 'switch':
            continue
        l = op_local(t['o'])
        for (bb, si, kind, r) in f.defs().get(l, []):
            if kind == 'assign' and r['k'] == 'discr':
                ty = core.place_type_str(f, r['p']) or ''
                if ty.startswith('std::result::Result<blob::core::Blob<'):
                    for v, tg in t['vals']:
                        if v == 1:
                            err_entries.append(tg)
    if not err_entries or not upd:
        ctx.bad(rid, key, ids[0].where(), 'error arm / id accumulation not found (arms: %d, updates: %d)' % (len(err_entries), len(upd)))
        return
    # excuse: the file name could not be parsed (Err edge of FileName::from_path)
    excuse = []
    for c in f.calls:
        if c.name == 'from_path' and 'FileName' in c.path:
            carry = core.result_flow(f, c)
            for j in f.reachable():
                t = f.blocks[j]['t']
                if t['k'] == 'switch':
                    l = op_local(t['o'])
                    for (bb, si, kind, r) in f.defs().get(l, []):
                        if kind == 'assign' and r['k'] == 'discr' and r['p'][0] in carry:
                            for v, tg in t['vals']:
                                if v == 1:
                                    excuse.append(tg)
                            if all(v == 0 for v, _ in t['vals']):
                                excuse.append(t['otherwise'])
    # sinks of the arm: things that happen to the failed blob (log-and-skip, quarantine, propagate)
    saves = [c.bb for c in f.calls if c.name == 'save_corrupted_blob']
    ign = [c.bb for c in f.calls if c.name == 'ignore_corrupted']
    reach = f.reach_from(err_entries, avoid_exit=list(upd), avoid_enter=excuse)
    late = [b for b in saves + ign if b in reach]
    if late:
        ctx.bad(rid, key, f.where(late[0]), 'on some path through the error arm (e.g. ignore_corrupted) the failed blob\'s id is not merged into max_blob_id before the blob is skipped/quarantined: next_blob_id can point at an id whose file is still in the directory',
                witness=['bb%d %s' % (b, f.where(b)) for b in (f.path(err_entries, late, avoid_exit=list(upd), avoid_enter=excuse) or [])])
    else:
        ctx.ok(rid, key, ids[0].where(), 'the id of the failed blob is merged into max_blob_id before any of ignore / quarantine / propagate')


def h7(ctx, rid):
    prog = ctx.prog
    n = 0
    for f in prog.fns.values():
        for c in f.calls:
            if prim_kind(c) != 'rename' or c.name == 'poll' or module_of_fn(f) != 'storage::core':
                continue
            n += 1
            root = prog.fns[f.id].root
            key = 'quarantine|%s' % root
            # source = the blob path parameter; dest derived from corrupted dir name
            src_o = core.origins_ip(prog, f, c.args[0], depth=2)
            dst_o = core.origins_ip(prog, f, c.args[1], depth=2)
            if not any(o.kind == 'call' and o.data.name == 'join' for o in dst_o):
                ctx.bad(rid, key, c.where(), 'rename destination is not built by joining onto the quarantine directory')
                continue
            # the quarantined file keeps its own name: the ids of quarantined blobs are parsed from these names at every later start
            # (C07.H6), so the joined component is the file_name() of the blob path and nothing else
            renamed = None
            for o in dst_o:
                if o.kind == 'call' and o.data.name == 'join' and len(o.data.args) > 1:
                    def ext(c2):
                        return 0 if c2.name in ('to_os_string', 'to_owned', 'to_path_buf', 'clone', 'ok_or_else', 'ok_or', 'branch', 'as_os_str', 'into', 'as_ref', 'unwrap', 'expect', 'to_string_lossy', 'to_str') else None
                    nm = core.origins(o.fn, o.data.args[1], extra_transparent=ext)
                    if not nm or not all(x.kind == 'call' and x.data.name == 'file_name' for x in nm):
                        renamed = [x for x in nm if not (x.kind == 'call' and x.data.name == 'file_name')][:2]
            if renamed is not None:
                ctx.bad(rid, key, c.where(), 'the blob is quarantined under a name that is not its own file name (%s): its id can no longer be parsed from the quarantine directory, the id counter falls back after a restart and the id is handed out again' % renamed)
                continue
            # every other use of the source path in this body
            body = f
            arg_locals = set()
            for o in core.origins_ip(prog, f, c.args[0], depth=0):      # the parameters of this body the source path comes from
                if o.kind == 'arg':
                    arg_locals.add(o.data)
            badu = []
            for l in arg_locals:
                carry = core.flows_forward(body, l)
                for c2 in body.calls:
                    if c2.bb == c.bb or c2.name == 'poll':
                        continue
                    k2 = prim_kind(c2)
                    if k2 and any(op_local(a) in carry for a in c2.args):
                        badu.append(c2)
                    if k2 == 'rename' and len(c2.args) > 1 and op_local(c2.args[1]) in carry:
                        badu.append(c2)
            if badu:
                ctx.bad(rid, key, badu[0].where(), 'the quarantined blob path also flows into `%s`' % prims.base(badu[0].target))
            else:
                ctx.ok(rid, key, c.where(), 'blob path flows only into rename (source)')
    if n < 1:
        raise core.AnchorLost('no quarantine rename')


def h9(ctx, rid):
    """the offline tools never truncate a file that still holds the only copy of its data (C16.W3 instances)"""
    import props.c16 as c16
    c16.w3(ctx, rid)


def h10(ctx, rid):
    """one process at a time: every file of the io layer - created or re-opened - takes the exclusive advisory lock (F_WRLCK).
    Re-opened blobs are written too (the newest blob becomes the active blob again); with a shared lock two processes both
    restore it as active and overwrite each other\'s appends."""
    prog = ctx.prog
    n = 0
    for f in prog.fns.values():
        if not f.file.startswith('src/io/unix/'):
            continue
        for i, b in enumerate(f.blocks):
            if b['c'] or i not in f.reachable():
                continue
            for st in b['s']:
                if st['k'] == 'a' and st['r']['k'] == 'agg' and (st['r'].get('adt') or '').endswith('flock') and 'l_type' in st['r'].get('fields', []):
                    n += 1
                    op = st['r']['ops'][st['r']['fields'].index('l_type')]
                    lv = core.scalar_leaves(prog, f, op, depth=0)
                    vals = {v for k, v in lv if k == 'const'}
                    other = {x for x in lv if x[0] != 'const'}
                    key = 'exclusive-file-lock|%s' % prog.fns[f.id].root
                    if vals == {1} and not other:
                        ctx.ok(rid, key, f.where(i), 'l_type = F_WRLCK')
                    else:
                        ctx.bad(rid, key, f.where(i), 'the advisory lock type is not the constant F_WRLCK (%s): some files are opened with a shared or no lock, and a second process can open and write a blob that this process writes' % sorted(str(x) for x in (vals | other)))
    if n < 1:
        raise core.AnchorLost('flock constructions in src/io/unix: %d' % n)


def h11(ctx, rid):
    """a record written in two parts goes to the file front to back: the part at the reserved offset is written before the part
    at `offset + len(first)`.  Written back to front, the file already extends past a hole of zeros where the head will be: the
    head write then lands below the end of the blob - an overwrite, not an append - and a snapshot taken in between is not a
    prefix of the finished file"""
    prog = ctx.prog
    n = 0

    def shifted(g, c):
        """the offset of raw write `c` in body `g` is an arithmetic function of the reserved offset"""
        ogs = core.origins(g, c.args[2], stop_fields=True)
        if any(o.kind == 'binop' for o in ogs):
            return True
        if g.kind == 'Closure' and any(o.kind == 'upvar' for o in ogs):
            # `offset = offset + b1.len()` on a captured variable before the write
            for i in g.reachable():
                for st in g.blocks[i]['s']:
                    if st['k'] == 'a' and st['d'][0] == 1 and st['d'][1] and c.bb in g.reach_from([i]):
                        r = st['r']
                        if r['k'] == 'bin' or (r['k'] == 'use' and any(o.kind == 'binop' for o in core.origins(g, r['o'], stop_fields=True))):
                            return True
        return False

    def before(ga, a, gb, b):
        """write a (in body ga) is performed before write b (in body gb)"""
        if ga is gb:
            return ga.term_dominates(a.bb, b.bb)
        if gb.parent == ga.id:
            sites = [bb for (p2, bb, r) in core.closure_construction_sites(prog, gb.id) if p2.id == ga.id]
            return bool(sites) and all(ga.term_dominates(a.bb, sb) or a.bb == sb for sb in sites)
        return False
    for f in prog.fns.values():
        if not f.file.startswith('src/io/') or f.kind == 'Closure':
            continue
        fam = [prog.fns[x] for x in prog.family(f.id) if x in prog.fns]
        ws = [(g, c) for g in fam for c in g.calls if c.bb in g.reachable() and prims.is_raw(c, prims.RAW_WRITE_AT)]
        tails = [(g, c) for (g, c) in ws if shifted(g, c)]
        heads = [(g, c) for (g, c) in ws if not shifted(g, c)]
        if not tails or not heads:
            continue
        for (gt, t) in tails:
            rel = [(gh, h) for (gh, h) in heads if before(gh, h, gt, t) or before(gt, t, gh, h)]
            if not rel:
                continue
            n += 1
            key = 'two-part-write-front-to-back|%s' % f.id
            wrong = [(gh, h) for (gh, h) in rel if before(gt, t, gh, h)]
            if wrong:
                ctx.bad(rid, key, t.where(), 'the part at `offset + len` is written before the part at the reserved offset (%s): the file grows past an unwritten hole and the head is written below the end of the file afterwards' % wrong[0][1].where())
            else:
                ctx.ok(rid, key, t.where(), 'the write at the reserved offset comes first')
    if n < 1:
        raise core.AnchorLost('two-part positional writes: %d' % n)


def h12(ctx, rid):
    """the length of a blob file changes only through its positional writes: no preallocation / truncation call (fallocate,
    posix_fallocate, ftruncate, set_len on a blob descriptor) in the io, record and blob code.  A preallocated zero tail makes every
    later record write land below the end of the file, and a crash in between leaves zeros inside the blob"""
    prog = ctx.prog
    DENY = ('posix_fallocate', 'fallocate', 'fallocate64', 'ftruncate', 'ftruncate64', 'truncate', 'truncate64')
    n = 0
    bad = None
    for f in prog.fns.values():
        if not (f.file.startswith('src/io/') or f.file.startswith('src/record/') or f.file.startswith('src/blob/')):
            continue
        n += 1
        for c in f.calls:
            if c.bb in f.reachable() and c.name in DENY and (c.decl_crate in ('nix', 'libc', 'rustix') or c.crate in ('nix', 'libc', 'rustix')):
                bad = c
    if n < 100:
        raise core.AnchorLost('functions in the io / record / blob code: %d' % n)
    if bad:
        ctx.bad(rid, 'length-changes-only-by-writes', bad.where(), 'the length of a file is changed by `%s`: bytes of the blob exist before they are written, so the record write that follows is not an append' % bad.full[:60])
    else:
        ctx.ok(rid, 'length-changes-only-by-writes', '', 'no preallocation / truncation call in %d functions' % n, nontrivial=False, queries=n)


def h13(ctx, rid):
    """the id counter is seeded strictly above the largest id in use: the bodies that seed `next_blob_id` (store / fetch_max)
    compute `max + 1` with the checked `+` - no saturating or wrapping addition in them or in their closures.  At the boundary a
    saturating add yields the largest id itself: the next blob would get the name of a file that exists and be appended to it"""
    prog = ctx.prog
    n = 0
    bad = None
    for f in prog.fns.values():
        seeds = [c for c in f.calls if c.bb in f.reachable() and c.name in ('store', 'fetch_max') and c.path.startswith('std::sync::atomic::Atomic')
                 and prims.receiver_field(f, c) == 'next_blob_id']
        if not seeds:
            continue
        n += 1
        fam = set(prog.family(f.id))
        # closures built in the body whose definition lives elsewhere (the closure of an inlined helper)
        for i in f.reachable():
            for st in f.blocks[i]['s']:
                if st['k'] == 'a' and st['r']['k'] == 'agg' and st['r'].get('def'):
                    fam.add(st['r']['def'])
        for gid in fam:
            g = prog.fns.get(gid)
            if g is None:
                continue
            for c in g.calls:
                if c.bb in g.reachable() and c.name in ('saturating_add', 'wrapping_add', 'overflowing_add'):
                    bad = c
    if n < 2:
        raise core.AnchorLost('bodies that seed next_blob_id: %d' % n)
    if bad:
        ctx.bad(rid, 'seed-strictly-above-max', bad.where(), 'a body that seeds the id counter uses `%s`: for the largest representable id the counter is seeded with an id that is in use' % bad.name)
    else:
        ctx.ok(rid, 'seed-strictly-above-max', '', 'no saturating / wrapping addition in %d seeding bodies' % n, nontrivial=False, queries=n)


RULES = [
    Rule('C07.H1', 'every raw destructive OS primitive call site lies in the owner module of its kind', h1, 8),
    Rule('C07.H2', 'in-crate positional write wrappers are called only by index-file builders, at constant offset 0, on the file they created', h2, 1),
    Rule('C07.H11', 'a two-part record is written front to back', h11, 1),
    Rule('C07.H12', 'no preallocation or truncation call changes the length of a blob file', h12, 1),
    Rule('C07.H13', 'the id counter is seeded with max + 1 computed by the checked addition', h13, 1),
    Rule('C07.H3', 'offsets of appends originate only in FileInner.size.fetch_add; the size counter is only loaded / fetch_add-ed', h3, 5),
    Rule('C07.H4', 'truncating create, remove and index-file creation act on paths derived from with_extension("index")', h4, 4),
    Rule('C07.H9', 'the tools never truncate their own input: in-place recovery renames first (C16.W3 instances)', h9, 2),
    Rule('C07.H10', 'every file of the io layer takes the exclusive advisory lock', h10, 1),
    Rule('C07.H5', 'the call-graph closure of every query entry point contains no file mutator', h5, len(QUERY_ENTRIES)),
    Rule('C07.H6', 'next_blob_id is only loaded / fetch_add-ed; stores happen under &mut Storage and include failed-blob and quarantine-directory ids', h6, 3),
    Rule('C07.H6d', 'the id of a blob that failed to open is accounted on every path of the error arm of read_blobs', h6d, 1),
    Rule('C07.H7', 'the quarantined blob path flows only into rename as source; destination is joined onto the quarantine dir', h7, 1),
]
