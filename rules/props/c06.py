"""C06 Crash recovery: classification of open errors, scan extent, init fallback."""
import core
import prims
import blobs
from core import op_local, op_const
from engine import Rule

EXPLANATION = (
    "K1: the set of error kinds that read_blobs quarantines is read from should_save_corrupted_blob (Bincode, Validation minus "
    "BlobVersion); in the blob-opening code every result of a blob-file read passes into_bincode_if_unexpected_eof before its `?`, "
    "every bincode decode passes Error::from / ErrorKind::Bincode, so that a file cut anywhere yields a quarantine-class error "
    "instead of failing init. K2: the sequential scan accepts a header only on a path that compared the advanced offset with the "
    "file size (or read the whole extent), and leaves its loop only when the bare current offset reaches the file size. K4: "
    "quarantine is a rename that preserves bytes (C07.H7 instance). K5: the init path that promotes an existing blob to active is "
    "dominated by the non-empty edge of the opened-blob list; every other way creates a fresh blob; an Err of read_blobs is the only "
    "way init fails on content. K6: every validation failure inside the scan (magic, header CRC, key size) is constructed through "
    "Error::validation / Error::bincode, i.e. is of a quarantine class. Decides this error-classification structure, not the set "
    "of post-crash states.")
EXPLANATION += (" " + 'K9 = C05.V7; K10 no io::Error of a kind other than UnexpectedEof is constructed in a read wrapper of src/io; K11 the switch that guards try_regenerate_index in Blob::from_file depends on the file size and one serialized_size() only; K12 = C03.I10.')
ASSUMPTIONS = ["power-loss ordering between page-cache writes (F11, written flag vs body) is not decidable here and not claimed"]

BLOB_READERS = ('read_exact_at_allocate', 'read_exact_at', 'read_all')
SCAN_FILES = ('src/blob/core.rs', 'src/blob/header.rs')


def quarantine_classes(prog):
    f = prog.fns.get('storage::core::Storage::<K>::should_save_corrupted_blob')
    if f is None:
        raise core.AnchorLost('should_save_corrupted_blob')
    # discriminant switch on error::Kind: which variant indices lead to `true`
    adt = prog.adts.get('error::Kind')
    names = [v['name'] for v in adt['variants']]
    out = set()
    for i in f.reachable():
        t = f.blocks[i]['t']
        if t['k'] != 'switch':
            continue
        l = op_local(t['o'])
        for (bb, si, kind, r) in f.defs().get(l, []):
            if kind == 'assign' and r['k'] == 'discr':
                ty = core.place_type_str(f, r['p']) or ''
                if ty.startswith('error::Kind') or ty.startswith('&error::Kind'):
                    for v, tg in t['vals']:
                        out.add(names[v])
    return out


def k1(ctx, rid):
    prog = ctx.prog
    cls = quarantine_classes(prog)
    if not {'Bincode', 'Validation'} <= cls:
        ctx.bad(rid, 'classes', '', 'should_save_corrupted_blob no longer treats Bincode and Validation errors as corruption: %s' % sorted(cls))
    else:
        ctx.ok(rid, 'classes', prog.fns['storage::core::Storage::<K>::should_save_corrupted_blob'].where(), 'quarantine classes: %s' % sorted(cls))
    n = 0
    for f in prog.fns.values():
        if f.file not in SCAN_FILES:
            continue
        for c in f.calls:
            if c.bb not in f.reachable() or c.name == 'poll':
                continue
            is_read = c.name in BLOB_READERS and 'File' in c.path and c.crate == 'pearl'
            is_decode = (c.decl_crate == 'bincode' and c.name in ('deserialize', 'deserialize_from')) or (c.crate == 'pearl' and c.name == 'from_raw')
            if not (is_read or is_decode):
                continue
            root = prog.fns[f.id].root
            if not (root.startswith('blob::core::RawRecords') or root.startswith('blob::header::Header')):
                continue
            n += 1
            key = '%s|%s|%s|L-rel' % ('read' if is_read else 'decode', root, c.name)
            key = key + str(sum(1 for x in f.calls if x.bb < c.bb and x.name == c.name))
            carry = core.result_flow(f, c)
            conv = None
            for m in f.calls:
                if m.name != 'map_err' or not m.args or op_local(m.args[0]) not in carry:
                    continue
                for a in m.args[1:]:
                    k = core.op_const(a)
                    if k and 'fn' in k:
                        # `.map_err(Error::from)` / `.map_err(IntoBincode..::into_bincode_if_unexpected_eof)`: a function item
                        pth = (k['fn'].get('res') or k['fn'].get('path') or '') + ' ' + k['fn'].get('full', '')
                        if is_read and 'into_bincode_if_unexpected_eof' in pth:
                            conv = m
                        if is_decode and 'error::Error' in pth and ('::from' in pth):
                            conv = m
                        # a named in-crate mapper (`.map_err(Self::eof_into_bincode)`): judged by its body, like a closure
                        named = prog.body_of(k['fn'].get('res') or k['fn'].get('path') or '')
                        if named is not None:
                            names = [x.name for x in named.calls]
                            aggs = [s2['r'] for b in named.blocks for s2 in b['s'] if s2['k'] == 'a' and s2['r']['k'] == 'agg']
                            if is_read and 'into_bincode_if_unexpected_eof' in names:
                                conv = m
                            if is_decode and (any(x.name == 'from' and 'error::Error' in x.full for x in named.calls) or any(a2.get('adt') == 'error::Kind' and a2.get('variant') == 'Bincode' for a2 in aggs)):
                                conv = m
                    l = op_local(a)
                    if l is not None and f.locals[l].get('h') == 'closure':
                        cl = prog.fns[f.locals[l]['a'][0]]
                        names = [x.name for x in cl.calls]
                        aggs = [s['r'] for b in cl.blocks for s in b['s'] if s['k'] == 'a' and s['r']['k'] == 'agg']
                        if is_read and 'into_bincode_if_unexpected_eof' in names:
                            conv = m
                        if is_decode and (any(x.name == 'from' and 'error::Error' in x.full for x in cl.calls) or any(a2.get('adt') == 'error::Kind' and a2.get('variant') == 'Bincode' for a2 in aggs)):
                            conv = m
            if conv is None:
                ctx.bad(rid, key, c.where(), ('a blob-file read whose error is propagated without into_bincode_if_unexpected_eof: a blob cut at this point makes init() fail with UnexpectedEof instead of quarantining the blob'
                                               if is_read else 'a decode of blob bytes whose error is not converted to the Bincode class: a damaged blob makes init() fail instead of being quarantined'))
                continue
            cc = core.flows_forward(f, conv.dest[0], transparent=core.fwd_transparent)
            early = [b for b in f.calls if b.name == 'branch' and b.args and op_local(b.args[0]) in carry and op_local(b.args[0]) not in cc]
            if early:
                ctx.bad(rid, key, early[0].where(), 'the result is `?`-propagated before the conversion is applied')
            else:
                ctx.ok(rid, key, c.where(), 'converted to the quarantine class before `?`')
    if n < 5:
        raise core.AnchorLost('blob read/decode sites: %d' % n)


def extent_checks(rc):
    """(switch block, passing targets) of comparisons of `current_offset` with file.size() whose failing edge only reaches error
    exits"""
    sizes = [c for c in rc.calls if c.name == 'size' and 'File' in c.path]
    checks = []
    for c in sizes:
        carry = core.flows_forward(rc, c.dest[0])
        for i, b in enumerate(rc.blocks):
            if b['c'] or i not in rc.reachable():
                continue
            for s in b['s']:
                if s['k'] == 'a' and s['r']['k'] == 'bin' and s['r']['op'] in ('Gt', 'Lt', 'Ge', 'Le') and any(op_local(o) in carry for o in (s['r']['a'], s['r']['b'])):
                    other = s['r']['b'] if op_local(s['r']['a']) in carry else s['r']['a']
                    ogs = core.origins(rc, other, stop_fields=True)
                    if any(o.kind == 'field' and o.data[1] == 'current_offset' for o in ogs):
                        c2 = core.flows_forward(rc, s['d'][0])
                        for j in rc.reachable():
                            t = rc.blocks[j]['t']
                            if t['k'] == 'switch' and op_local(t['o']) in c2:
                                tg = [x for _, x in t['vals']] + [t['otherwise']]
                                okt = [x for x in tg if not only_err_from(rc, x)]
                                if len(okt) < len(tg):
                                    checks.append((j, okt))
    return checks


def k2(ctx, rid):
    prog = ctx.prog
    ld = prog.body_of('blob::core::RawRecords::load')
    rc = prog.body_of('blob::core::RawRecords::read_current_record')
    if ld is None or rc is None:
        raise core.AnchorLost('RawRecords::load / read_current_record')
    # (a) acceptance (Ok exit of read_current_record) dominated by an extent check: a comparison of current_offset with file.size()
    #     whose failing edge only reaches error exits, or a full read of the data
    exits = [bb for (bb, k, _) in core.exit_defs(rc) if k in ('ok', 'fwd', 'val') and bb in rc.reachable()]
    checks = extent_checks(rc)
    # the check may live in a helper of the same type that is `?`-ed here: its ok edge is the passing edge
    for c in rc.calls:
        if c.name == 'poll' or c.bb not in rc.reachable():
            continue
        for t in prog.resolve(c):
            g = prog.body_of(t) if t in prog.fns else None
            if g is None or g.id == rc.id or 'RawRecords' not in t:
                continue
            gc = extent_checks(g)
            if not gc:
                continue
            gex = [bb for (bb, k, _) in core.exit_defs(g) if k in ('ok', 'fwd', 'val') and bb in g.reachable()]
            gpass = [x for (j, okt) in gc for x in okt]
            if gex and not any(e in g.reach_from([0], avoid_enter=gpass) for e in gex):
                ob = core.ok_block(rc, c)
                if ob is not None:
                    checks.append((c.bb, [ob]))
    key = 'scan-extent|blob::core::RawRecords::read_current_record'
    if not checks:
        ctx.bad(rid, key, rc.where(), 'a scanned record header is accepted without comparing the end of its extent (offset after meta and data) with the file size: header+meta without data at the tail is accepted, the next session appends inside the claimed extent and loses that write at the following regeneration')
    else:
        # every ok exit is reached only through the passing edge of such a check
        passing = [x for (j, okt) in checks for x in okt]
        reach = rc.reach_from([0], avoid_enter=passing)
        if any(e in reach for e in exits):
            ctx.bad(rid, key, rc.where(), 'an ok-return of the record scan step is reachable without the extent check')
        else:
            # and the offset compared is the fully advanced one: no write to current_offset after the check
            adv_after = []
            for (j, okt) in checks:
                region = rc.reach_from(okt)
                for i in region:
                    for s in rc.blocks[i]['s']:
                        if s['k'] == 'a' and core.place_fields(s['d'])[-1:] == ['current_offset']:
                            adv_after.append(i)
            if adv_after:
                ctx.bad(rid, key, rc.where(adv_after[0]), 'the scan offset is advanced after the extent check: the check does not cover the whole record')
            else:
                ctx.ok(rid, key, rc.where(), 'every accepted header passed `current_offset (after meta+data) <= file.size()`')
    # (b) loop condition of load: bare current_offset < file.size()
    key2 = 'scan-loop-exit|blob::core::RawRecords::load'
    good = False
    why = 'no loop condition comparing the scan offset with the file size found'
    for i, b in enumerate(ld.blocks):
        if b['c'] or i not in ld.reachable():
            continue
        for s in b['s']:
            if s['k'] == 'a' and s['r']['k'] == 'bin' and s['r']['op'] in ('Lt', 'Gt', 'Le', 'Ge', 'Ne'):
                oa = core.origins(ld, s['r']['a'], stop_fields=True)
                ob = core.origins(ld, s['r']['b'], stop_fields=True)
                a_off = any(o.kind == 'field' and o.data[1] == 'current_offset' for o in oa)
                b_off = any(o.kind == 'field' and o.data[1] == 'current_offset' for o in ob)
                a_sz = any(o.kind == 'call' and o.data.name == 'size' for o in oa)
                b_sz = any(o.kind == 'call' and o.data.name == 'size' for o in ob)
                def arith_on_offset(ogs):
                    for o in ogs:
                        if o.kind == 'binop':
                            for x in (o.data['a'], o.data['b']):
                                if any(y.kind == 'field' and y.data[1] == 'current_offset' for y in core.origins(ld, x, stop_fields=True)):
                                    return True
                    return False
                if (arith_on_offset(oa) and (b_sz or any(o.kind == 'call' and o.data.name == 'size' for o in ob))) or (arith_on_offset(ob) and a_sz):
                    why = 'the loop condition compares an arithmetic expression on the scan offset, not the bare offset, with the file size: a partial record header at the tail is silently skipped instead of being detected'
                    continue
                if (a_off and b_sz) or (b_off and a_sz):
                    off_side = oa if a_off else ob
                    if any(o.kind == 'binop' for o in off_side) or any(o.kind == 'binop' for o in (ob if a_off else oa)):
                        why = 'the loop condition compares an arithmetic expression, not the bare scan offset, with the file size: a partial record header at the tail is silently skipped instead of being detected'
                        continue
                    op = s['r']['op']
                    strict = (op == 'Lt' and a_off) or (op == 'Gt' and b_off) or op == 'Ne'
                    if strict:
                        good = True
                    else:
                        why = 'loop condition is not `current_offset < file.size()`'
    if good:
        ctx.ok(rid, key2, ld.where(), 'the scan continues while current_offset < file.size(): every trailing byte is either parsed or reported')
    else:
        ctx.bad(rid, key2, ld.where(), why)


def only_err_from(f, b):
    reach = core.reach_from_cp(f, [b])
    kinds = [k for (bb, k, _) in core.exit_defs(f) if bb in reach]
    return bool(kinds) and all(k == 'err' for k in kinds)


def k4(ctx, rid):
    import props.c07 as c07
    c07.h7(ctx, rid)


def k5(ctx, rid):
    prog = ctx.prog
    f = prog.body_of('storage::core::Storage::<K>::init_from_existing')
    if f is None:
        raise core.AnchorLost('init_from_existing')
    # promotion of an already existing blob: the helper pop_active, or a direct pop() from the vector of opened blobs
    def sites(g):
        return ([c for c in g.calls if c.bb in g.reachable() and ('storage::core::Storage::<K>::pop_active' in prog.resolve(c)
                 or (c.name == 'pop' and c.path.startswith('std::vec::Vec') and 'blob::core::Blob<' in c.full))],
                [c for c in g.calls if c.bb in g.reachable() and blobs.is_fresh_call(prog, c)])
    pops, news = sites(f)
    if not pops or not news:
        # the selection may have been extracted into a helper of init_from_existing
        for c in f.calls:
            for t in prog.resolve(c):
                g = prog.body_of(t) if t in prog.fns else None
                if g is not None and g.id != f.id and g.file == f.file:
                    p2, n2 = sites(g)
                    if p2 and n2:
                        f, pops, news = g, p2, n2
    if not pops or not news:
        raise core.AnchorLost('pop_active / open_new in init_from_existing')
    key = 'promote-only-if-nonempty|storage::core::Storage::<K>::init_from_existing'
    # the non-empty edge: switch on the result of Vec::is_empty() of the opened-blob list; false edge target
    ne_edges = []
    guard_ops = []
    for c in f.calls:
        if c.name == 'is_empty' and c.path.startswith('std::vec::Vec') and 'Blob' in c.full:
            carry = core.flows_forward(f, c.dest[0])
            for i in f.reachable():
                t = f.blocks[i]['t']
                if t['k'] == 'switch' and op_local(t['o']) in carry:
                    # a conjunction with other conditions sends the "empty" case to the else branch too
                    for v, tg in t['vals']:
                        if v == 0:
                            ne_edges.append((i, tg))
                    guard_ops.append(i)
    if not ne_edges:
        ctx.bad(rid, key, pops[0].where(), 'the promotion of an existing blob is not guarded by a test that the opened-blob list is non-empty')
        return
    # pop_active must only be reachable through the non-empty edge, and no other condition may route the empty case to it:
    # i.e. avoiding the `false` (non-empty) targets, pop_active is unreachable
    tg = [x for (_, x) in ne_edges]
    reach = f.reach_from([0], avoid_enter=tg)
    if any(p.bb in reach for p in pops):
        ctx.bad(rid, key, pops[0].where(), 'pop_active (which fails on an empty list with Uninitialized) is reachable on a path where the opened-blob list may be empty: with ignore_corrupted a directory whose only blob is torn makes init() fail',
                witness=['bb%d %s' % (b, f.where(b)) for b in (f.path([0], [p.bb for p in pops], avoid_enter=tg) or [])])
    else:
        ctx.ok(rid, key, pops[0].where(), 'pop_active only on the non-empty edge; the empty case creates a fresh blob')


def k6(ctx, rid):
    prog = ctx.prog
    n = 0
    for f in prog.fns.values():
        if f.file not in SCAN_FILES and f.file != 'src/record/record.rs':
            continue
        root = prog.fns[f.id].root
        if not (root.startswith('blob::core::RawRecords') or root.startswith('blob::header::Header') or root in ('record::record::Header::validate', 'record::record::Header::data_checksum_audit', 'record::record::Header::from_raw')):
            continue
        for (bb, kind, payload) in core.exit_defs(f):
            if kind != 'err' or not isinstance(payload, dict) or bb not in f.reachable():
                continue
            n += 1
            key = 'explicit-err-class|%s|%d' % (root, sum(1 for (b2, k2, p2) in core.exit_defs(f) if k2 == 'err' and isinstance(p2, dict) and b2 < bb))
            ogs = core.origins(f, payload['ops'][0])
            calls = [o.data for o in ogs if o.kind == 'call']
            good = [x for x in calls if x.crate == 'pearl' and x.name in ('validation', 'bincode', 'from') and 'error::Error' in x.full]
            conv = [x for x in calls if x.name in ('into_bincode_if_unexpected_eof',)]
            fwd = [x for x in calls if x not in good and x not in conv and x.fn.locals[x.dest[0]].get('h') == 'std::result::Result' and not x.dest[1]]
            if fwd and len(fwd) + len(good) + len(conv) == len(calls):
                # `Err(e) => Err(e)`: the error of a callee's Result handed on unchanged - the same as `?` (classified at its origin)
                n -= 1
                continue
            if (good or conv) and len(good) + len(conv) == len(calls):
                ctx.ok(rid, key, f.where(bb), 'error built by %s' % (good + conv)[0].name)
            else:
                ctx.bad(rid, key, f.where(bb), 'an explicit error of the blob scan is not of a quarantine class (origins: %s)' % [x.full[:60] for x in calls])
    if n < 4:
        raise core.AnchorLost('explicit error exits in the scan: %d' % n)


def k7(ctx, rid):
    """the index trust gate is part of crash recovery: index files torn at every written length (C03.I2/I5/I8 instances)"""
    import props.c03 as c03
    c03.i2(ctx, rid)
    c03.i5(ctx, rid)
    c03.i8(ctx, rid)


def k8(ctx, rid):
    """writes made after recovery survive further restarts only if a skipped/quarantined blob's id is never handed out again
    (C07.H6 / H6d instances)"""
    import props.c07 as c07
    c07.h6(ctx, rid)
    c07.h6d(ctx, rid)


def k9(ctx, rid):
    import props.c05 as c05
    c05.v7(ctx, rid)


def k10(ctx, rid):
    """a read that the file cannot satisfy is reported by the io layer as UnexpectedEof and nothing else: the recovery
    classification (`into_bincode_if_unexpected_eof`) turns exactly that kind into a quarantine-class error.  An io::Error of
    another kind constructed on a read path (e.g. InvalidInput for "offset beyond the file") escapes the classification: a blob
    cut inside its tail record makes init fail instead of being quarantined."""
    prog = ctx.prog
    n = 0
    bad = 0
    for f in prog.fns.values():
        if not f.file.startswith('src/io/'):
            continue
        root = prog.fns[f.id].root
        if 'read' not in root.split('::')[-1]:
            continue
        if f.id == root:
            n += 1
        for c in f.calls:
            makes_err = c.path.startswith('std::io::Error') and c.name in ('new', 'other', 'from')
            if not makes_err and c.name in ('into', 'from') and c.dest and f.locals[c.dest[0]]['s'].startswith('std::io::Error') and c.args \
               and 'ErrorKind' in f.locals[op_local(c.args[0])]['s'] if (c.args and op_local(c.args[0]) is not None) else False:
                makes_err = True
            if makes_err and c.bb in f.reachable():
                kinds = [o.data.get('variant') for o in core.origins(f, c.args[0]) if o.kind == 'agg' and o.data.get('adt') == 'std::io::ErrorKind'] if c.args else []
                if kinds and all(k == 'UnexpectedEof' for k in kinds):
                    # pre-empting the OS is right only when the requested *range* does not fit: the decision must involve the
                    # length of the read, not the offset alone (a zero-length read at the very end of a file is satisfiable)
                    lv = set()
                    sites = []
                    for sw in core.deciding_switches(f, c.bb):
                        lv |= core.scalar_leaves(prog, f, f.blocks[sw]['t']['o'], depth=1, sites=sites)
                    other = [v2 for (k2, v2) in lv if k2 in ('field', 'call') and str(v2) in ('written_size', 'synced_size', 'dirty_bytes')]
                    for (nm, fid2, bb2) in sites:
                        g2 = prog.fns.get(fid2)
                        c2 = g2.call_at(bb2) if g2 is not None else None
                        if nm == 'load' and c2 is not None and prims.receiver_field(g2, c2) in ('written_size', 'synced_size'):
                            other.append(prims.receiver_field(g2, c2))
                    if other:
                        # the extent of the file is its size: a counter that lags behind it (completed writes after a failed
                        # append, synced bytes) refuses reads of bytes that are in the file
                        bad += 1
                        ctx.bad(rid, 'read-error-kind|%s' % root, c.where(), 'the read wrapper `%s` refuses a read by comparing the requested range with `%s`, not with the size of the file: after a failed append that counter lags behind for the rest of the session and the newest acknowledged records of the blob cannot be read' % (root.split('::')[-1], other[0]))
                    elif ('call', 'len') in lv or any(k2 == 'arg' and 'size' in str(v2) for (k2, v2) in lv) or ('call', 'remaining') in lv:
                        ctx.ok(rid, 'read-error-kind|%s' % root, c.where(), 'UnexpectedEof, decided on the requested range')
                    else:
                        bad += 1
                        ctx.bad(rid, 'read-error-kind|%s' % root, c.where(), 'the read wrapper `%s` fails with UnexpectedEof on a condition that does not involve the length of the read (%s): a satisfiable read - zero bytes at the end of the file, the data of a trailing deletion record - is refused and a valid blob is treated as cut short' % (root.split('::')[-1], sorted(str(x) for x in lv)[:4]))
                else:
                    bad += 1
                    ctx.bad(rid, 'read-error-kind|%s' % root, c.where(), 'the read wrapper `%s` constructs an io::Error of kind %s: the open path classifies only UnexpectedEof as "file cut short" (quarantine); with this kind a blob cut by a power loss makes Storage::init fail' % (root.split('::')[-1], kinds or c.name))
    if n < 3:
        raise core.AnchorLost('read wrappers of the io layer: %d' % n)
    if not bad:
        ctx.ok(rid, 'read-error-kind|scan', '', '%d read wrappers construct no io::Error of their own (std reports short reads as UnexpectedEof)' % n, nontrivial=False, queries=n)


def k11(ctx, rid):
    """Blob::from_file scans the blob (and thereby validates / quarantines a torn tail) whenever the file holds anything beyond
    the blob header: the guard of the scan compares the file size with the blob header size alone.  Slack such as "at least one
    minimal record" lets a blob whose first record is torn become the active blob again; later writes land behind the torn bytes
    and are lost with the next index regeneration."""
    prog = ctx.prog
    n = 0
    for f in prog.fns.values():
        if not f.id.endswith('Blob::<K>::from_file::{closure#0}'):
            continue
        def regenerates(c):
            if c.name == 'try_regenerate_index':
                return True
            return any(t in prog.fns and prog.fns[t].file == f.file and any(x.name == 'try_regenerate_index' for g in prog.family(t) for x in prog.fns[g].calls)
                       for t in prog.resolve(c) if c.name != 'poll')
        regs = [c for c in f.calls if c.bb in f.reachable() and regenerates(c)]
        if not regs:
            continue
        # the comparison of the file size with the blob header size - evaluated in a branch here, or handed as a bool to a helper
        for i, b in enumerate(f.blocks):
            if b['c'] or i not in f.reachable():
                continue
            for st in b['s']:
                if st['k'] != 'a' or st['r']['k'] != 'bin' or st['r']['op'] not in ('Gt', 'Ge', 'Lt', 'Le', 'Eq', 'Ne'):
                    continue
                sites = []
                lv = set()
                for side in ('a', 'b'):
                    lv |= core.scalar_leaves(prog, f, st['r'][side], depth=0, sites=sites)
                if ('call', 'serialized_size') not in lv:
                    continue
                if not any(c.bb in f.reach_from([i]) for c in regs):
                    continue
                n += 1
                key = 'scan-unless-header-only|%s' % prog.fns[f.id].root
                sizes = {x for x in sites if x[0] == 'serialized_size'}
                extra = {x for x in lv if x[0] in ('const', 'field', 'arg') and x[1] not in (0, '0')}
                if len(sizes) == 1 and not extra:
                    ctx.ok(rid, key, f.where(i), 'the scan is skipped only when the file size does not exceed the blob header size')
                else:
                    ctx.bad(rid, key, f.where(i), 'the guard of the start-up scan adds slack to the blob header size (%s): a file that holds a torn first record is not scanned, not quarantined, and becomes the active blob with garbage in front of every later record' % sorted(str(x) for x in (extra or sizes)))
    if n < 1:
        raise core.AnchorLost('guard of try_regenerate_index in Blob::from_file: %d' % n)


def k12(ctx, rid):
    """what a dropped close() / a crash during the index dump leaves behind (an empty or cut index file) never fails the next
    start (C03.I10 instance)"""
    import props.c03 as c03
    c03.i10(ctx, rid)


def k13(ctx, rid):
    """with data validation enabled the recovery scan audits every record's data: the flag reaches the scan unchanged
    (C05.V8 instances)"""
    import props.c05 as c05
    c05.v8(ctx, rid)


def k14(ctx, rid):
    """an index file never becomes durable before the blob bytes it describes (C12.S2 instances): after a kill + restart + dump +
    power loss a complete index next to a cut blob makes the blob unrecoverable"""
    import props.c12 as c12
    c12.s2(ctx, rid)


def _eval_bool_from(f, start, env=None, limit=40):
    """follow the straight-line code from block `start` and return the bool assigned to _0 (None if a branch is met)"""
    env = dict(env or {})
    b = start
    while limit > 0:
        limit -= 1
        blk = f.blocks[b]
        for st in blk['s']:
            if st['k'] != 'a' or st['d'][1]:
                continue
            r = st['r']
            val = None
            if r['k'] == 'use':
                k = core.op_const(r['o'])
                if k is not None and 'int' in k:
                    val = bool(k['int'])
                elif op_local(r['o']) in env:
                    val = env[op_local(r['o'])]
            elif r['k'] == 'un' and r.get('op') == 'Not' and op_local(r['o']) in env:
                val = not env[op_local(r['o'])]
            if val is not None:
                env[st['d'][0]] = val
        t = blk['t']
        if t['k'] == 'goto':
            b = t['t']
        elif t['k'] == 'return':
            return env.get(0)
        elif t['k'] == 'drop':
            b = t['t']
        else:
            return None
    return None


def k15(ctx, rid):
    """every validation error the blob scan can raise is classified as corruption: for each ValidationErrorKind variant that the
    scan / header / record validation code constructs, should_save_corrupted_blob answers true (a class that is left out makes
    Storage::init fail on a damaged blob instead of quarantining it)"""
    prog = ctx.prog
    f = prog.fns.get('storage::core::Storage::<K>::should_save_corrupted_blob')
    adt = prog.adts.get('error::ValidationErrorKind')
    if f is None or adt is None:
        raise core.AnchorLost('should_save_corrupted_blob / ValidationErrorKind')
    names = [v['name'] for v in adt['variants']]
    verdict = {}
    found = False
    for i in f.reachable():
        t = f.blocks[i]['t']
        if t['k'] != 'switch':
            continue
        for (bb, si, kind, r) in f.defs().get(op_local(t['o']), []):
            if kind == 'assign' and r['k'] == 'discr' and 'ValidationErrorKind' in (core.place_type_str(f, r['p']) or ''):
                found = True
                vals = dict((v, tg) for v, tg in t['vals'])
                for vi, nm in enumerate(names):
                    verdict[nm] = _eval_bool_from(f, vals.get(vi, t['otherwise']))
    if not found:
        # no per-kind distinction: every Validation error is treated alike (fine when the Validation arm answers true)
        for nm in names:
            verdict[nm] = None
    raised = {}
    for g in prog.fns.values():
        if g.file not in SCAN_FILES and g.file != 'src/record/record.rs':
            continue
        for c in g.calls:
            if c.name == 'validation' and 'error::Error' in c.full and c.args and c.bb in g.reachable():
                for o in core.origins(g, c.args[0]):
                    if o.kind == 'agg' and o.data.get('adt') == 'error::ValidationErrorKind':
                        raised.setdefault(o.data['variant'], c)
    n = 0
    for nm, c in sorted(raised.items()):
        if nm == 'BlobVersion':
            continue    # deliberately not quarantined: an unknown blob version must never be moved aside
        n += 1
        key = 'scan-error-is-quarantine-class|%s' % nm
        if verdict.get(nm) is False:
            ctx.bad(rid, key, c.where(), 'the scan raises ValidationErrorKind::%s here, but should_save_corrupted_blob answers false for it: a blob damaged this way makes Storage::init fail on every restart instead of being quarantined' % nm)
        else:
            ctx.ok(rid, key, c.where(), 'classified as corruption (%s)' % ('true' if verdict.get(nm) else 'not distinguished'), nontrivial=False)
    if n < 4:
        raise core.AnchorLost('validation error kinds raised by the scan: %d' % n)


def k16(ctx, rid):
    """BlobVersion is the one validation error that is deliberately not a quarantine class (an unknown version must never be
    moved aside, the start fails instead).  It may therefore only be raised for a header that is a blob header: every raise of
    BlobVersion is reached only after the magic-byte check passed.  Otherwise a zero-filled or garbage header (the freshly
    created blob whose header never reached the disk) makes Storage::init fail instead of being quarantined."""
    prog = ctx.prog

    def raises(g, variant):
        out = []
        for c in g.calls:
            if c.name == 'validation' and 'error::Error' in c.full and c.args and c.bb in g.reachable():
                if any(o.kind == 'agg' and o.data.get('adt') == 'error::ValidationErrorKind' and o.data.get('variant') == variant for o in core.origins(g, c.args[0])):
                    out.append(c)
        return out
    magic_fns = {g.id for g in prog.fns.values() if g.file == 'src/blob/header.rs' and raises(g, 'BlobMagicByte')}
    n = 0
    for g in prog.fns.values():
        if g.file != 'src/blob/header.rs':
            continue
        for c in raises(g, 'BlobVersion'):
            n += 1
            key = 'version-error-only-after-magic|%s' % g.id
            passes = []
            for m in raises(g, 'BlobMagicByte'):
                for sw in core.deciding_switches(g, m.bb):
                    t = g.blocks[sw]['t']
                    outs = [tg for _, tg in t['vals']] + [t['otherwise']]
                    passes += [x for x in outs if x is not None and m.bb not in g.reach_from([x], avoid_enter=[sw])]
            for x in g.calls:
                if x.bb in g.reachable() and any(t in magic_fns and t != g.id for t in prog.resolve(x)):
                    ob = core.ok_block(g, x)
                    if ob is not None:
                        passes.append(ob)
            if passes and c.bb not in g.reach_from([0], avoid_enter=passes):
                ctx.ok(rid, key, c.where(), 'raised only after the magic-byte check passed')
            else:
                ctx.bad(rid, key, c.where(), 'ValidationErrorKind::BlobVersion (not a quarantine class) can be raised for a header whose magic byte was not checked: '
                        'a zero-filled / garbage blob header fails Storage::init instead of being quarantined')
    if n < 1:
        raise core.AnchorLost('raises of ValidationErrorKind::BlobVersion in src/blob/header.rs: %d' % n)


RULES = [
    Rule('C06.K1', 'every blob-file read / decode in the open path is converted to a quarantine-class error before `?`', k1, 6),
    Rule('C06.K2', 'the sequential scan accepts a header only after comparing the end of its extent with the file size and stops only at the exact end of file', k2, 2),
    Rule('C06.K4', 'quarantine is a byte-preserving rename (C07.H7 instance)', k4, 1),
    Rule('C06.K5', 'init promotes an existing blob to active only when one was opened; otherwise a fresh blob is created', k5, 1),
    Rule('C06.K6', 'explicit validation errors of the scan are constructed in a quarantine class', k6, 4),
    Rule('C06.K9', 'the recovery scan locates record data after header and meta (C05.V7 instances)', k9, 1),
    Rule('C06.K10', 'read wrappers of the io layer report unsatisfiable reads only as UnexpectedEof', k10, 1),
    Rule('C06.K11', 'Blob::from_file scans whenever the file exceeds the blob header (no slack in the guard)', k11, 1),
    Rule('C06.K12', 'a short (empty / cut) index file left by an interrupted dump is regenerated at the next start (C03.I10 instance)', k12, 1),
    Rule('C06.K13', 'the data-validation flag handed to the recovery scan is the configured flag and nothing else (C05.V8 instances)', k13, 2),
    Rule('C06.K14', 'every index dump is preceded by an ok sync of the blob file (C12.S2 instances)', k14, 2),
    Rule('C06.K15', 'every validation error kind the scan can raise is classified as corruption by should_save_corrupted_blob', k15, 4),
    Rule('C06.K8', 'the id of every blob that failed to open (ignored or quarantined) is never reused (C07.H6/H6d instances)', k8, 4),
    Rule('C06.K7', 'a torn or stale index file is never trusted: gate tests every header fact (blob size by equality), the file extent, and the written flag is set in a second phase (C03.I2/I5/I8 instances)', k7, 8),
    Rule('C06.K16', 'the non-quarantine validation error BlobVersion is raised only after the magic-byte check passed', k16, 1),
]
