"""C03 Restart equivalence: index files are a disposable cache - the trust gate."""
import core
import prims
from core import op_local, op_const
from engine import Rule

EXPLANATION = (
    "The gate through which an index file may contribute information, checked on MIR: I1 the OnDisk state is only constructed "
    "from an opened file after the ok edge of validate(blob_size) whose blob_size operand originates in the blob file's own size(); "
    "I2 every FileIndexTrait::validate impl tests each header fact (written bit, version, key size, blob size, magic) with a branch "
    "one edge of which only reaches error returns, the blob size by (in)equality, not by ordering; I3 the loader deserialises record "
    "headers only after validate ok and the hash comparison; I4 a failed load reaches clear() and then regeneration before any "
    "ok-return, and the open-failure handler only yields Index::new or propagates; I5 the gate compares the file's own size with "
    "the extent implied by header/meta; I6 the in-memory header map has exactly the expected writers (push, loader, the dump's "
    "move-out/restore); I7 id seeding (C07.H6). I8: the index is written with written=false first and the flag is set by a later "
    "positional rewrite of the header (two-phase), so a torn body never carries written=1. Decides the gate, not equality of "
    "answers before/after restart.")
EXPLANATION += (" " + "I9 = C05.V7. I10 combines two facts: the set of io::ErrorKind discriminants on which the index-open error handler of Blob::from_file returns Err (read from the switch on io_error.kind(); ALL when there is none) and the index-file reads of the open path whose error is not passed through into_bincode_if_unexpected_eof in the function or at every call site; only 'gives up on UnexpectedEof' together with an unconverted read is reported.")
ASSUMPTIONS = []

VALIDATE = 'blob::index::core::FileIndexTrait::validate'
FACTS = ('is_written', 'version', 'key_size', 'blob_size', 'magic_byte')


def i1(ctx, rid):
    prog = ctx.prog
    n = 0
    for f in prog.fns.values():
        for i, b in enumerate(f.blocks):
            if b['c'] or i not in f.reachable():
                continue
            for s in b['s']:
                if not (s['k'] == 'a' and s['r']['k'] == 'agg' and s['r'].get('adt') == 'blob::index::core::State' and s['r'].get('variant') == 'OnDisk'):
                    continue
                ogs = core.origins(f, s['r']['ops'][0])
                from_file = [o for o in ogs if o.kind == 'call' and (o.data.path == 'blob::index::core::FileIndexTrait::from_file' or o.data.name == 'from_file')]
                from_rec = [o for o in ogs if o.kind == 'call' and (o.data.name in ('from_records', 'dump_headers'))]
                n += 1
                key = 'ondisk-after-validate|%s' % prog.fns[f.id].root
                if from_rec and not from_file:
                    ctx.ok(rid, key, f.where(i), 'built from this session\'s records (not read from a file)', nontrivial=False)
                    continue
                vals = [c for c in f.calls if c.path == VALIDATE or any(t.endswith('FileIndexTrait<K>>::validate') for t in prog.resolve(c))]
                okb = [core.ok_block(f, c) for c in vals]
                okb = [x for x in okb if x is not None]
                if not okb or i in f.reach_from([0], avoid_enter=okb):
                    ctx.bad(rid, key, f.where(i), 'an index read from a file is trusted (State::OnDisk) on a path that does not pass a successful validate()')
                    continue
                # blob_size operand provenance: the blob file's size()
                bad = None
                for c in vals:
                    og2 = core.origins_ip(prog, f, c.args[1], depth=3)
                    srcs = [o for o in og2 if o.kind == 'call']
                    if not srcs or not all(o.data.name == 'size' and 'File' in o.data.path for o in srcs) or any(o.kind not in ('call',) for o in og2):
                        bad = 'validate() is not given the size of the blob file (origins: %s)' % og2
                if bad:
                    ctx.bad(rid, key, f.where(i), bad)
                else:
                    ctx.ok(rid, key, f.where(i), 'dominated by validate() ok; blob_size originates in File::size() of the blob')
    if n < 2:
        raise core.AnchorLost('State::OnDisk constructions: %d' % n)


def only_err_from(f, b):
    """from block b no ok/fwd exit is reachable, and some err exit is"""
    reach = core.reach_from_cp(f, [b])
    kinds = [k for (bb, k, _) in core.exit_defs(f) if bb in reach]
    return bool(kinds) and all(k == 'err' for k in kinds)


def i2(ctx, rid):
    prog = ctx.prog
    impls = [d for (st, d) in prog.trait_impls.get(VALIDATE, [])]
    if len(impls) < 1:
        raise core.AnchorLost('FileIndexTrait::validate impls')
    for d in impls:
        f = prog.fns[d]
        for fact in FACTS:
            key = 'gate-tests|%s|%s' % (d, fact)
            calls = [c for c in f.calls if c.name == fact and 'IndexHeader' in c.path]
            if not calls:
                ctx.bad(rid, key, f.where(), 'the index gate never reads `%s` of the header' % fact)
                continue
            tested = False
            eq_ok = True
            for c in calls:
                carry = core.flows_forward(f, c.dest[0])
                # through a comparison
                for i, b in enumerate(f.blocks):
                    if b['c'] or i not in f.reachable():
                        continue
                    for s in b['s']:
                        if s['k'] == 'a' and s['r']['k'] == 'bin' and any(op_local(o) in carry for o in (s['r']['a'], s['r']['b'])):
                            if fact == 'blob_size' and s['r']['op'] not in ('Eq', 'Ne'):
                                eq_ok = False
                    t = b['t']
                    if t['k'] == 'switch' and op_local(t['o']) in carry:
                        tg = [x for _, x in t['vals']] + [t['otherwise']]
                        if any(only_err_from(f, x) for x in tg if f.blocks[x]['t']['k'] != 'unreachable'):
                            tested = True
            if not tested:
                ctx.bad(rid, key, calls[0].where(), 'the value of `%s` does not decide a branch into an error return' % fact)
            elif not eq_ok:
                ctx.bad(rid, key, calls[0].where(), 'the recorded blob size is compared by ordering, not (in)equality: an index describing a shorter blob is accepted and hides the records appended since')
            else:
                ctx.ok(rid, key, calls[0].where(), 'tested; mismatch edge only reaches error returns' + ('; (in)equality' if fact == 'blob_size' else ''))


def i3(ctx, rid):
    prog = ctx.prog
    n = 0
    for (st, d) in prog.trait_impls.get('blob::index::core::FileIndexTrait::get_records_headers', []):
        f = prog.body_of(d)
        n += 1
        key = 'load-after-validate+hash|%s' % d
        vh = [c for c in f.calls if c.name == 'validate_header']
        okb = [core.ok_block(f, c) for c in vh]
        okb = [x for x in okb if x is not None]
        des = [c for fid in prog.family(f.id) for c in prog.fns[fid].calls if c.name == 'deserialize' and c.decl_crate == 'bincode']
        des_here = []
        for c in f.calls:
            # the closure that deserialises is constructed / used after validate
            if c.name in ('try_fold', 'fold', 'map', 'for_each') or c.name == 'deserialize':
                des_here.append(c)
        if not okb or not des:
            ctx.bad(rid, key, f.where(), 'loader without validate_header / deserialisation')
            continue
        reach = f.reach_from([0], avoid_enter=okb)
        early = [c for c in des_here if c.bb in reach]
        if early:
            ctx.bad(rid, key, early[0].where(), 'record headers are deserialised from the index file on a path that has not passed validate_header()')
        else:
            ctx.ok(rid, key, f.where(), 'deserialisation dominated by validate_header() ok')
        # validate_header = validate ok + hash equality
        for vc in vh:
            for t in prog.resolve(vc):
                g = prog.body_of(t)
                if g is None:
                    continue
                k2 = 'validate_header|%s' % t
                vcalls = [c for c in g.calls if c.path == VALIDATE or any(x.endswith('FileIndexTrait<K>>::validate') for x in prog.resolve(c))]
                hcalls = [c for c in g.calls if c.name == 'hash_valid']
                ok1 = [core.ok_block(g, c) for c in vcalls]
                ok2 = [core.ok_block(g, c) for c in hcalls]
                exits = [bb for (bb, k, _) in core.exit_defs(g) if k in ('ok', 'fwd', 'val') and bb in g.reachable()]
                if not vcalls or None in ok1 or any(e in g.reach_from([0], avoid_enter=ok1) for e in exits):
                    ctx.bad(rid, k2, g.where(), 'validate_header can return Ok without validate() ok')
                    continue
                if not hcalls or None in ok2 or any(e in g.reach_from([0], avoid_enter=ok2) for e in exits):
                    ctx.bad(rid, k2, g.where(), 'validate_header can return Ok without the hash comparison')
                    continue
                # the boolean of hash_valid decides: false edge only reaches err
                decided = False
                for c in hcalls:
                    carry = core.flows_forward(g, c.dest[0], transparent=core.fwd_transparent)
                    for i in g.reachable():
                        t2 = g.blocks[i]['t']
                        if t2['k'] == 'switch' and op_local(t2['o']) in carry:
                            tg = [x for _, x in t2['vals']] + [t2['otherwise']]
                            if any(only_err_from(g, x) for x in tg):
                                decided = True
                if decided:
                    ctx.ok(rid, k2, g.where(), 'Ok only after validate() ok and a hash match')
                else:
                    ctx.bad(rid, k2, g.where(), 'the result of the hash comparison does not decide an error return')
    if n < 1:
        raise core.AnchorLost('get_records_headers impls')


def i4(ctx, rid):
    prog = ctx.prog
    f = prog.body_of('blob::core::Blob::<K>::load_index')
    if f is None:
        raise core.AnchorLost('Blob::load_index')
    loads = [c for c in f.calls if c.name == 'load' and any('IndexTrait' in t for t in prog.resolve(c))]
    if not loads:
        raise core.AnchorLost('index.load call in load_index')
    key = 'failed-load-regenerates|blob::core::Blob::<K>::load_index'
    c = loads[0]
    carry = core.result_flow(f, c)
    err_tg = None
    for i in f.reachable():
        t = f.blocks[i]['t']
        if t['k'] == 'switch':
            l = op_local(t['o'])
            for (bb, si, kind, r) in f.defs().get(l, []):
                if kind == 'assign' and r['k'] == 'discr' and r['p'][0] in carry:
                    for v, tg in t['vals']:
                        if v == 1:
                            err_tg = tg
                    if err_tg is None and all(v == 0 for v, _ in t['vals']):
                        err_tg = t['otherwise']
    if err_tg is None:
        ctx.bad(rid, key, c.where(), 'the result of index.load is not tested')
    else:
        # helper-transparent: clear() and the successful regeneration may sit in a (sync or async) helper
        S_clear = core.Summ(prog, lambda x: x.name == 'clear' and any('IndexStruct' in t for t in prog.resolve(x)), need_ok=False)
        S_regen = core.Summ(prog, lambda x: x.name == 'try_regenerate_index')
        ev_clear = set(S_clear.events(f))
        ev_regen = set(S_regen.events(f))
        exits = [bb for (bb, k, _) in core.exit_defs(f) if k in ('ok', 'fwd', 'val') and bb in f.reachable()]
        r1 = f.reach_from([err_tg], avoid_enter=ev_clear)
        r2 = f.reach_from([err_tg], avoid_enter=ev_regen)

        def ordered(g, start, depth=3):
            """every regeneration reachable from `start` in g happens after a clear()"""
            clr = set(S_clear.events(g))
            free = g.reach_from([start], avoid_enter=clr)
            for x in g.calls:
                if x.bb not in g.reachable() or x.bb not in free:
                    continue
                if x.name == 'try_regenerate_index':
                    return False
                for t in prog.resolve(x):
                    h = prog.body_of(t) if t in prog.fns else None
                    if h is not None and h.id != g.id and S_regen.must(t):
                        if depth <= 0 or not ordered(h, 0, depth - 1):
                            return False
            return True
        if any(e in r1 for e in exits) or any(e in r2 for e in exits) or not ordered(f, err_tg) or not ev_clear or not ev_regen:
            ctx.bad(rid, key, f.where(err_tg), 'after a failed index load an ok-return is reachable without clear() followed by a successful regeneration from the blob')
        else:
            ctx.ok(rid, key, f.where(err_tg), 'Err edge -> clear() -> try_regenerate_index ok -> return')
    # open-failure handler in Blob::from_file: Ok payloads are Index::new
    ff = prog.body_of('blob::core::Blob::<K>::from_file')
    if ff is None:
        raise core.AnchorLost('Blob::from_file')
    handlers = []
    for fb in open_path_bodies(prog):
        for c in fb.calls:
            if c.name == 'or_else' and c.path.startswith('std::result::Result'):
                for a in c.args:
                    l = op_local(a)
                    if l is not None and fb.locals[l].get('h') == 'closure':
                        handlers.append(prog.fns[fb.locals[l]['a'][0]])
    if not handlers:
        # the handler may be the Err arm of a `match` on the open result: then every index value a blob is built with is either
        # the opened one or a fresh Index::new
        inline = 0
        all_opens = [(fb2.id, c.bb) for fb2 in open_path_bodies(prog) for c in fb2.calls
                     if c.bb in fb2.reachable() and c.name == 'from_file' and any('IndexStruct' in t for t in prog.resolve(c))]
        for fb in open_path_bodies(prog):
            opens = [c for c in fb.calls if c.bb in fb.reachable() and c.name == 'from_file' and any('IndexStruct' in t for t in prog.resolve(c))]
            if not all_opens:
                continue
            for i, b in enumerate(fb.blocks):
                if b['c'] or i not in fb.reachable():
                    continue
                for st in b['s']:
                    if st['k'] == 'a' and st['r']['k'] == 'agg' and st['r'].get('adt') == 'blob::core::Blob' and 'index' in st['r'].get('fields', []):
                        inline += 1
                        k2 = 'open-failure-handler|%s' % prog.fns[fb.id].root
                        op = st['r']['ops'][st['r']['fields'].index('index')]
                        roots_ = [prog.fns[x.id].root for x in open_path_bodies(prog)]
                        # through the helpers of the open path only (an `open_or_create_index` that returns the index in a small
                        # struct next to a flag): their aggregates and the constants of the sibling fields are not index values
                        ogs = [o for o in core.origins_deep(prog, fb, op, depth=2, expand=lambda c2: any(t in roots_ for t in prog.resolve(c2)))
                               if o.kind not in ('agg', 'const')]
                        okk = ogs and all(o.kind == 'call' and ((o.fn.id, o.data.bb) in all_opens or o.data.bb in [c.bb for c in opens] or o.data.target.endswith('IndexStruct::<FileIndex, K>::new')
                                          or any(t in [prog.fns[x.id].root for x in open_path_bodies(prog)] for t in prog.resolve(o.data))) for o in ogs)
                        if okk:
                            ctx.ok(rid, k2, fb.where(i), 'the blob is built with the opened index or a fresh Index::new (rejected index files contribute nothing)')
                        else:
                            ctx.bad(rid, k2, fb.where(i), 'the index open-failure handling can yield an index that is neither the opened one nor a fresh in-memory one')
        if not inline:
            raise core.AnchorLost('index open-failure handler in Blob::from_file')
    for h in handlers:
        k2 = 'open-failure-handler|%s' % h.id
        good = True
        for (bb, kind, payload) in core.exit_defs(h):
            if kind == 'ok':
                ogs = core.origins(h, payload['ops'][0])
                if not all(o.kind == 'call' and o.data.target.endswith('IndexStruct::<FileIndex, K>::new') for o in ogs) or not ogs:
                    good = False
            elif kind == 'fwd':
                good = False
        if good:
            ctx.ok(rid, k2, h.where(), 'every Ok produced by the handler is a fresh Index::new (rejected index files contribute nothing)')
        else:
            ctx.bad(rid, k2, h.where(), 'the index open-failure handler can yield an index that is not a fresh in-memory one')


def _extent_checked(f):
    """f compares File::size() (by equality) with an expression over records_count and record_header_size, and one edge of that
    comparison only reaches error returns"""
    sizes = [c for c in f.calls if c.name == 'size' and 'File' in c.path]
    for c in sizes:
        carry = core.flows_forward(f, c.dest[0])
        for i, b in enumerate(f.blocks):
            if b['c'] or i not in f.reachable():
                continue
            for s in b['s']:
                if s['k'] == 'a' and s['r']['k'] == 'bin' and s['r']['op'] in ('Eq', 'Ne') and any(op_local(o) in carry for o in (s['r']['a'], s['r']['b'])):
                    other = s['r']['b'] if op_local(s['r']['a']) in carry else s['r']['a']
                    ogs = core.origins(f, other, stop_fields=True)
                    flds = {o.data[1] for o in ogs if o.kind == 'field'}
                    deep = []
                    for o in ogs:
                        if o.kind == 'binop':
                            for x in (o.data['a'], o.data['b']):
                                deep += core.origins(f, x, stop_fields=True)
                    for _ in range(3):
                        more = []
                        for o in deep:
                            if o.kind == 'binop':
                                for x in (o.data['a'], o.data['b']):
                                    more += core.origins(f, x, stop_fields=True)
                        deep += more
                    flds |= {o.data[1] for o in deep if o.kind == 'field'}
                    if 'records_count' in flds and 'record_header_size' in flds:
                        carry2 = core.flows_forward(f, s['d'][0])
                        for j in f.reachable():
                            t = f.blocks[j]['t']
                            if t['k'] == 'switch' and op_local(t['o']) in carry2:
                                tg = [x for _, x in t['vals']] + [t['otherwise']]
                                if any(only_err_from(f, x) for x in tg):
                                    return True
    return False


def i5(ctx, rid):
    prog = ctx.prog
    impls = [d for (st, d) in prog.trait_impls.get(VALIDATE, [])]
    for d in impls:
        f = prog.fns[d]
        key = 'gate-checks-extent|%s' % d
        ok = _extent_checked(f)
        if not ok:
            # the comparison may live in a helper of the same file (`validate_file_extent`) that every ok path of the gate passes
            helpers = {g.id for g in prog.fns.values() if g.file == f.file and g.id != f.id and g.id == prog.fns[g.id].root
                       and not g.is_coroutine and _extent_checked(g)}
            if helpers:
                S = core.Summ(prog, lambda c: any(t in helpers for t in prog.resolve(c)))
                ok = S.must(d)
        if ok:
            ctx.ok(rid, key, f.where(), 'file size compared (by equality) with the extent implied by records_count x record_header_size; mismatch is an error')
        else:
            ctx.bad(rid, key, f.where(), 'the index gate does not compare the file\'s own size with the extent implied by its header: an index truncated in the leaf region keeps written=1 and is trusted (stored keys read NotFound)')


def i6(ctx, rid):
    prog = ctx.prog
    n = 0
    allowed_roots = {
        '<blob::index::core::IndexStruct<FileIndex, K> as blob::index::IndexTrait<K>>::push': 'ordered insertion',
    }
    # mutating calls on InMemoryData.headers
    for f in prog.fns.values():
        for c in f.calls:
            if c.name not in ('insert', 'get_mut', 'remove', 'clear', 'entry', 'retain', 'append', 'extend', 'pop_first', 'pop_last', 'values_mut', 'iter_mut'):
                continue
            if not c.path.startswith('std::collections::BTreeMap') and not c.path.startswith('std::collections::btree'):
                continue
            if prims.receiver_field(f, c) != 'headers':
                continue
            n += 1
            root = prog.fns[f.id].root
            key = 'headers-writer|%s|%s' % (root, c.name)
            if root in allowed_roots:
                ctx.ok(rid, key, c.where(), 'the single ordered insertion routine', nontrivial=False)
            else:
                ctx.bad(rid, key, c.where(), 'the in-memory header map is modified outside IndexStruct::push: a second, differently ordered insertion path')
    # whole-map stores: constructions of InMemoryData and mem::take/replace on it
    for (f, bb, o, how) in core.field_sources(prog, 'blob::index::core::InMemoryData', 'headers'):
        root = prog.fns[f.id].root
        n += 1
        key = 'headers-store|%s' % root
        if root in ('blob::index::core::InMemoryData::<K>::new', '<blob::index::core::InMemoryData<K> as std::default::Default>::default'):
            ctx.ok(rid, key, f.where(bb), 'constructor', nontrivial=False)
        else:
            ctx.bad(rid, key, f.where(bb), 'direct store into InMemoryData.headers outside its constructors')
    # regeneration goes through push
    rg = prog.body_of('blob::core::Blob::<K>::try_regenerate_index')
    if rg is None:
        raise core.AnchorLost('try_regenerate_index')
    L, E = prog.may_reach()
    is_push = lambda c: c.name == 'push' and any('IndexTrait' in t for t in prog.resolve(c))
    via_helper = any(is_push(c2) for c in rg.calls for t in prog.resolve(c) if t in prog.fns and prog.fns[t].file == rg.file
                     for x in [t] + sorted(L.get(t, ())) if x in prog.fns and prog.fns[x].file == rg.file for c2 in prog.fns[x].calls)
    # .. or in a closure of the regeneration body itself (`headers.into_iter().try_for_each(|h| self.index.push(..))`)
    in_family = any(is_push(c) for gid in prog.family(rg.id) if gid in prog.fns for c in prog.fns[gid].calls)
    if any(is_push(c) for c in rg.calls) or via_helper or in_family:
        ctx.ok(rid, 'regeneration-uses-push', rg.where(), 'headers scanned from the blob are inserted through IndexStruct::push')
    else:
        ctx.bad(rid, 'regeneration-uses-push', rg.where(), 'index regeneration does not insert through IndexStruct::push')
    # .. and it pushes every header the scan returned: nothing removes elements from the scanned list before the push loop
    drops = []
    bodies = [rg] + [prog.fns[x] for x in prog.family(prog.fns[rg.id].root) if x != rg.id]
    for c in rg.calls:
        for t in prog.resolve(c):
            g = prog.body_of(t) if t in prog.fns else None
            if g is not None and g.file == rg.file and g not in bodies and prog.fns[g.id].root != 'blob::core::RawRecords::load' and 'RawRecords' not in g.id:
                bodies.append(g)
    for g in bodies:
        for c in g.calls:
            if c.bb in g.reachable() and c.name in ('dedup', 'dedup_by', 'dedup_by_key', 'retain', 'retain_mut', 'truncate', 'drain', 'pop', 'remove', 'swap_remove', 'split_off', 'filter', 'skip', 'take', 'step_by', 'skip_while', 'take_while') \
               and ('record::record::Header' in c.full):
                drops.append(c)
    if drops:
        ctx.bad(rid, 'regeneration-keeps-every-header', drops[0].where(), 'index regeneration removes scanned headers before they are pushed (`%s`): records that are intact in the blob (two versions of a key with one timestamp ..) are neither served nor quarantined after the rebuild' % drops[0].name)
    else:
        ctx.ok(rid, 'regeneration-keeps-every-header', rg.where(), 'every scanned header is pushed')
    n += 1
    if n < 3:
        raise core.AnchorLost('header map writers: %d' % n)


def i7(ctx, rid):
    import props.c07 as c07
    c07.h6(ctx, rid)
    c07.h6d(ctx, rid)


def i8(ctx, rid):
    """two-phase write of the index file: body appended with written=false; the flag is set on the header object only after the
    append completed and reaches the file only through the later positional rewrite"""
    prog = ctx.prog
    FW = prims.FileWrappers(prog)
    app = set(FW.append_wrappers())
    n = 0
    for (st, d) in prog.trait_impls.get('blob::index::core::FileIndexTrait::from_records', []):
        f = prog.body_of(d)
        n += 1
        key = 'two-phase-written-flag|%s' % d
        acalls = [c for c in f.calls if any(t in app for t in prog.resolve(c))]
        sets = [c for c in f.calls if c.name == 'set_written']
        if not acalls:
            ctx.bad(rid, key, f.where(), 'index body is not appended through the append wrapper')
            continue
        aok = [core.ok_block(f, c) for c in acalls]
        aok = [x for x in aok if x is not None]
        bad = None
        L, E = prog.may_reach()

        def sets_true(t):
            for x in [t] + sorted(L.get(t, ())):
                for c2 in prog.fns[x].calls if x in prog.fns else []:
                    if c2.name == 'set_written' and len(c2.args) > 1 and core.const_int(prog, op_const(c2.args[1])) == 1:
                        return True
            return False
        # the second phase may live in a helper (`mark_written_and_rewrite_header`) called after the append
        late_helpers = [c for c in f.calls if c.bb in f.reachable() and c.bb not in f.reach_from([0], avoid_enter=aok)
                        and any(t in prog.fns and sets_true(t) for t in prog.resolve(c))]
        if not sets and not late_helpers:
            bad = 'the written flag is never set by a separate step after the body append (a single-pass write makes a torn body carry written=1)'
        for c in sets:
            v = core.const_int(prog, op_const(c.args[1])) if len(c.args) > 1 else None
            if v == 1 and c.bb in f.reach_from([0], avoid_enter=aok):
                bad = 'set_written(true) is reachable before the body append has completed: the appended header already carries written=1'
        # set_written(true) anywhere in the serialisation path (callees) is also a single-pass write
        for c in f.calls:
            for t in prog.resolve(c):
                if t in prog.fns and c.bb in f.reach_from([0], avoid_enter=aok):
                    for x in [t] + sorted(L.get(t, ())):
                        for c2 in prog.fns[x].calls:
                            if c2.name == 'set_written' and len(c2.args) > 1 and core.const_int(prog, op_const(c2.args[1])) == 1:
                                bad = 'set_written(true) inside the serialisation of the index body (%s)' % x
        if bad:
            ctx.bad(rid, key, f.where(), bad)
        else:
            ctx.ok(rid, key, f.where(), 'body appended first; set_written(true) only after the append completed')
    if n < 1:
        raise core.AnchorLost('from_records impls')


def i9(ctx, rid):
    """index regeneration reads each record where the writer put it (C05.V7 instances): a mislocated data read quarantines a
    valid blob when data validation is on"""
    import props.c05 as c05
    c05.v7(ctx, rid)


def eof_discr(prog):
    """discriminant value of std::io::ErrorKind::UnexpectedEof, read from an aggregate of the classification helper"""
    for f in prog.fns.values():
        if 'into_bincode_if_unexpected_eof' not in f.id:
            continue
        for b in f.blocks:
            for st in b['s']:
                if st['k'] == 'a' and st['r']['k'] == 'agg' and st['r'].get('adt') == 'std::io::ErrorKind' and st['r'].get('variant') == 'UnexpectedEof' and 'vd' in st['r']:
                    return st['r']['vd']
    return None


def open_path_bodies(prog, depth=2):
    """Blob::from_file and the helpers of the same file it calls (an `open_or_create_index` extracted from it), as bodies"""
    ff = prog.body_of('blob::core::Blob::<K>::from_file')
    if ff is None:
        return []
    out, work = [ff], [(ff, depth)]
    while work:
        g, d = work.pop()
        if d <= 0:
            continue
        for c in g.calls:
            for t in prog.resolve(c):
                h = prog.body_of(t) if t in prog.fns else None
                if h is not None and h.file == ff.file and h.id not in [x.id for x in out] and prog.fns[h.id].root.startswith('blob::core::Blob::<K>::'):
                    out.append(h)
                    work.append((h, d - 1))
    return out


def propagated_io_kinds(prog):
    """(handler fn, 'ALL' | set of discriminants) : which io::ErrorKind values make the index-open error handler in Blob::from_file
    give up (return Err) instead of regenerating the index"""
    roots = {prog.fns[b.id].root for b in open_path_bodies(prog)}
    for f in prog.fns.values():
        if prog.fns[f.id].root not in roots:
            continue
        dc = [c for c in f.calls if c.name == 'downcast_ref' and 'std::io::Error' in c.full and c.bb in f.reachable()]
        if not dc:
            continue
        # the Err exits that hand the *open error* on (a closure handler returns it, an inlined match arm does `return Err(error)`);
        # other failures of the body (`?` of the regeneration ..) are not decisions of this handler
        ekeys = {o.key() for o in core.origins(f, dc[0].args[0])}
        errs = []
        for (bb, k, payload) in core.exit_defs(f):
            if k != 'err' or bb not in f.reachable() or bb not in f.reach_from([dc[0].bb]):
                continue
            if isinstance(payload, dict) and payload.get('k') == 'agg' and payload.get('ops'):
                if {o.key() for o in core.origins(f, payload['ops'][0])} & ekeys:
                    errs.append(bb)
            elif not f.is_coroutine and f.id != prog.fns[f.id].root:
                errs.append(bb)     # a closure handler: every Err it produces is its answer
        if not errs:
            return f, set()
        kinds = [c for c in f.calls if c.name == 'kind' and c.path.startswith('std::io::Error')]
        vals = set()
        allk = False
        for e in errs:
            # is the Err exit reachable without passing a switch on the kind?
            sw = []
            for k in kinds:
                for i in f.reachable():
                    t = f.blocks[i]['t']
                    if t['k'] == 'switch':
                        for (bb, si, kind, r) in f.defs().get(op_local(t['o']), []):
                            if kind == 'assign' and r['k'] == 'discr' and r['p'][0] == k.dest[0]:
                                sw.append(i)
            if not sw or e in f.reach_from([0], avoid_exit=sw):
                allk = True
                continue
            for i in sw:
                t = f.blocks[i]['t']
                for v, tg in t['vals']:
                    if e in f.reach_from([tg]):
                        vals.add(v)
                if e in f.reach_from([t['otherwise']]):
                    allk = True
        return f, ('ALL' if allk else vals)
    return None, None


def _converted(prog, f, c, depth):
    """the error of call c (in f) passes into_bincode_if_unexpected_eof before it leaves - in f, or at every call site of f"""
    carry = core.result_flow(f, c)
    for m in f.calls:
        if m.name == 'map_err' and m.args and op_local(m.args[0]) in carry:
            for a in m.args[1:]:
                k = op_const(a)
                if k and 'fn' in k and 'into_bincode_if_unexpected_eof' in ((k['fn'].get('res') or '') + (k['fn'].get('path') or '')):
                    return True
                l = op_local(a)
                if l is not None and f.locals[l].get('h') == 'closure' and any(x.name == 'into_bincode_if_unexpected_eof' for x in prog.fns[f.locals[l]['a'][0]].calls):
                    return True
        if m.name == 'into_bincode_if_unexpected_eof' and m.args and op_local(m.args[0]) in carry:
            return True
    if depth <= 0:
        return False
    target = f.parent if (f.is_coroutine and f.parent in prog.fns) else prog.fns[f.id].root
    cs = []
    for t in {target, prog.fns[target].root if target in prog.fns else target}:
        cs += [x for x in core.call_sites_of(prog, t) if x.name != 'poll']
    # trait impl methods are called through the trait path
    if not cs and prog.fns.get(target) is not None and prog.fns[target].trait_item:
        nm = target.split('::')[-1]
        for g in prog.fns.values():
            for x in g.calls:
                if x.name == nm and target in prog.resolve(x):
                    cs.append(x)
    if not cs:
        return False
    return all(_converted(prog, x.fn, x, depth - 1) for x in cs)


def i10(ctx, rid):
    """an index file that cannot be read to the end (empty or cut: what a dropped close() / a crash during the dump leaves) is
    regenerated, never a reason to fail the open: EITHER every index-file read of the open path converts UnexpectedEof into the
    Bincode class, OR the error handler of Blob::from_file does not give up on io errors of kind UnexpectedEof.  Only both
    missing together break the open."""
    prog = ctx.prog
    h, kinds = propagated_io_kinds(prog)
    if h is None:
        raise core.AnchorLost('index-open error handler in Blob::from_file')
    eof = eof_discr(prog)
    if eof is None:
        raise core.AnchorLost('ErrorKind::UnexpectedEof discriminant')
    gives_up_on_eof = kinds == 'ALL' or eof in kinds
    # unconverted index-file reads reachable from the open path
    L, E = prog.may_reach()
    roots = [f.id for f in prog.fns.values() if f.id.endswith('IndexStruct::<FileIndex, K>::from_file')]
    if not roots:
        raise core.AnchorLost('IndexStruct::from_file')
    reach = set(roots)
    for r in roots:
        reach |= set(L.get(r, ()))
    n = 0
    raw = []
    for fid in sorted(reach):
        f = prog.fns[fid]
        if not f.file.startswith('src/blob/index/'):
            continue
        for c in f.calls:
            if c.bb not in f.reachable() or c.name not in ('read_exact_at_allocate', 'read_exact_at', 'read_all') or 'File' not in c.path or c.crate != 'pearl':
                continue
            n += 1
            conv = _converted(prog, f, c, 2)
            if not conv:
                raw.append(c)
    if n < 4:
        raise core.AnchorLost('index-file reads in the open path: %d' % n)
    key = 'short-index-file-is-regenerated'
    if gives_up_on_eof and raw:
        ctx.bad(rid, key, raw[0].where(), 'the index read at this site propagates a raw io::Error(UnexpectedEof) and the error handler of Blob::from_file (%s) gives up on %s io errors: an empty or cut index file - what a dropped close() future or a crash during the dump leaves behind - makes Storage::init fail instead of regenerating the index' % (h.where(), 'all' if kinds == 'ALL' else 'UnexpectedEof'),
                witness=[c.where() for c in raw[:6]])
    else:
        ctx.ok(rid, key, h.where(), 'handler gives up only on kinds %s; %d of %d index reads in the open path are unconverted' % ('ALL' if kinds == 'ALL' else sorted(kinds), len(raw), n))


def i11(ctx, rid):
    """the bloom offset stored with an index opened from its file is the position of the bloom bytes in that file (C10.B16
    instances, affine layout algebra): answers after a reopen + off-load equal the answers before"""
    import props.c10 as c10
    c10.b16(ctx, rid)


def i12(ctx, rid):
    """all versions of a key are returned from an index file exactly as from memory: the in-buffer walk always hands over to the
    file walk (C09.P8 instance)"""
    import props.c09 as c09
    c09.p8(ctx, rid)


def i13(ctx, rid):
    """C09.P10 instance: a full inner node of the index file fits the block the lookups read"""
    import props.c09 as c09
    c09.p10(ctx, rid)


RULES = [
    Rule('C03.I1', 'State::OnDisk is built from an opened file only after validate() ok with the blob file size as operand', i1, 2),
    Rule('C03.I2', 'every index gate tests written bit, version, key size, blob size (by equality) and magic with an error edge', i2, 5),
    Rule('C03.I3', 'the loader deserialises headers only after validate() ok and a hash match', i3, 2),
    Rule('C03.I4', 'a failed load is followed by clear() and regeneration before any ok-return; the open-failure handler yields only Index::new', i4, 2),
    Rule('C03.I5', 'the index gate compares the file size with the extent implied by the header', i5, 1),
    Rule('C03.I6', 'the in-memory header map is written only by IndexStruct::push and its constructors; regeneration inserts through push', i6, 3),
    Rule('C03.I7', 'new blob ids are above every id ever present (C07.H6 instances)', i7, 3),
    Rule('C03.I9', 'the regeneration scan locates record data after header and meta (C05.V7 instances)', i9, 1),
    Rule('C03.I10', 'a short (empty / cut) index file is regenerated: UnexpectedEof is converted at the read, or the open-error handler does not give up on it', i10, 1),
    Rule('C03.I11', 'the bloom offset derived when an index file is opened equals the position of the bloom bytes (C10.B16 instances)', i11, 2),
    Rule('C03.I12', 'the on-disk all-versions walk hands over to the file walk unless it saw the next key (C09.P8 instance)', i12, 1),
    Rule('C03.I13', 'a completely filled non-leaf node fits into one block for every key length (C09.P10 instance)', i13, 1),
    Rule('C03.I8', 'the index file is written in two phases: the written flag is set only after the body append completed', i8, 1),
]
