"""C13 Background maintenance stays alive."""
import core
import prims
import waitfor
from core import op_local
from engine import Rule

EXPLANATION = (
    "L1: in the body that owns the Receiver<Msg> the natural loop around the message await has no exit edge except those dominated "
    "by the TickResult::Stop arm, Stop is only constructed after recv() yielded None, and no diverging panic call written in the "
    "worker module is reachable inside the loop (callees included). L3: one channel construction, the Sender is never cloned, and "
    "shutdown drops it before awaiting the worker handle. L4: no guard is live at the shutdown call in Storage::close. L5: every "
    "successful write passes the rotation check whose true edge sends the rotation request; the handler of that request reaches blob "
    "replacement. L6: the wait-for graph has no armed cycle (same engine as C08.D1). Decides these liveness preconditions, not "
    "bounded-time completion.")
EXPLANATION += (" " + 'L10 in a loop resumed with .skip(progress) the per-element fallible call is only reached with progress advanced, or .skip is not reachable again from its completion without the advance; L11 every non-None store into deferred_index_dump_info is followed (or preceded on every path) by update_deadline before the handler returns; L12 = C12.S10 for every background task.')
EXPLANATION += (" " + 'L13 = C10.B10 (a merge of incompatible filters would hit an expect inside the worker).')
ASSUMPTIONS = ["panics inside callee modules (expect on poisoned std locks etc.) are outside L1: only diverging calls written in storage/observer_worker.rs are armed"]

WORKER_FILE = 'src/storage/observer_worker.rs'


def natural_loops(fn):
    """list of (header, set(blocks)) for back edges t->h where h dominates t"""
    loops = []
    for t in fn.reachable():
        for h in fn.succ[t]:
            if fn.dominates(h, t):
                body = {h, t}
                stack = [t]
                while stack:
                    x = stack.pop()
                    if x == h:
                        continue
                    for p in fn.pred[x]:
                        if p not in body and p in fn.reachable():
                            body.add(p)
                            stack.append(p)
                loops.append((h, body))
    # merge loops with the same header
    merged = {}
    for h, b in loops:
        merged.setdefault(h, set()).update(b)
    return list(merged.items())


def l1(ctx, rid):
    prog = ctx.prog
    # the body that owns the receiver: a coroutine in the worker module that (transitively) awaits Receiver::recv in a loop
    cands = []
    for f in prog.fns.values():
        if f.file != WORKER_FILE or not f.is_coroutine:
            continue
        L, E = prog.may_reach()
        if not any(prims.base(e).endswith('mpsc::Receiver::<T>::recv') or 'Receiver::<T>::recv' in e for e in E.get(f.id, ())):
            continue
        for (h, body) in natural_loops(f):
            # the loop must contain an await of something reaching recv
            aw = [a for a in f.awaits() if a.poll.bb in body and a.start is not None]
            reach_recv = False
            for a in aw:
                for t in prog.resolve(a.start):
                    if t in prog.fns and any('Receiver::<T>::recv' in e for e in E.get(t, ())):
                        reach_recv = True
            # the poll loop of a single `.await` (`self.process_until_stopped().await` in a `run` that delegates) is not a message loop
            plumbing = all(c.name in ('poll', 'new_unchecked', 'get_context', 'into_future') for c in f.calls if c.bb in body)
            if reach_recv and not plumbing:
                cands.append((f, h, body))
    # keep outermost loops only (exclude poll loops: their body is inside)
    main = [(f, h, b) for (f, h, b) in cands if not any(f2 is f and b < b2 for (f2, h2, b2) in cands)]
    if not main:
        raise core.AnchorLost('worker message loop not found')
    for (f, h, body) in main:
        key = 'worker-loop|%s' % f.id
        # exits: edges from body to outside
        exits = [(b, s) for b in body for s in f.succ[b] if s not in body]
        # Stop arm: switch on discriminant of a TickResult-typed place
        stop_blocks = set()
        for i in body:
            t = f.blocks[i]['t']
            if t['k'] != 'switch':
                continue
            l = op_local(t['o'])
            for (bb, si, kind, r) in f.defs().get(l, []):
                if kind == 'assign' and r['k'] == 'discr':
                    ty = place_type_hint(f, r['p'])
                    if ty and 'TickResult' in ty:
                        adt = prog.adts.get('storage::observer_worker::TickResult')
                        names = [v['name'] for v in adt['variants']] if adt else []
                        for v, tg in t['vals']:
                            if v < len(names) and names[v] == 'Stop':
                                stop_blocks.add(tg)
                        if names and 'Stop' in names and names.index('Stop') not in [v for v, _ in t['vals']]:
                            stop_blocks.add(t['otherwise'])
        bad_exits = []
        panics = []
        for (b, s) in exits:
            if stop_blocks and any(f.dominates(sb, b) or f.dominates(sb, s) for sb in stop_blocks):
                continue
            # where does this exit lead: only to diverging panics (an Err arm that panics) or back to the caller?
            region = f.reach_from([s])
            div = [c for c in f.calls if c.bb in region and c.diverges and prims.is_raw(c, prims.PANICS)]
            returns = [x for x in region if f.blocks[x]['t']['k'] == 'return']
            if div and not returns:
                panics.extend(div)
            else:
                bad_exits.append((b, s))
        panics += [c for c in f.calls if c.bb in body and c.diverges and prims.is_raw(c, prims.PANICS)]
        if bad_exits:
            ctx.bad(rid, key + '|exit', f.where(bad_exits[0][0]), 'the worker loop can be left on an edge not dominated by the Stop arm (bb%d -> bb%d)' % bad_exits[0])
        else:
            ctx.ok(rid, key + '|exit', f.where(h), 'all non-panicking loop exit edges (%d) are dominated by the TickResult::Stop arm' % len(exits))
        if panics:
            seenp = set()
            for c in panics:
                if c.bb in seenp:
                    continue
                seenp.add(c.bb)
                ctx.bad(rid, key + '|panic', c.where(), 'a panic inside the worker loop ends background maintenance for the rest of the session: any Err from handling a message reaches it',
                        witness=['%s' % c.full])
        else:
            ctx.ok(rid, key + '|panic', f.where(h), 'no diverging panic call in or out of the loop body')
        # panics written in the worker module reachable from the loop through calls
        L, E = prog.may_reach()
        callee_panics = []
        seen = set()
        for c in f.calls:
            if c.bb not in body:
                continue
            for t in prog.resolve(c):
                if t in prog.fns:
                    for x in [t] + sorted(L.get(t, ())):
                        g = prog.fns[x]
                        if g.file == WORKER_FILE and x not in seen and g.id != f.id:
                            seen.add(x)
                            for c2 in g.calls:
                                if c2.diverges and prims.is_raw(c2, prims.PANICS) and c2.bb in g.reachable():
                                    callee_panics.append(c2)
        if callee_panics:
            for c2 in callee_panics:
                ctx.bad(rid, 'worker-callee-panic|%s' % c2.fn.id, c2.where(), 'a panic reachable from the worker loop (in the worker module) stops maintenance')
        else:
            ctx.ok(rid, key + '|callee-panic', f.where(h), 'no diverging panic in %d worker-module bodies reachable from the loop' % len(seen))
    # Stop is only constructed after recv() yielded None
    n = 0
    for f in prog.fns.values():
        if f.file != WORKER_FILE:
            continue
        for i, b in enumerate(f.blocks):
            if b['c'] or i not in f.reachable():
                continue
            for s in b['s']:
                if s['k'] == 'a' and s['r']['k'] == 'agg' and s['r'].get('adt') == 'storage::observer_worker::TickResult' and s['r'].get('variant') == 'Stop':
                    n += 1
                    key = 'stop-after-none|%s' % f.id
                    # dominated by the None edge of a switch whose operand originates in recv()
                    ok = False
                    for j in f.reachable():
                        t = f.blocks[j]['t']
                        if t['k'] != 'switch':
                            continue
                        ogs = core.origins(f, t['o'])
                        if not any(o.kind == 'discr' for o in ogs):
                            continue
                        deep = []
                        for o in ogs:
                            if o.kind == 'discr':
                                loc = core.origins(f, {'c': o.data['p']})
                                if any(x.kind in ('arg', 'upvar') for x in loc):
                                    # the received value is a parameter of a helper: every caller must hand over recv()'s result
                                    loc = core.origins_ip(prog, f, {'c': o.data['p']}, depth=3)
                                    if not all(x.kind == 'call' for x in loc):
                                        loc = []
                                deep += loc
                        more = []
                        for o in deep:
                            if o.kind == 'call' and o.data.name in ('timeout_at', 'timeout') and o.data.crate == 'tokio':
                                for a in o.data.args:
                                    more += core.origins(o.fn, a)
                        is_recv = lambda o: o.kind == 'call' and o.data.name == 'recv' and 'Receiver' in o.data.path
                        is_tmo = lambda o: o.kind == 'call' and o.data.name in ('timeout_at', 'timeout') and o.data.crate == 'tokio'
                        if not any(is_recv(o) for o in deep + more) or not all(is_recv(o) or is_tmo(o) for o in deep):
                            continue
                        for v, tg in t['vals']:
                            if v == 0 and f.dominates(tg, i):
                                ok = True
                    if ok:
                        ctx.ok(rid, key, f.where(i), 'Stop constructed only on the None edge of recv()')
                    else:
                        ctx.bad(rid, key, f.where(i), 'TickResult::Stop constructed on a path that is not the `recv() == None` edge')
    if n < 1:
        raise core.AnchorLost('TickResult::Stop constructions: %d' % n)


def place_type_hint(fn, place):
    t = core.place_type_str(fn, place)
    if t is None or not t.startswith('storage::observer_worker::TickResult'):
        return None
    return t


def l3(ctx, rid):
    prog = ctx.prog
    chans = [c for f in prog.fns.values() for c in f.calls if c.path == 'tokio::sync::mpsc::channel']
    if len(chans) != 1:
        ctx.bad(rid, 'one-channel', chans[0].where() if chans else '', 'expected exactly one mpsc channel construction, found %d' % len(chans))
    else:
        ctx.ok(rid, 'one-channel', chans[0].where(), 'one bounded channel')
        cap = core.const_int(prog, core.op_const(chans[0].args[0])) if chans[0].args else None
        ctx.note('observer channel capacity: %s' % cap)
    clones = [c for f in prog.fns.values() for c in f.calls if c.name == 'clone' and 'mpsc::Sender' in (c.self_ty or {}).get('s', '')]
    if clones:
        for c in clones:
            ctx.bad(rid, 'sender-clone|%s' % c.fn.id, c.where(), 'the Sender is cloned: dropping the original in shutdown no longer closes the channel')
    else:
        ctx.ok(rid, 'sender-never-cloned', '', 'no <Sender<Msg> as Clone>::clone call', nontrivial=False)
    # holders of a Sender: ADT fields whose type mentions mpsc::Sender
    holders = []
    for a in prog.adts.values():
        for v in a['variants']:
            for fl in v['fields']:
                if 'mpsc::Sender' in fl['ty']['s']:
                    holders.append('%s::%s' % (a['path'], v['name']))
    if holders != ['storage::observer::ObserverState::Running']:
        ctx.bad(rid, 'sender-holders', '', 'Sender stored in %s (expected only ObserverState::Running)' % holders)
    else:
        ctx.ok(rid, 'sender-holders', '', 'the Sender lives only in ObserverState::Running', nontrivial=False)
    # shutdown: the sender is dropped before the handle is awaited
    sd = prog.body_of('storage::observer::Observer::<K>::shutdown')
    if sd is None:
        raise core.AnchorLost('Observer::shutdown')
    joins = [a for a in sd.awaits() if 'JoinHandle' in (a.poll.self_ty or {}).get('s', '')]
    if not joins:
        ctx.bad(rid, 'shutdown-joins', sd.where(), 'shutdown does not await the worker handle')
        return
    drops = []
    for c in sd.calls:
        if c.path == 'std::mem::drop' and c.args and 'mpsc::Sender' in sd.locals[op_local(c.args[0])]['s']:
            drops.append(c.bb)
    for i, b in enumerate(sd.blocks):
        if not b['c'] and b['t']['k'] == 'drop' and 'mpsc::Sender' in sd.locals[b['t']['p'][0]]['s'] and not b['t']['p'][1]:
            drops.append(i)
    for a in joins:
        reach = sd.reach_from([0], avoid_exit=drops)
        if a.poll.bb in reach:
            ctx.bad(rid, 'drop-sender-before-join', a.poll.where(), 'the worker handle is awaited on a path on which the Sender has not been dropped: the worker never sees the channel closed',
                    witness=['bb%d %s' % (x, sd.where(x)) for x in (sd.path([0], [a.poll.bb], avoid_exit=drops) or [])])
        else:
            ctx.ok(rid, 'drop-sender-before-join', a.poll.where(), 'Sender dropped on every path before the handle is awaited')


def l4(ctx, rid):
    prog = ctx.prog
    n = 0
    for f in prog.fns.values():
        for c in f.calls:
            if 'storage::observer::Observer::<K>::shutdown' not in prog.resolve(c):
                continue
            n += 1
            IN, at, guards = core.held_guards(f)
            held = [guards[g] for g in at(c.bb)]
            a = f.await_of_start(c.bb)
            if a is not None and a.yield_bb is not None:
                held += [guards[g] for g in at(a.yield_bb)]
            key = 'no-guard-at-shutdown|%s' % prog.fns[f.id].root
            if held:
                ctx.bad(rid, key, c.where(), 'close waits for the worker while holding %s: the worker may need that lock to finish' % (held,))
            else:
                ctx.ok(rid, key, c.where(), 'held set empty at the shutdown call and at its suspension point')
    if n < 1:
        raise core.AnchorLost('no call to Observer::shutdown')


def true_target(sw_term):
    for v, tg in sw_term['vals']:
        if v != 0:
            return tg
    if all(v == 0 for v, _ in sw_term['vals']):
        return sw_term['otherwise']
    return None


def l5(ctx, rid):
    prog = ctx.prog
    req = 'storage::observer::Observer::<K>::try_update_active_blob'
    prog.one(req)
    LIMITS = ('file_size', 'records_count', 'max_blob_size', 'max_data_in_blob')
    # (1) every rotation request is controlled by a switch whose condition derives (across helper returns) from the blob
    #     size / record count limits; remember which calls compute that condition
    reqs = [r for f in prog.fns.values() if f.file.startswith('src/storage/') for r in f.calls if req in prog.resolve(r) and r.name != 'poll']
    controlled = []   # (request call, switch block, condition origin calls)
    for r in reqs:
        f = r.fn
        rb = core.completion_block(f, r)
        exits = [bb for (bb, k, _) in core.exit_defs(f) if k in ('ok', 'fwd', 'val') and bb in f.reachable()]
        for i, b in enumerate(f.blocks):
            if b['c'] or b['t']['k'] != 'switch' or i not in f.reachable():
                continue
            tt = true_target(b['t'])
            if tt is None or not f.dominates(tt, r.bb) or r.bb in f.reach_from([0], avoid_enter=[tt]):
                continue
            ogs = core.origins_deep(prog, f, b['t']['o'], depth=3)
            if any(o.kind in ('arg', 'upvar') for o in ogs):
                # the condition is handed in by the caller (the request lives in a helper): follow the argument
                for o2 in core.origins_ip(prog, f, b['t']['o'], depth=2):
                    if o2.kind == 'call':
                        ogs = ogs + [o2] + core.origins_deep(prog, o2.fn, o2.data.dest[0], depth=5)
            cond_calls = [o.data for o in ogs if o.kind == 'call']
            if not any(x.name in LIMITS for x in cond_calls):
                continue
            reach2 = f.reach_from([tt], avoid_enter=[rb] if rb is not None else [])
            if any(e in reach2 for e in exits):
                continue
            controlled.append((r, i, cond_calls))
    n = 0
    for f in prog.fns.values():
        if not f.file.startswith('src/storage/'):
            continue
        for c in f.calls:
            if 'blob::core::Blob::<K>::write' not in prog.resolve(c) or c.name == 'poll' or c.bb not in f.reachable():
                continue
            n += 1
            key = 'rotation-check-after-write|%s' % prog.fns[f.id].root
            if not reqs:
                ctx.bad(rid, key, c.where(), 'no rotation request is sent anywhere in the storage layer')
                continue
            if not controlled:
                ctx.bad(rid, key, c.where(), 'no rotation request is controlled by a condition derived from the blob size / record count limits, with the request sent on every path of its true edge')
                continue
            ob = core.ok_block(f, c) or core.completion_block(f, c)
            exits = [bb for (bb, k, _) in core.exit_defs(f) if k in ('ok', 'fwd', 'val') and bb in f.reachable()]
            good = False
            why = 'after an ok write an ok-return is reachable without the rotation condition having been evaluated'
            for (r, sw, cond_calls) in controlled:
                # the part of the condition computed in the body of the write: calls of this body among the condition's origins
                here = [x for x in cond_calls if x.fn.id == f.id and x.bb in f.reach_from([ob])]
                if not here:
                    continue
                reach = f.reach_from([ob], avoid_exit=[x.bb for x in here])
                if any(e in reach for e in exits):
                    continue
                # the request's function is this body or a (transitive) caller that consumes this body's result
                if r.fn.id == f.id or any(core.Origin('call', r.fn, 0, x).kind == 'call' and any(t == (f.parent if f.is_coroutine else f.id) for t in prog.resolve(x)) for x in cond_calls if x.fn.id == r.fn.id):
                    good = True
                # or the request lives in a helper this body calls after the condition was computed
                helper_root = prog.fns[r.fn.id].root
                if any(helper_root in prog.resolve(x) and x.name != 'poll' and x.bb in f.reach_from([ob]) for x in f.calls):
                    good = True
                # write phase and notification phase are siblings called one after the other (`write_under_lock(..)?` then
                # `notify_after_write(&outcome)`): in a common caller the call of the request's body follows the ok completion of
                # the call of this body on every path to an ok return
                fr = prog.fns[f.id].root
                for g in prog.fns.values():
                    if good or not g.file.startswith('src/storage/'):
                        continue
                    ca = [x for x in g.calls if x.bb in g.reachable() and x.name != 'poll' and fr in prog.resolve(x)]
                    cb = [x for x in g.calls if x.bb in g.reachable() and x.name != 'poll' and helper_root in prog.resolve(x)]
                    if not ca or not cb:
                        continue
                    ex_g = [bb for (bb, k, _) in core.exit_defs(g) if k in ('ok', 'fwd', 'val') and bb in g.reachable()]
                    oka = core.ok_block(g, ca[0]) or core.completion_block(g, ca[0])
                    if oka is not None and not any(e in g.reach_from([oka], avoid_exit=[x.bb for x in cb]) for e in ex_g):
                        good = True
            if good:
                ctx.ok(rid, key, c.where(), 'size/count condition evaluated after every ok write; its true edge always sends the rotation request')
            else:
                ctx.bad(rid, key, c.where(), why)
    if n < 1:
        raise core.AnchorLost('no Blob::write call in the storage write path')
    # handler side: process_msg reaches replace_active_blob
    pm = 'storage::observer_worker::ObserverWorker::<K>::process_msg'
    prog.one(pm)
    L, E = prog.may_reach()
    if 'storage::core::Safe::<K>::replace_active_blob' in L.get(pm, ()):
        ctx.ok(rid, 'handler-reaches-replace', prog.fns[pm].where(), 'the message handler may reach Safe::replace_active_blob')
    else:
        ctx.bad(rid, 'handler-reaches-replace', prog.fns[pm].where(), 'the worker message handler cannot reach the active-blob replacement')


def l6(ctx, rid):
    import props.c08 as c08
    c08.d1(ctx, rid)


def l7(ctx, rid):
    """a deadline armed for deferred work is not wiped: no store of None into the worker's deadline field is reachable after a
    call that may arm it (update_deadline / a Some store) in the same body"""
    prog = ctx.prog
    L, E = prog.may_reach()
    n = 0
    for f in prog.fns.values():
        if f.file != WORKER_FILE:
            continue
        clears = []
        for i, b in enumerate(f.blocks):
            if b['c'] or i not in f.reachable():
                continue
            for s in b['s']:
                if s['k'] == 'a' and core.place_fields(s['d'])[-1:] == ['next_deadline']:
                    ogs = core.origins(f, s['r']['o']) if s['r']['k'] == 'use' else ([core.Origin('agg', f, i, s['r'])] if s['r']['k'] == 'agg' else [])
                    if ogs and all(o.kind == 'agg' and o.data.get('variant') == 'None' for o in ogs):
                        clears.append(i)
        if not clears:
            continue
        arms = []
        for c in f.calls:
            if c.bb not in f.reachable() or c.name == 'poll':
                continue
            for t in prog.resolve(c):
                if t in prog.fns and (t.endswith('::update_deadline') or any(x.endswith('::update_deadline') for x in L.get(t, ()))):
                    arms.append(c)
        for cl in clears:
            n += 1
            key = 'deadline-not-wiped|%s' % prog.fns[f.id].root
            late = [a for a in arms if cl in f.reach_from(f.after(a.bb))]
            if late:
                ctx.bad(rid, key, f.where(cl), 'the worker deadline is reset to None after `%s`, which may have re-armed it: the deferred work (index dump) it was armed for never runs' % late[0].name)
            else:
                ctx.ok(rid, key, f.where(cl), 'the reset precedes every call that may arm the deadline')
    if n < 1:
        raise core.AnchorLost('no reset of the worker deadline found')


def l9(ctx, rid):
    """requests to the worker are never dropped: the observer uses the waiting `send`; the lossy try_send / send_timeout /
    try_reserve variants are not used on the request channel"""
    prog = ctx.prog
    n = 0
    for f in prog.fns.values():
        for c in f.calls:
            if not c.path.startswith('tokio::sync::mpsc::Sender'):
                continue
            n += 1
            key = 'lossless-send|%s|%s' % (prog.fns[f.id].root, c.name)
            if c.name in ('try_send', 'send_timeout', 'try_reserve', 'try_reserve_owned', 'blocking_send'):
                ctx.bad(rid, key, c.where(), 'requests to the worker are sent with `%s`: while the queue is full they are dropped, so a requested rotation / index dump / create / close never happens' % c.name)
            else:
                ctx.ok(rid, key, c.where(), 'waiting send', nontrivial=c.name == 'send')
    if n < 1:
        raise core.AnchorLost('no Sender call')


def l8(ctx, rid):
    import props.c12 as c12
    c12.s8(ctx, rid, only_sync=False)


def l11(ctx, rid):
    """whenever the worker registers the deferred index-dump event (a non-None store into `deferred_index_dump_info`) the
    deadline is armed in the same handler: the deadline is reset to None each time it is reached, and only an armed deadline
    makes the worker look at the event again.  (A mere refresh of last_time needs no arming: the invariant "event registered =>
    deadline armed" already holds and the handler of a reached deadline re-arms when the event is not yet due.)"""
    prog = ctx.prog
    L, E = prog.may_reach()
    n = 0
    for f in prog.fns.values():
        if f.file != WORKER_FILE:
            continue
        regs = []
        for i, b in enumerate(f.blocks):
            if b['c'] or i not in f.reachable():
                continue
            for s in b['s']:
                if s['k'] == 'a' and core.place_fields(s['d'])[-1:] == ['deferred_index_dump_info']:
                    r = s['r']
                    if r['k'] == 'agg' and r.get('variant') == 'None':
                        continue
                    if r['k'] == 'use':
                        ogs = core.origins(f, r['o'])
                        if ogs and all(o.kind == 'agg' and o.data.get('variant') == 'None' for o in ogs):
                            continue
                    if r['k'] == 'agg' and r.get('adt') != 'std::option::Option':
                        continue    # construction of the worker itself
                    regs.append((i, 'registered'))
        if not regs:
            continue
        arms = []
        for c in f.calls:
            if c.bb not in f.reachable() or c.name == 'poll':
                continue
            for t in prog.resolve(c):
                if t in prog.fns and (t.endswith('::update_deadline') or any(x.endswith('::update_deadline') for x in L.get(t, ()))):
                    arms.append(c.bb)
        rets = [i for i in f.reachable() if f.blocks[i]['t']['k'] == 'return']
        # after a registration / refresh the field is Some: the None edge of a later test of the same field is infeasible
        none_edges = []
        for i in f.reachable():
            t = f.blocks[i]['t']
            if t['k'] != 'switch':
                continue
            for (b2, si, kind, r) in f.defs().get(op_local(t['o']), []):
                if kind == 'assign' and r['k'] == 'discr' and core.place_fields_deep(f, r['p'])[-1:] == ['deferred_index_dump_info']:
                    none_edges += [tg for v, tg in t['vals'] if v == 0]
                    if all(v == 1 for v, _ in t['vals']):
                        none_edges.append(t['otherwise'])
        for (bb, how) in regs:
            n += 1
            key = 'deferred-event-armed|%s|%s' % (prog.fns[f.id].root, how)
            reach = f.reach_from([bb], avoid_exit=arms, avoid_enter=none_edges)
            loose = [r for r in rets if r in reach]
            if loose and bb not in f.reach_from([0], avoid_exit=arms):
                loose = []      # armed earlier on every path of this handler
            if loose:
                ctx.bad(rid, key, f.where(bb), 'the deferred index-dump event is %s here and the handler can return without arming the deadline: the deadline was reset when it was reached, so unless another request arrives the requested dump never runs' % how,
                        witness=['bb%d %s' % (b, f.where(b)) for b in (f.path([bb], loose, avoid_exit=arms, avoid_enter=none_edges) or [])])
            else:
                ctx.ok(rid, key, f.where(bb), 'update_deadline on every path to the return')
    if n < 2:
        raise core.AnchorLost('registrations of the deferred event: %d' % n)


def l10(ctx, rid):
    """resumable maintenance loops make progress past a failing element: in a body that resumes an iteration with
    `.skip(progress)` every fallible call applied to an element is only reached after the progress counter was advanced in
    that iteration, or its failure edge cannot come back to the `.skip(progress)` without advancing it.  Otherwise a blob
    whose dump fails persistently is retried for ever: the dump task never finishes, later dump requests are dropped as
    'already running' and close() waits for the task."""
    prog = ctx.prog
    n = 0
    L10, _E = prog.may_reach()
    for f in prog.fns.values():
        for sk in f.calls:
            if sk.name != 'skip' or sk.trait != 'std::iter::Iterator' or len(sk.args) < 2 or sk.bb not in f.reachable():
                continue
            # the progress variable: the local the skip count is copied from
            ps = [o for o in core.origins(f, sk.args[1]) ]
            cnt = op_local(sk.args[1])
            ds = [x for x in f.defs().get(cnt, []) if x[2] == 'assign' and x[3]['k'] == 'use']
            P = op_local(ds[0][3]['o']) if len(ds) == 1 else cnt
            if P is None or not f.debug_name(P):
                continue
            incs = []
            for (bb, si, kind, r) in f.defs().get(P, []):
                if kind != 'assign':
                    continue
                for o in core.origins(f, P if False else (r['o'] if r['k'] == 'use' else None)) if r['k'] == 'use' else ([core.Origin('binop', f, bb, r)] if r['k'] == 'bin' else []):
                    if o.kind == 'binop' and o.data.get('op', '').startswith('Add') and any(op_local(o.data[x]) == P for x in ('a', 'b')):
                        incs.append(bb)
            if not incs:
                continue
            start = sk.t['t']
            for c in f.calls:
                if c.bb not in f.reachable() or c.name in ('poll', 'branch', 'from_residual', 'into_future', 'new_unchecked') or c.bb not in f.reach_from([start]):
                    continue
                tg = [t for t in prog.resolve(c) if t in prog.fns]
                direct = any(t.startswith('blob::') for t in tg) and core.returns_result(prog, c)
                via_helper = any(not t.startswith('blob::') and any(x.startswith('blob::core::Blob::<K>::dump') for x in L10.get(t, ())) for t in tg)
                if not (direct or via_helper):
                    continue
                n += 1
                key = 'progress-past-failure|%s|%s' % (prog.fns[f.id].root, c.name)
                if c.bb in incs or c.bb not in f.reach_from([start], avoid_exit=incs):
                    # (statements of a block run before its terminating call: an increment in the call's own block precedes it)
                    ctx.ok(rid, key, c.where(), '`%s` advanced before the element is processed' % f.debug_name(P))
                    continue
                cb = core.completion_block(f, c)
                back = cb is None or sk.bb in f.reach_from([cb], avoid_exit=incs)
                if not back:
                    ctx.ok(rid, key, c.where(), 'after `%s` completed, `.skip(%s)` is only reached again with `%s` advanced' % (c.name, f.debug_name(P), f.debug_name(P)))
                else:
                    ctx.bad(rid, key, c.where(), 'a failure of `%s` can lead back to `.skip(%s)` without `%s` having been advanced: a blob whose dump fails persistently is retried for ever - the background task never finishes, later requests are dropped as "already running", close() waits for it' % (c.name, f.debug_name(P), f.debug_name(P)))
    if n < 1:
        raise core.AnchorLost('resumable loop with a fallible per-element call: %d' % n)


def l12(ctx, rid):
    import props.c12 as c12
    c12.s10(ctx, rid, only_sync=False)


def l13(ctx, rid):
    """closing a blob merges its filter into the closed list inside the worker: a merge of incompatible filters must be declined
    (return false), not reach an `expect` - a panic there ends the worker task (C10.B10 instances)"""
    import props.c10 as c10
    c10.b10(ctx, rid)


def l14(ctx, rid):
    """the running worker is never lost by a state transition of the observer: where the observer state is moved out
    (mem::replace / mem::take of `state`), only a `Created` state may be consumed on a path that returns normally.  If any other
    old state (Running(sender, handle)) can reach a return, its Sender is dropped there: the worker drains its queue and exits,
    and every later request - rotation, index dumps, *_in_background - is only logged as 'observer not launched'."""
    prog = ctx.prog
    adt = prog.adts.get('storage::observer::ObserverState')
    if adt is None:
        raise core.AnchorLost('storage::observer::ObserverState')
    names = [v['name'] for v in adt['variants']]
    created = names.index('Created')
    n = 0
    for f in prog.fns.values():
        if f.file != 'src/storage/observer.rs':
            continue
        for c in f.calls:
            if c.bb not in f.reachable() or c.path not in ('std::mem::replace', 'std::mem::take'):
                continue
            if prims.field_of_receiver(f, c)[-1:] != ['state'] and 'ObserverState' not in f.locals[c.dest[0]]['s']:
                continue
            n += 1
            key = 'old-state-not-dropped|%s' % prog.fns[f.id].root
            rootf = prog.fns.get(prog.fns[f.id].root)
            if rootf is not None and rootf.argc >= 1 and rootf.locals[1]['s'].startswith('storage::observer::Observer<'):
                # the observer itself is consumed (`shutdown(mut self)`): ending the running worker is what this body is for
                ctx.ok(rid, key, c.where(), 'the observer is taken by value: a terminal transition', nontrivial=False)
                continue
            carry = core.flows_forward(f, c.dest[0])
            other_edges = []
            found = False
            for i in f.reachable():
                t = f.blocks[i]['t']
                if t['k'] != 'switch':
                    continue
                for (bb, si, kind, r) in f.defs().get(op_local(t['o']), []):
                    if kind == 'assign' and r['k'] == 'discr' and r['p'][0] in carry and 'ObserverState' in (core.place_type_str(f, r['p']) or f.locals[r['p'][0]]['s']):
                        found = True
                        for v, tg in t['vals']:
                            if v != created:
                                other_edges.append(tg)
                        if created in [v for v, _ in t['vals']]:
                            other_edges.append(t['otherwise'])
            rets = [i for i in f.reachable() if f.blocks[i]['t']['k'] == 'return']
            # an old state that is put back untouched (`other => { self.state = other; return }`) is not lost
            put_back = []
            for i in f.reachable():
                for st in f.blocks[i]['s']:
                    if st['k'] == 'a' and core.place_fields(st['d'])[-1:] == ['state'] and st['r']['k'] == 'use' and op_local(st['r']['o']) in carry:
                        put_back.append(i)
            if not found:
                ctx.bad(rid, key, c.where(), 'the observer state is moved out without being matched')
            elif any(r in f.reach_from(other_edges, avoid_enter=put_back) for r in rets):
                ctx.bad(rid, key, c.where(), 'an old observer state other than Created can reach a normal return after it was moved out of `self.state`: a Running state (second init / launch) is dropped there together with its Sender - the worker exits and background maintenance stops for the rest of the session')
            else:
                ctx.ok(rid, key, c.where(), 'only a Created state is consumed; every other old state diverges')
    if n < 1:
        raise core.AnchorLost('moves of the observer state: %d' % n)


def l15(ctx, rid):
    """a failed blob creation consumes its id: the retry triggered by the next write uses the next name (C07.H6 instances - the
    counter is never decreased)"""
    import props.c07 as c07
    c07.h6(ctx, rid)


def l16(ctx, rid):
    """C03.I4 instances: a blob whose index could not be loaded is only handed on (restored as the active blob) after clear() and a
    successful regeneration; with an index left on disk every write to the restored blob fails before the size check and the
    worker notification, and the blob is never rotated"""
    import props.c03 as c03
    c03.i4(ctx, rid)


def l17(ctx, rid):
    """a storage that initialised successfully has a running maintenance worker: in every function that launches the observer
    (Storage::init_ext) no Ok return is reachable around the launch - also not for `nothing to load` corner cases such as a lazy
    init of an empty directory (the first write would create the active blob inline, and nothing would ever rotate it)"""
    prog = ctx.prog
    S = core.Summ(prog, lambda c: c.name == 'launch_observer' or any(t.endswith('::launch_observer') or t.endswith('observer::Observer::<K>::run') for t in prog.resolve(c)), need_ok=False)
    n = 0
    for f in prog.fns.values():
        if f.file != 'src/storage/core.rs' or not any(S.pred(c) for c in f.calls if c.bb in f.reachable()):
            continue
        root = prog.fns[f.id].root
        n += 1
        key = 'init-launches-worker|%s' % root
        if S.must(f.id if not f.is_coroutine else root) or S.must(f.id):
            ctx.ok(rid, key, f.where(), 'every ok return passes launch_observer')
        else:
            ev = set(S.events(f))
            exits = [bb for (bb, k, _) in core.exit_defs(f) if k in ('ok', 'fwd', 'val') and bb in f.reachable()]
            free = f.reach_from([0], avoid_enter=ev)
            hit = [e for e in exits if e in free]
            ctx.bad(rid, key, f.where(hit[0] if hit else None), 'initialisation can return Ok without having launched the maintenance worker: every later notification is dropped, the active blob is never rotated and no index is dumped in background')
    if n < 1:
        raise core.AnchorLost('callers of launch_observer: %d' % n)


def l18(ctx, rid):
    """`filling the active blob beyond its limit still leads to a switch`: the worker serves a request when it gets the storage
    lock, and it *waits* for it.  A try-lock that gives up when the storage is busy turns every request that arrives under load
    into a no-op; with permanent read load the switch never happens."""
    prog = ctx.prog
    n = 0
    bad = None
    for f in prog.fns.values():
        if f.file != WORKER_FILE:
            continue
        n += 1
        for c in f.calls:
            if c.bb in f.reachable() and c.name in ('try_write', 'try_read', 'try_lock', 'try_upgradable_read', 'try_acquire', 'try_write_owned', 'try_read_owned') and ('RwLock' in c.path or 'Mutex' in c.path or 'Semaphore' in c.path):
                bad = c
    if n < 10:
        raise core.AnchorLost('functions in the worker module: %d' % n)
    if bad:
        ctx.bad(rid, 'worker-waits-for-locks', bad.where(), 'the maintenance worker takes a lock with `%s` and gives up when it is busy: a request (blob switch, dump, sync) that arrives under load is dropped, and nothing re-issues it' % bad.name)
    else:
        ctx.ok(rid, 'worker-waits-for-locks', '', 'no try-lock in %d worker functions' % n, nontrivial=False, queries=n)


def l19(ctx, rid):
    """C10.B21 instance: push counts slots; a skipped re-root makes the next push panic inside the worker (replace / close of the
    active blob), and maintenance stops for the session"""
    import props.c10 as c10
    c10.b21(ctx, rid)


def l20(ctx, rid):
    """the worker takes one request at a time and an error of one request never costs another: no function of the worker module
    drains several requests from the channel (`try_recv`, `recv_many`) before handling them - with a `?` in the handling loop
    every request drained after a failing one (a sync request behind an inapplicable create) is silently dropped"""
    prog = ctx.prog
    n = 0
    bad = None
    for f in prog.fns.values():
        if f.file != WORKER_FILE:
            continue
        n += 1
        for c in f.calls:
            if c.bb in f.reachable() and c.name in ('try_recv', 'recv_many', 'blocking_recv_many') and 'Receiver' in c.path:
                bad = c
    if n < 10:
        raise core.AnchorLost('functions in the worker module: %d' % n)
    if bad:
        ctx.bad(rid, 'one-request-at-a-time', bad.where(), 'the worker drains queued requests with `%s` before handling them: a request that fails makes the `?` of the handling loop discard the ones taken after it' % bad.name)
    else:
        ctx.ok(rid, 'one-request-at-a-time', '', 'no batch receive in %d worker functions' % n, nontrivial=False, queries=n)


def l21(ctx, rid):
    """C15.A13 instance: an underflow in memory_used() panics inside the worker (force-update statistics) and ends maintenance"""
    import props.c15 as c15
    c15.a13(ctx, rid)


def l22(ctx, rid):
    """`requested index dumps still complete`: the worker never aborts its own background tasks (JoinHandle::abort) - the dump
    pass it would cut is the only thing that syncs and indexes the closed blobs it has not reached yet, and an aborted dump
    drops the in-memory index it had taken out (C11.X3)"""
    prog = ctx.prog
    n = 0
    bad = None
    for f in prog.fns.values():
        if f.file not in (WORKER_FILE, 'src/storage/observer.rs'):
            continue
        n += 1
        for c in f.calls:
            if c.bb in f.reachable() and c.name in ('abort', 'abort_handle', 'abort_all', 'shutdown_background', 'shutdown_timeout') and ('JoinHandle' in c.path or 'AbortHandle' in c.path or 'JoinSet' in c.path or 'Runtime' in c.path):
                bad = c
    if n < 15:
        raise core.AnchorLost('functions in the observer modules: %d' % n)
    if bad:
        ctx.bad(rid, 'worker-never-aborts-tasks', bad.where(), 'a background task of the worker is cancelled with `%s`: the closed blobs the dump pass had not reached are neither synced nor indexed, and the index it was dumping is lost from memory' % bad.name)
    else:
        ctx.ok(rid, 'worker-never-aborts-tasks', '', 'no task abort in %d observer functions' % n, nontrivial=False, queries=n)


def l23(ctx, rid):
    """the worker computes its deadlines without arithmetic that panics on ordinary values: no `Duration - Duration` /
    `Instant - Duration` subtraction in the worker module (an overdue deferred event makes the elapsed time exceed the bound and
    the subtraction panics inside the worker task - saturating_sub / checked_sub / comparisons are the non-panicking forms)"""
    prog = ctx.prog
    n = 0
    bad = None
    for f in prog.fns.values():
        if f.file != WORKER_FILE:
            continue
        n += 1
        for c in f.calls:
            if c.bb in f.reachable() and c.name in ('sub', 'sub_assign') and ('std::time::Duration' in c.full or 'Instant' in c.full) and (c.trait or '').startswith('std::ops::Sub'):
                bad = c
    if n < 10:
        raise core.AnchorLost('functions in the worker module: %d' % n)
    if bad:
        ctx.bad(rid, 'no-panicking-time-subtraction', bad.where(), 'the worker subtracts times with the panicking operator (`%s`): once the subtrahend exceeds the minuend (an overdue deferred dump) the worker task panics and background maintenance stops' % bad.full[:80])
    else:
        ctx.ok(rid, 'no-panicking-time-subtraction', '', 'no panicking time subtraction in %d worker functions' % n, nontrivial=False, queries=n)


def l24(ctx, rid):
    """for the worker the absence of an active blob is an ordinary state (the client may close it between the request and its
    handling): no worker body unwraps / expects an Option that comes from the active-blob slot - a panic there ends the worker
    task and with it every later rotation, dump and sync request of the session"""
    prog = ctx.prog
    n = 0
    bad = None
    for f in prog.fns.values():
        if f.file != WORKER_FILE:
            continue
        for c in f.calls:
            if c.bb not in f.reachable() or c.name not in ('unwrap', 'expect', 'unwrap_unchecked') or not c.path.startswith('std::option::Option'):
                continue
            n += 1
            for o in core.origins_ip(prog, f, c.args[0], depth=2):
                if (o.kind == 'call' and o.data.name in ('read_active_blob', 'active_blob', 'read_active_blob_mut', 'take_active_blob')) or \
                   (o.kind == 'field' and str(o.data[1]) == 'active_blob'):
                    bad = c
    active_reads = sum(1 for f in prog.fns.values() if f.file == WORKER_FILE for c in f.calls if c.name in ('read_active_blob', 'active_blob'))
    if active_reads < 1:
        raise core.AnchorLost('reads of the active-blob slot in the worker: %d' % active_reads)
    if bad:
        ctx.bad(rid, 'worker-tolerates-no-active-blob', bad.where(), 'the worker unwraps the active blob: when the client closed it between the request and its handling the worker task panics and background maintenance stops for the session')
    else:
        ctx.ok(rid, 'worker-tolerates-no-active-blob', '', '%d Option unwraps in the worker, none of the active-blob slot (%d reads of the slot)' % (n, active_reads), nontrivial=False, queries=n + active_reads)


def l25(ctx, rid):
    """a deadline armed for the deferred index dump always has its event: in a worker body that empties `deferred_index_dump_info`
    (take / None), no path leads from there through `update_deadline` to the return without a new event being stored.  An armed deadline
    without an event fires into nothing - the requested dump is silently dropped"""
    prog = ctx.prog
    n = 0
    for f in prog.fns.values():
        if f.file != WORKER_FILE:
            continue
        empties, stores = [], []
        for i in f.reachable():
            b = f.blocks[i]
            for s in b['s']:
                if s['k'] == 'a' and core.place_fields(s['d'])[-1:] == ['deferred_index_dump_info']:
                    r = s['r']
                    none = r['k'] == 'agg' and r.get('adt') == 'std::option::Option' and r.get('variant') == 'None'
                    if r['k'] == 'use':
                        ogs = core.origins(f, r['o'])
                        none = bool(ogs) and all(o.kind == 'agg' and o.data.get('variant') == 'None' for o in ogs)
                    if none:
                        empties.append(i)
                    elif r['k'] == 'agg' and r.get('adt') != 'std::option::Option':
                        pass    # construction of the worker itself
                    else:
                        stores.append(i)
            c = f.call_at(i)
            if c is not None and c.name in ('take', 'replace') and c.args:
                for o in core.origins(f, c.args[0], stop_fields=True):
                    if o.kind == 'field' and str(o.data[1]) == 'deferred_index_dump_info':
                        empties.append(i)
        if not empties:
            continue
        arms = [c.bb for c in f.calls if c.bb in f.reachable() and c.name == 'update_deadline']
        for e in sorted(set(empties)):
            n += 1
            key = 'armed-deadline-has-event|%s' % prog.fns[f.id].root
            reach = f.reach_from(f.after(e), avoid_enter=stores)
            rets = [i for i in f.reachable() if f.blocks[i]['t']['k'] == 'return']
            # armed with the event still out - and the handler can return without storing one (the order of the two is free)
            loose = [a for a in arms if a in reach and any(r in f.reach_from(f.after(a), avoid_enter=stores) for r in rets)]
            if loose:
                ctx.bad(rid, key, f.where(e), 'the deferred index-dump event is taken out here and the deadline is armed again (%s) without the event being put back: when that deadline fires nothing is registered and the requested dump never runs' % f.where(loose[0]))
            else:
                ctx.ok(rid, key, f.where(e), 'no deadline is armed after the event was cleared unless a new event is stored first')
    if n < 1:
        raise core.AnchorLost('places that clear the deferred index-dump event: %d' % n)


def l26(ctx, rid):
    """a clean shutdown completes the index dumps that were requested: `Storage::close` dumps, besides the active blob, every closed
    blob whose index is in memory (a delete in a closed blob reloads its index and only registers a deferred dump with the
    worker; the worker stops without running it).  Otherwise the index file of that blob stays stale after a clean close: the
    offline tools reject it and report fewer headers than the blob holds (finding F17)"""
    prog = ctx.prog
    memo = {}

    def is_blob_dump(g, c):
        return c.name == 'dump' and any(t.startswith('blob::core::Blob') and t.endswith('::dump') for t in prog.resolve(c))

    def dumps_all(fid, depth=3):
        """the family of `fid` calls Blob::dump inside a loop (over the closed blobs), directly or through a callee"""
        if fid in memo:
            return memo[fid]
        memo[fid] = False
        if fid not in prog.fns or depth < 0:
            return False
        for gid in prog.family(fid):
            g = prog.fns.get(gid)
            if g is None:
                continue
            for c in g.calls:
                if c.bb not in g.reachable() or c.name == 'poll':
                    continue
                if is_blob_dump(g, c) and core.loop_depth(g, c.bb) >= 1:
                    memo[fid] = True
                    return True
                if any(t in prog.fns and t != fid and not t.startswith('blob::') and dumps_all(t, depth - 1) for t in prog.resolve(c)):
                    memo[fid] = True
                    return True
        return False
    f = prog.body_of('storage::core::Storage::<K>::close')
    if f is None:
        raise core.AnchorLost('Storage::close')
    ev = []
    for c in f.calls:
        if c.bb not in f.reachable() or c.name == 'poll':
            continue
        if is_blob_dump(f, c) and core.loop_depth(f, c.bb) >= 1:
            # the loop itself is the event (it may run zero times: no closed blobs)
            ev.extend(core.loop_headers_of(f, c.bb))
        elif any(t in prog.fns and dumps_all(t) for t in prog.resolve(c)):
            ev.append(c.bb)
    rets = [i for i in f.reachable() if f.blocks[i]['t']['k'] == 'return']
    reach = f.reach_from([0], avoid_exit=ev)
    loose = [r for r in rets if r in reach]
    key = 'close-dumps-closed-blobs|storage::core::Storage::<K>::close'
    if loose:
        ctx.bad(rid, key, f.where(), 'close() returns without dumping the closed blobs whose index is in memory: an index dump requested by a delete in a closed blob is dropped at shutdown and the index file of that blob stays stale')
    else:
        ctx.ok(rid, key, f.where(), 'every return of close() is preceded by a dump of the closed blobs (%d site(s))' % len(ev))


def l27(ctx, rid):
    """the bound on how long a deferred index dump can be postponed starts at the first request: `DeferredEventData.first_time` is
    written only where the event is created - no method re-assigns it or the whole value (`*self = Self::new()`).  Reset on every
    further request, the dump is postponed for as long as requests keep arriving faster than the minimum delay: it never runs"""
    prog = ctx.prog
    n = 0
    bad = None
    for f in prog.fns.values():
        if f.file != WORKER_FILE:
            continue
        root = prog.fns[f.id].root
        for i in f.reachable():
            for st in f.blocks[i]['s']:
                if st['k'] != 'a':
                    continue
                flds = core.place_fields(st['d'])
                ty = core.place_type_str(f, st['d']) or ''
                whole = ('DeferredEventData' in ty and not [x for x in flds if x] and st['d'][1] and st['d'][1][-1] == '*')
                if flds[-1:] == ['first_time'] or whole:
                    n += 1
                    if not root.endswith('DeferredEventData::new'):
                        bad = (f, i, 'first_time' if not whole else 'the whole event')
        for st_b in f.blocks:
            pass
    made = sum(1 for f in prog.fns.values() if f.file == WORKER_FILE for i in f.reachable() for st in f.blocks[i]['s']
               if st['k'] == 'a' and st['r']['k'] == 'agg' and 'DeferredEventData' in str(st['r'].get('adt')))
    if made < 1:
        raise core.AnchorLost('constructions of DeferredEventData: %d' % made)
    if bad:
        ctx.bad(rid, 'first-request-time-kept', bad[0].where(bad[1]), '%s of a registered deferred event is overwritten outside its constructor: the maximum postponement restarts with every request' % bad[2])
    else:
        ctx.ok(rid, 'first-request-time-kept', '', 'first_time is set at construction only (%d construction(s))' % made, nontrivial=False, queries=made)


RULES = [
    Rule('C13.L1', 'the worker loop is only left through the Stop arm (recv() == None) and contains no reachable panic written in the worker module', l1, 4),
    Rule('C13.L3', 'one channel, Sender never cloned, stored only in the Running state, dropped before the worker handle is awaited', l3, 4),
    Rule('C13.L4', 'no guard is live where close() waits for the worker', l4, 1),
    Rule('C13.L5', 'after every ok write the size/count rotation condition is evaluated and its true edge sends the rotation request; the handler reaches blob replacement', l5, 2),
    Rule('C13.L6', 'no armed wait-for cycle involves the worker (same graph as C08.D1)', l6, 1),
    Rule('C13.L7', 'a deadline armed for deferred work is never wiped by a later reset in the same body', l7, 1),
    Rule('C13.L9', 'requests to the worker are sent with the waiting send (never dropped when the queue is full)', l9, 1),
    Rule('C13.L11', 'every registration of the deferred index-dump event arms the worker deadline in the same handler', l11, 2),
    Rule('C13.L10', 'a resumable maintenance loop advances its progress counter past an element whose processing failed', l10, 1),
    Rule('C13.L12', 'the worker skips starting a background task only while one is really running (decided by JoinHandle::is_finished)', l12, 2),
    Rule('C13.L13', 'filters of different shape are never merged on the worker path (C10.B10 instances: the merge would panic inside the worker)', l13, 2),
    Rule('C13.L14', 'a state transition of the observer never drops a Running state (its Sender) on a returning path', l14, 1),
    Rule('C13.L16', 'a failed index load ends in clear() + successful regeneration before the blob is handed on (C03.I4 instances)', l16, 2),
    Rule('C13.L17', 'every successful initialisation has launched the maintenance worker', l17, 1),
    Rule('C13.L18', 'the maintenance worker waits for the locks it needs (no try-lock that drops a request under load)', l18, 1),
    Rule('C13.L19', 'push of the closed-blob tree counts slots, never occupied children (C10.B21 instance)', l19, 1),
    Rule('C13.L20', 'the worker takes one request at a time (no batch receive whose handling loop can drop requests)', l20, 1),
    Rule('C13.L21', 'the allocation counter of a reloaded index is seeded from vector capacities (C15.A13 instance)', l21, 1),
    Rule('C13.L22', 'the worker never aborts its background tasks', l22, 1),
    Rule('C13.L23', 'the worker performs no panicking subtraction of times', l23, 1),
    Rule('C13.L24', 'the worker never unwraps the active-blob slot', l24, 1),
    Rule('C13.L25', 'no deadline is armed for a deferred dump whose event was taken out', l25, 1),
    Rule('C13.L26', 'a clean close completes the index dumps of the closed blobs', l26, 1),
    Rule('C13.L27', 'the first-request time of a deferred event is set at its creation only', l27, 1),
    Rule('C13.L15', 'the blob id counter is never given back: a creation failure bound to one file name cannot repeat for ever (C07.H6 instances)', l15, 3),
    Rule('C13.L8', 'request-pending / in-progress flags are released on every path of their handler (C12.S8 instances)', l8, 1),
]
