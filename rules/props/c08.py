"""C08 Concurrent clients: wait-for cycles, single appender, no blocking guard across await."""
from collections import defaultdict
import core
import prims
import waitfor
from core import op_local
from engine import Rule

EXPLANATION = (
    "D1: wait-for graph over lock classes (lock crate x protected type, mode from the guard type), the bounded observer channel "
    "and task joins: edge a->b when b may be waited for (directly or through the may-wait summary of a callee) at a call site where "
    "a guard of a is live (forward held-guard dataflow on MIR); CHAN->x for everything the worker may wait for, JOIN(t)->x for "
    "spawned tasks. A cycle is reported when at every lock node the waiting mode conflicts with the holding mode (R/R does not). "
    "D2: every record append on a blob file happens with exclusive access (a &mut Blob receiver, or a live upgradable/write guard of "
    "the blob lock) that is still held at the index push of that record. D3: no std::sync guard is live at any yield. "
    "D4: append offsets come only from the atomic reservation (same instances as C07.H3). Decides these structural necessary "
    "conditions of deadlock-freedom and non-interleaved appends; linearizability of observed values is not decided.")
EXPLANATION += (" " + 'D5 = C04.T7 instances (check-then-act on the active slot must happen under one guard).')
ASSUMPTIONS = ["lock identity is abstracted to (lock crate, protected type): unique per class in this crate (checked against the ADT field table)"]

SELF_LOOP_EXCEPTIONS = {
    # fn id -> reason
    'filter::bloom::Bloom::acquire_snapshot_protection_ordered': 'acquires the two bloom snapshot locks in address order (total order => no cycle)',
}


def build_graph(prog):
    W = waitfor.WaitFor(prog)
    E = []   # (hclass, hmode, wclass, wmode, where, fn id, via)
    for (h, w, c, via) in W.edges():
        hc = waitfor.node_class(h)
        wc = waitfor.node_class(w)
        hm = h[3] if h[0] == 'LOCK' else 'X'
        wm = w[3] if w[0] == 'LOCK' else 'X'
        E.append((hc, hm, wc, wm, c.where(), c.fn.id, via))
    # CHAN -> everything the worker may wait for; JOIN(t) -> everything task t may wait for
    worker_roots = []
    bg_roots = []
    for t, sp in W.spawned.items():
        if 'ObserverWorker' in t and t.endswith('::run'):
            worker_roots.append(t)
        else:
            bg_roots.append(t)
    for r in worker_roots:
        for n in W.root_waits(r):
            if n == ('CHAN',):
                continue
            E.append((('CHAN',), 'X', waitfor.node_class(n), n[3] if n[0] == 'LOCK' else 'X', prog.fns[r].where(), r, 'worker loop'))
            E.append((('JOIN', 'JOIN(worker)'), 'X', waitfor.node_class(n), n[3] if n[0] == 'LOCK' else 'X', prog.fns[r].where(), r, 'worker loop'))
    for r in bg_roots:
        for n in W.root_waits(r):
            E.append((('JOIN', 'JOIN(bg-task)'), 'X', waitfor.node_class(n), n[3] if n[0] == 'LOCK' else 'X', prog.fns[r].where(), r, 'spawned task'))
    WRITERS.clear()
    for (n, c) in [x for v in W.direct.values() for x in v]:
        if n[0] == 'LOCK' and n[3] in ('W', 'U'):
            WRITERS.add(waitfor.node_class(n))
    return W, E, worker_roots, bg_roots


WRITERS = set()   # lock classes for which some site waits in an exclusive mode (filled by build_graph)


def conflict(hm, wm, cls):
    if cls[0] != 'LOCK':
        return True
    if waitfor.conflicts(hm, wm, cls[1]):
        return True
    # tokio's and async-lock's RwLocks are fair / write-preferring: a reader queues behind a waiting writer, so a shared
    # holder blocks a shared waiter as soon as any third party may wait for the same lock exclusively
    if cls[1] in ('tokio', 'async_lock') and cls in WRITERS:
        return True
    return False


def find_cycles(E, maxlen=5):
    """elementary cycles over classes; an edge is (hc,hm,wc,wm,...). A cycle e1..en is armed when for each i the wait mode of e_i on
    class wc_i conflicts with the hold mode of e_{i+1} (whose hc == wc_i)."""
    out_edges = defaultdict(list)
    for e in E:
        out_edges[e[0]].append(e)
    # compress by (hc,hm,wc,wm) keeping first site list
    comp = defaultdict(list)
    for e in E:
        comp[(e[0], e[1], e[2], e[3])].append(e)
    keys = list(comp.keys())
    by_src = defaultdict(list)
    for k in keys:
        by_src[k[0]].append(k)
    cycles = []
    seen = set()

    def dfs(path):
        last = path[-1]
        for k in by_src.get(last[2], []):
            if not conflict(k[1], last[3], last[2]):
                continue
            if k == path[0]:
                # closes: check the closing conflict (k is path[0]) done above
                canon = tuple(sorted(path))
                if canon not in seen:
                    seen.add(canon)
                    cycles.append(list(path))
                continue
            if k in path or len(path) >= maxlen:
                continue
            if any(k[0] == p[0] for p in path):
                continue
            dfs(path + [k])

    for k in keys:
        dfs([k])
    return cycles, comp


def cls_name(c):
    if c[0] == 'LOCK':
        return '%s:%s' % (c[1], c[2].split('::')[-1])
    if c[0] == 'JOIN':
        return c[1]
    return 'CHAN'


def d1(ctx, rid):
    prog = ctx.prog
    W, E, wr, br = build_graph(prog)
    if not wr:
        raise core.AnchorLost('worker task root not found')
    n_acq = sum(len(v) for v in W.direct.values())
    cycles, comp = find_cycles(E)
    reported = set()
    for cyc in cycles:
        desc = ' > '.join('%s[%s]->%s[%s]' % (cls_name(k[0]), k[1], cls_name(k[2]), k[3]) for k in cyc)
        if len(cyc) == 1:
            k = cyc[0]
            for e in comp[k]:
                key = 'selfloop|%s|%s' % (cls_name(k[0]), prog.fns[e[5]].root)
                if e[5] in SELF_LOOP_EXCEPTIONS:
                    if key not in reported:
                        ctx.ok(rid, key, e[4], 'exception: ' + SELF_LOOP_EXCEPTIONS[e[5]], nontrivial=False)
                    reported.add(key)
                    continue
                if key in reported:
                    continue
                reported.add(key)
                ctx.bad(rid, key, e[4], 'a %s guard (%s) is held while the same lock class is waited for (%s) via %s' % (cls_name(k[0]), k[1], k[3], e[6]))
            continue
        # root-cause edges: a lock held while blocking on a finite resource (channel capacity / a task); for pure lock-order
        # cycles every edge is a root cause
        has_res = any(k[2][0] != 'LOCK' for k in cyc)
        roots = [k for k in cyc if k[0][0] == 'LOCK' and (k[2][0] != 'LOCK' or not has_res)]
        for k in roots:
            for fid in sorted({prog.fns[e[5]].root for e in comp[k]}):
                e = [x for x in comp[k] if prog.fns[x[5]].root == fid][0]
                key = 'held-while-blocked|%s:%s->%s|%s' % (cls_name(k[0]), k[1], cls_name(k[2]), fid)
                if key in reported:
                    continue
                reported.add(key)
                wit = ['one armed cycle through this edge: ' + desc]
                for k2 in cyc:
                    e2 = comp[k2][0] if k2 != k else e
                    wit.append('%s held[%s] while waiting %s[%s] at %s in %s via %s' % (cls_name(k2[0]), k2[1], cls_name(k2[2]), k2[3], e2[4], e2[5], e2[6]))
                ctx.bad(rid, key, e[4], 'a %s guard (%s) is held while blocking on %s, and the party that must make progress needs that lock: %s'
                        % (cls_name(k[0]), k[1], cls_name(k[2]), desc), witness=wit)
    # every acquisition site is an obligation that was examined
    ctx.ok(rid, 'graph|edges=%d' % 0, '', 'wait-for graph built: %d acquisition/send/join sites, %d held->waited edges, %d class edges, worker roots %s, task roots %d'
           % (n_acq, len(E), len(comp), [x.split('::')[-2] for x in wr], len(br)), queries=len(E))
    if n_acq < 60:
        raise core.AnchorLost('only %d acquisition sites found' % n_acq)
    ctx.note('class edges: ' + '; '.join(sorted('%s[%s]->%s[%s]' % (cls_name(k[0]), k[1], cls_name(k[2]), k[3]) for k in comp)))


def is_record_append(prog, c, appenders):
    return any(t in appenders for t in prog.resolve(c))


def d2(ctx, rid):
    prog = ctx.prog
    FW = prims.FileWrappers(prog)
    appenders = set(FW.append_wrappers())
    # functions that (transitively, synchronously awaited) append a record: start from callers of the writable-data append
    rec_append = {a for a in appenders if 'writable_data' in a}
    if not rec_append:
        raise core.AnchorLost('record append wrapper not found')
    n = 0
    # level 1: bodies calling the record append wrapper directly (PartiallySerializedRecord::write_to_file), then their callers in blob::core
    lvl = set()
    for f in prog.fns.values():
        for c in f.calls:
            if any(t in rec_append for t in prog.resolve(c)) and prog.fns[f.id].root not in appenders and not prog.fns[f.id].root.startswith('<io::'):
                lvl.add(prog.fns[f.id].root)
    for f in prog.fns.values():
        if not f.file.startswith('src/blob/'):
            continue
        for c in f.calls:
            if c.name == 'poll' or not any(t in lvl for t in prog.resolve(c)):
                continue
            n += 1
            root = prog.fns[f.id].root
            key = 'exclusive-append|%s' % root
            pushes = prims.index_push_sites(prog, f)
            if not pushes:
                ctx.bad(rid, key, c.where(), 'record append without an index push in the same body')
                continue
            rootf = prog.fns[root]
            recv_mut = rootf.argc >= 1 and rootf.locals[1]['s'].startswith('&mut blob::core::Blob<')
            if recv_mut:
                ctx.ok(rid, key, c.where(), 'exclusive by type: receiver is &mut Blob')
                continue
            IN, at, guards = core.held_guards(f)
            okg = [g for g in at(c.bb) if guards[g][2] == 'blob::core::Blob' and guards[g][1] in ('U', 'W')]
            if not okg:
                ctx.bad(rid, key, c.where(), 'record append on a shared blob without holding its upgradable/write guard (held: %s)' % sorted(guards[g] for g in at(c.bb)))
                continue
            lost = [p for p in pushes if not any(g in at(p.bb) for g in okg)]
            if lost:
                ctx.bad(rid, key, lost[0].where(), 'the exclusive blob guard is released between the append and the index push')
                continue
            ctx.ok(rid, key, c.where(), 'upgradable/write guard of the blob held from the append to the index push')
    if n < 2:
        raise core.AnchorLost('record append sites in blob: %d' % n)


def d3(ctx, rid):
    prog = ctx.prog
    n = 0
    for f in prog.fns.values():
        if not f.is_coroutine:
            continue
        IN, at, guards = core.held_guards(f)
        std = {g for g, gc in guards.items() if gc[0] == 'std'}
        if not std:
            continue
        for y in f.yields:
            if y not in f.reachable():
                continue
            n += 1
            live = [g for g in at(y) if g in std]
            if live:
                ctx.bad(rid, 'std-guard-across-await|%s|%s' % (f.id, guards[live[0]][2]), f.where(y), 'a blocking std::sync guard (%s) is live across a suspension point' % (guards[live[0]],))
    ctx.ok(rid, 'scan', '', 'no std::sync guard live at any of the %d yields of coroutines that own std guards (%d coroutines scanned)' % (n, sum(1 for f in prog.fns.values() if f.is_coroutine)), queries=max(n, 1), nontrivial=n > 0)


def d4(ctx, rid):
    import props.c07 as c07
    c07.h3(ctx, rid)


def d5(ctx, rid):
    """check-then-act on the active slot under one guard: an assignment never overwrites a blob another client may have written to
    (C04.T7 instances)"""
    import props.c04 as c04
    c04.t7(ctx, rid)


def d6(ctx, rid):
    """records on disk lie where their index entries say: reserved offsets are honoured by the OS (C11.F9 instance)"""
    import props.c11 as c11
    c11.f9(ctx, rid)


ACQ = ('read', 'write', 'lock', 'upgradable_read', 'try_read', 'try_write', 'try_lock')


def _taint(f, start):
    """locals whose value may be computed from the value in `start` (through copies, references, any call taking it)"""
    carry = {start}
    changed = True
    while changed:
        changed = False
        for i, b in enumerate(f.blocks):
            if b['c']:
                continue
            for st in b['s']:
                if st['k'] == 'a' and any(p[0] in carry for p in core.rvalue_places(st['r'])) and st['d'][0] not in carry:
                    carry.add(st['d'][0])
                    changed = True
            t = b['t']
            if t['k'] == 'call':
                c = f.call_at(i)
                if any(op_local(a) in carry for a in c.args) and c.dest[0] not in carry:
                    carry.add(c.dest[0])
                    changed = True
            elif t['k'] == 'switch' and op_local(t['o']) in carry and i in f.reachable():
                # control dependence: what is assigned on one side of a decision on a tainted value carries the decision
                # (`if key < self.min { Below } else { Inside }` of a `position()` helper that was inlined)
                outs = [x for x in [tg for _, tg in t['vals']] + [t['otherwise']] if f.blocks[x]['t']['k'] != 'unreachable']
                if len(outs) >= 2:
                    sets = [f.reach_from([x]) for x in outs]
                    common = set.intersection(*sets)
                    for x in set.union(*sets) - common:
                        for st in f.blocks[x]['s']:
                            if st['k'] == 'a' and not st['d'][1] and st['d'][0] not in carry and st['d'][0] != 0:
                                carry.add(st['d'][0])
                                changed = True
    return carry


def d7(ctx, rid):
    """no decision is carried from one critical section into the next one on the same lock: a value computed through a guard
    of lock L that has been released is not handed to (or stored through) a later write guard of the same L in the same body.
    The state may have changed between the two acquisitions (check under the read lock, act under the write lock): with two
    concurrent adders the stale decision overwrites the other thread's wider bound and the filter answers `absent` for an added
    key."""
    prog = ctx.prog
    n = 0
    nbad = 0
    for f in prog.fns.values():
        acqs = []
        for c in f.calls:
            if c.bb not in f.reachable() or c.name not in ACQ or not c.args:
                continue
            if not ('RwLock' in c.path or 'Mutex' in c.path):
                continue
            recv = op_local(c.args[0])
            if recv is None:
                continue
            ds = [x for x in f.defs().get(recv, []) if x[2] == 'assign' and x[3]['k'] == 'ref']
            place = ds[0][3]['p'] if len(ds) == 1 else None
            if place is None:
                continue
            names = tuple(core.place_fields_deep(f, place))
            root = core.access_root(f, place[0])
            acqs.append((c, names, root))
        if len(acqs) < 2:
            continue
        for (c1, n1, r1) in acqs:
            for (c2, n2, r2) in acqs:
                if c1 is c2 or n1 != n2 or r1 != r2 or not n1:
                    continue
                if c2.name not in ('write', 'lock', 'try_write', 'try_lock'):
                    continue
                if c2.bb not in f.reach_from(f.after(c1.bb)) or c1.bb in f.reach_from(f.after(c2.bb)):
                    continue    # c1 strictly before c2 (no loop back)
                n += 1
                t1 = _taint(f, c1.dest[0])
                g2 = _taint(f, c2.dest[0])
                bad = None
                for c in f.calls:
                    if c.bb not in f.reach_from(f.after(c2.bb)) or c is c2 or not c.args:
                        continue
                    if op_local(c.args[0]) in g2 and c.name not in ('expect', 'unwrap', 'deref', 'deref_mut', 'poll', 'into_future', 'new_unchecked'):
                        stale = [a for a in c.args[1:] if op_local(a) in t1 and op_local(a) not in g2]
                        if stale:
                            bad = c
                            break
                if bad is None:
                    # the stale value decides a branch inside the later critical section and that branch stores through the
                    # guard (`match position { Below => self.min = key, .. }` of an inlined `extend(position, key)`)
                    region = f.reach_from(f.after(c2.bb))
                    for i in sorted(region):
                        t = f.blocks[i]['t']
                        if t['k'] != 'switch' or op_local(t['o']) is None or op_local(t['o']) not in t1 or op_local(t['o']) in g2:
                            continue
                        for x in f.reach_from([i]):
                            for st in f.blocks[x]['s']:
                                if st['k'] == 'a' and st['d'][1] and core.access_root(f, st['d'][0]) in g2:
                                    bad = f.call_at(c2.bb)
                key = 'no-stale-decision|%s|%s' % (prog.fns[f.id].root, '.'.join(n1))
                if bad is not None:
                    nbad += 1
                    ctx.bad(rid, key, bad.where(), 'a value computed under a guard of `%s` acquired at %s (already released) is handed to `%s` under a later write guard of the same lock: the state may have changed in between (check-then-act across two critical sections)' % ('.'.join(n1), c1.where(), bad.name))
                else:
                    ctx.ok(rid, key, c2.where(), 'nothing computed under the earlier guard flows into the later critical section', nontrivial=False)
    ctx.ok(rid, 'scan', '', '%d pairs of successive acquisitions of one lock in one body examined, %d carry a decision across' % (n, nbad), nontrivial=False, queries=max(1, n))


def d8(ctx, rid):
    """the offset a record is stamped with (header field, index entry) is the offset the append reserved: every implementation
    of WritableDataCreator::create builds its data and its result from the `offset` it is handed inside the non-cancellable
    closure - an offset taken earlier (File::size() in the async body) is stale as soon as another closure reserves first, e.g.
    the detached closure of a write whose future was dropped"""
    prog = ctx.prog
    impls = [d for (st, d) in prog.trait_impls.get('io::WritableDataCreator::create', [])]
    n = 0
    for d in impls:
        f = prog.fns.get(d)
        if f is None:
            continue
        n += 1
        key = 'stamped-offset-is-reserved-offset|%s' % d
        carry = core.flows_forward(f, 2, transparent=lambda x: tuple(range(len(x.args))))     # through helpers that build the record
        into_calls = [c for c in f.calls if c.bb in f.reachable() and any(op_local(a) in carry for a in c.args)]
        if 0 in carry and into_calls:
            ctx.ok(rid, key, f.where(), 'the offset parameter reaches the result and `%s`' % into_calls[0].name)
        elif 0 in carry:
            ctx.ok(rid, key, f.where(), 'the offset parameter reaches the result')
        else:
            ctx.bad(rid, key, f.where(), 'this WritableDataCreator ignores the offset reserved for it: the header / index entry carry an offset '
                    'computed before the reservation, which is wrong whenever another append (a detached one of a dropped write future) reserves first')
    if n < 1:
        raise core.AnchorLost('impls of io::WritableDataCreator::create: %d' % n)


def d9(ctx, rid):
    """a query over the active blob and the closed blobs sees one state of the storage: a client-facing body of the storage does
    not take the shared storage lock twice in a row.  Between the two sections a queued writer (restore, rotation) is admitted -
    the blob moves from the list the second section reads to the slot the first one read, and the query misses a record that was
    acknowledged long before it started"""
    prog = ctx.prog
    n = 0
    for f in prog.fns.values():
        if f.file != 'src/storage/core.rs' or not f.is_coroutine:
            continue
        acq = [c for c in f.calls if c.bb in f.reachable() and c.name == 'read' and 'RwLock' in c.path and prims.receiver_field(f, c) == 'safe']
        if not acq:
            continue
        n += 1
        key = 'one-shared-section|%s' % prog.fns[f.id].root
        twice = [(a, b) for a in acq for b in acq if a is not b and b.bb in f.reach_from(f.after(a.bb)) and core.loop_depth(f, b.bb) == core.loop_depth(f, a.bb)]
        if twice:
            a, b = twice[0]
            ctx.bad(rid, key, b.where(), 'the shared storage lock is taken a second time in this body (first at %s): the two sections see different states of the storage when a restore / rotation is admitted in between' % a.where())
        else:
            ctx.ok(rid, key, acq[0].where(), 'one shared section')
    if n < 8:
        raise core.AnchorLost('storage bodies that take the shared storage lock: %d' % n)


RULES = [
    Rule('C08.D1', 'the wait-for graph over lock classes, the bounded worker channel and task joins has no cycle with conflicting modes', d1, 1),
    Rule('C08.D2', 'every record append on a blob is made with exclusive access that is still held at the index push of that record', d2, 2),
    Rule('C08.D3', 'no std::sync guard is live at a suspension point', d3, 1),
    Rule('C08.D5', 'the active slot is assigned only where it was seen empty through the exclusive guard in hand (no check-then-act across two acquisitions)', d5, 4),
    Rule('C08.D6', 'no file of the io layer is opened with O_APPEND: the reserved offset is the offset written (C11.F9 instance)', d6, 1),
    Rule('C08.D7', 'no value computed under a released guard of a lock is handed to a later write guard of the same lock in the same body', d7, 1),
    Rule('C08.D8', 'every WritableDataCreator builds its result from the offset reserved for it inside the append closure', d8, 1),
    Rule('C08.D9', 'no client-facing storage body takes the shared storage lock twice in a row', d9, 8),
    Rule('C08.D4', 'append offsets originate only in the atomic size reservation; the counter is only loaded / fetch_add-ed', d4, 5),
]
