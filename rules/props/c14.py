"""C14 Cancellation safety."""
import core
import prims
import moveout
import waitfor
from core import op_local
from engine import Rule

EXPLANATION = (
    "Every `yield ... drop:` edge of the pre-transform MIR is a point where a client may drop the future. X1: each reservation "
    "(fetch_add on FileInner.size) and the OS write that consumes it lie in non-coroutine bodies handed to a spawn_blocking / "
    "block_in_place runner (no suspension point can separate them). X2: no yield lies on any path from the completed record append "
    "to the index push of that record. X3: after a value is moved out of shared state (take/replace of Safe.active_blob, pop of the "
    "closed list, mem::take of the in-memory header map) no yield is reachable before the value is handed back (store into the "
    "field, push to the closed list, replace_active_blob), in bodies reachable from client-held futures (public &self async methods; "
    "close(self)/init(&mut self) and spawned tasks are not client-cancellable). X4: a guard object whose Drop undoes a reservation "
    "(a Drop impl that modifies a shared atomic counter) must not be live across a yield in a client-cancellable body. "
    "Decides these structural necessary conditions, not the state after dropping at each of the k polls.")
EXPLANATION += (" " + 'X3 also treats mem::replace of IndexStruct.inner as a move-out and requires that an awaited hand-back callee cannot really suspend: core.may_suspend follows awaits down to leaf futures (external futures suspend; an async fn of this crate suspends only if one of its awaits does).')
EXPLANATION += (" " + 'X6 = C03.I10.')
ASSUMPTIONS = ["only the spawn_blocking/block_in_place backend is compiled (async-io-rio is not part of the pinned build)"]


def client_cancellable(prog):
    """bodies reachable from a future a client holds: public &self async methods of Storage (and trait impls on Storage),
    not crossing tokio::spawn boundaries"""
    W = waitfor.WaitFor(prog)
    edges, ext = prog.callgraph()
    roots = []
    for f in prog.fns.values():
        if f.id != f.root or not f.is_async and not f.trait_item:
            continue
        st = (f.impl_self or {}).get('h')
        if st != 'storage::core::Storage':
            continue
        if not (f.is_pub or f.trait_item):
            continue
        if f.argc >= 1 and f.locals[1]['s'].startswith('&storage::core::Storage<') or (f.argc >= 1 and f.locals[1]['s'].startswith('&mut storage::core::Storage<') and f.trait_item):
            if f.argc >= 1 and f.locals[1]['s'].startswith('&mut') and not f.trait_item:
                continue
            roots.append(f.id)
    # futures the library itself may drop before completion: the argument of tokio::time::timeout / timeout_at
    for f in prog.fns.values():
        for c in f.calls:
            if c.name in ('timeout', 'timeout_at') and c.crate == 'tokio' and c.bb in f.reachable():
                for a in c.args:
                    for o in core.origins(f, a):
                        if o.kind == 'call':
                            for t in prog.resolve(o.data):
                                if t in prog.fns and t not in roots:
                                    roots.append(t)
    seen = set()
    stack = list(roots)
    while stack:
        v = stack.pop()
        if v in seen:
            continue
        seen.add(v)
        for w in edges.get(v, ()):
            if w in W.spawned and W._is_spawn_edge(v, w):
                continue
            if w not in seen:
                stack.append(w)
    return seen, roots


def x1(ctx, rid):
    prog = ctx.prog
    FW = prims.FileWrappers(prog)
    n = 0
    for (c, kind, ogs, owner) in FW.sites:
        if kind != 'append':
            continue
        n += 1
        key = 'reserve+write|%s' % c.fn.id
        res = [o for o in ogs if o.kind == 'call' and prims.is_reservation(prog, o.fn, o.data)]
        bad = []
        for o in res:
            if o.fn.is_coroutine:
                bad.append('the offset is reserved in an async body (%s): a dropped future leaves a reserved hole that is never written' % o.fn.id)
                continue
            # the closure holding the reservation is handed to a runner
            root_cl = o.fn
            sites = core.closure_construction_sites(prog, root_cl.id)
            if root_cl.kind == 'Closure':
                ok = False
                for (par, bb, r) in sites:
                    for cc in par.calls:
                        if any(core.is_runner(prog, t) for t in prog.resolve(cc) if t in prog.fns) and any(op_local(a) is not None and par.locals[op_local(a)].get('h') == 'closure' and par.locals[op_local(a)]['a'][0] == root_cl.id for a in cc.args):
                            ok = True
                if not ok:
                    bad.append('the closure that reserves the offset (%s) is not handed to a spawn_blocking/block_in_place runner' % root_cl.id)
        if c.fn.is_coroutine:
            bad.append('the OS write happens in an async body')
        if bad:
            ctx.bad(rid, key, c.where(), '; '.join(bad))
        else:
            ctx.ok(rid, key, c.where(), 'reservation and OS write in non-coroutine bodies run by a blocking runner')
    # any fetch_add on size at all must be in a non-coroutine body
    for f in prog.fns.values():
        for c in f.calls:
            if prims.is_reservation(prog, f, c):
                n += 1
                if f.is_coroutine:
                    ctx.bad(rid, 'reserve-in-coroutine|%s' % f.id, c.where(), 'file offset reserved in an async body: a suspension point can separate the reservation from the write')
                else:
                    ctx.ok(rid, 'reserve-in-closure|%s' % f.id, c.where(), 'reservation in a non-coroutine body', nontrivial=False)
    if n < 4:
        raise core.AnchorLost('reservation sites: %d' % n)


def x2(ctx, rid):
    prog = ctx.prog
    FW = prims.FileWrappers(prog)
    appenders = set(FW.append_wrappers())
    rec_append = {a for a in appenders if 'writable_data' in a}
    lvl = set()
    for f in prog.fns.values():
        for c in f.calls:
            if any(t in rec_append for t in prog.resolve(c)) and prog.fns[f.id].root not in appenders and not prog.fns[f.id].root.startswith('<io::'):
                lvl.add(prog.fns[f.id].root)
    n = 0
    for f in prog.fns.values():
        if not f.file.startswith('src/blob/') or not f.is_coroutine:
            continue
        for c in f.calls:
            if c.name == 'poll' or not any(t in lvl for t in prog.resolve(c)):
                continue
            pushes = prims.index_push_sites(prog, f)
            if not pushes:
                continue
            n += 1
            key = 'no-yield-append-to-push|%s' % prog.fns[f.id].root
            ob = core.ok_block(f, c) or core.completion_block(f, c)
            reach = f.reach_from([ob], avoid_exit=[p.bb for p in pushes])
            ys = [y for y in sorted(core.real_yields(prog, f)) if y in reach]
            if ys:
                ctx.bad(rid, key, f.where(ys[0]), 'a suspension point lies between the completed append and the index push: a future dropped there leaves a durable record the index never contains',
                        witness=['bb%d %s' % (b, f.where(b)) for b in (f.path([ob], ys, avoid_exit=[p.bb for p in pushes]) or [])])
            else:
                ctx.ok(rid, key, c.where(), 'no yield on any path from the ok edge of the append to the index push')
    if n < 2:
        raise core.AnchorLost('append->push bodies: %d' % n)


def x3(ctx, rid):
    prog = ctx.prog
    cc, roots = client_cancellable(prog)
    if len(roots) < 20:
        raise core.AnchorLost('client entry points: %d' % len(roots))
    n = 0
    for (f, c, what) in moveout.moveouts(prog):
        n += 1
        key = 'restore-before-suspend|%s|%s' % (what, prog.fns[f.id].root)
        if f.id not in cc and prog.fns[f.id].root not in cc:
            ctx.ok(rid, key, c.where(), 'not reachable from a client-held future (worker / spawned task / close(self) / init(&mut self))', nontrivial=False)
            continue
        r = moveout.analyse(prog, f, c, what)
        if r['cancel']:
            y, path = r['cancel'][0]
            ctx.bad(rid, key, f.where(y), 'after `%s` moved the %s out of shared state a suspension point is reachable before it is handed back: dropping the future there loses it' % (c.name, what),
                    witness=['bb%d %s' % (b, f.where(b)) for b in (path or [])])
        elif r['sink_suspends']:
            sc = r['sink_suspends'][0]
            ctx.bad(rid, key, sc.where(), 'the %s moved out by `%s` is handed back through `%s(..).await`, and that callee can really suspend (it reaches a leaf future): the only handle lives in the callee\'s frame across that suspension, so dropping the client future there loses it' % (what, c.name, sc.name))
        else:
            ctx.ok(rid, key, c.where(), 'no yield between the move-out and the hand-back (sinks: %s); the hand-back callee cannot suspend' % r['sinks'])
    if n < 4:
        raise core.AnchorLost('move-out sites: %d' % n)


def drop_undoers(prog):
    """ADTs with a Drop impl whose drop body (transitively) modifies an atomic counter with a non-idempotent op
    (fetch_sub / fetch_add / store / compare_exchange / swap): reservation-style RAII guards"""
    out = {}
    L, E = prog.may_reach()
    for im in prog.impls:
        if im['trait'] != 'std::ops::Drop':
            continue
        for it in im['items']:
            d = it['def']
            f = prog.fns.get(d)
            if not f:
                continue
            ops = []
            for fid in [d] + sorted(L.get(d, ())):
                for c in prog.fns[fid].calls:
                    if c.path.startswith('std::sync::atomic::Atomic') and c.name in ('fetch_sub', 'fetch_add', 'store', 'compare_exchange', 'swap', 'fetch_update', 'compare_exchange_weak'):
                        ops.append((c, prims.receiver_field(prog.fns[fid], c)))
            if ops:
                out[im['self'].get('h')] = ops
    return out


def x4(ctx, rid):
    prog = ctx.prog
    und = drop_undoers(prog)
    cc, roots = client_cancellable(prog)
    n = 0
    for adt, ops in sorted(und.items()):
        # what does the Drop touch?  a flag reset (store of a constant on an AtomicBool) is idempotent: fine
        harmful = [(c, fld) for (c, fld) in ops if not ('Atomic::<bool>' in c.path and c.name == 'store')]
        for f in prog.fns.values():
            if not f.is_coroutine or (f.id not in cc and f.root not in cc):
                continue
            ls = [l for l, ty in enumerate(f.locals) if ty.get('h') == adt]
            if not ls:
                continue
            n += 1
            key = 'undo-guard-across-await|%s|%s' % (adt.split('::')[-1], f.root)
            if not harmful:
                ctx.ok(rid, key, f.where(), 'Drop of %s only resets a flag (idempotent)' % adt, nontrivial=False)
                continue
            # live across a yield?
            live_y = []
            for l in ls:
                for (bb, si, kind, payload) in f.defs().get(l, []):
                    start = bb
                    kills = [i for i, b in enumerate(f.blocks) if not b['c'] and ((b['t']['k'] == 'drop' and b['t']['p'][0] == l and not b['t']['p'][1]))]
                    moved = [i for i, b in enumerate(f.blocks) if not b['c'] and any(s['k'] == 'a' and any('m' in o and o['m'][0] == l and not o['m'][1] for o in core.rvalue_operands(s['r'])) for s in b['s'])]
                    reach = f.reach_from(f.after(start) if kind == 'call' else [start], avoid_exit=kills + moved)
                    live_y += [y for y in sorted(core.real_yields(prog, f)) if y in reach]
            if live_y:
                c0, fld = harmful[0]
                ctx.bad(rid, key, f.where(live_y[0]), 'a guard of type %s, whose Drop does `%s` on `%s`, is live across a suspension point of a client-cancellable future: a dropped future undoes a reservation whose effects (files created, bytes written) already happened' % (adt, c0.name, fld))
            else:
                ctx.ok(rid, key, f.where(), 'never live across a yield')
    ctx.ok(rid, 'scan', '', 'Drop impls touching atomics: %s' % sorted(und), nontrivial=False, queries=max(1, len(und)))


def x5(ctx, rid):
    """a blob becomes visible as the active blob only in a state that accepts writes: nothing that can suspend or fail separates
    `published` from `usable` (C04.T1 instances: the value stored into the active slot is certified before the store)"""
    import props.c04 as c04
    c04.t1(ctx, rid)


def x6(ctx, rid):
    """what a dropped close() / a crash during the index dump leaves behind (an empty or cut index file) never fails the next
    start (C03.I10 instance)"""
    import props.c03 as c03
    c03.i10(ctx, rid)


COLL_ADD = ('push', 'insert', 'push_back', 'push_front', 'extend', 'get_or_insert_with', 'or_insert', 'or_insert_with')
COLL_REM = ('remove', 'retain', 'swap_remove', 'pop', 'pop_front', 'pop_back', 'clear', 'drain', 'remove_entry', 'truncate')


def direct_collection_ops(f):
    """[(call, field, 'add'|'rem')] for the std collection mutations of body `f` reached through a named field (directly or
    through a guard taken from that field)"""
    out = []
    for c in f.calls:
        if c.bb not in f.reachable() or not (c.path.startswith('std::vec::Vec') or c.path.startswith('std::collections::')):
            continue
        kind = 'add' if c.name in COLL_ADD else ('rem' if c.name in COLL_REM else None)
        if not kind:
            continue
        flds = [x for x in prims.field_of_receiver(f, c) if x and not x.isdigit()]
        if not flds and c.args:
            # a collection behind a lock: `self.set.lock().expect(..).insert(x)` - the field the guard was taken from
            flds = [o.data[1] for o in core.origins(f, c.args[0], stop_fields=True) if o.kind == 'field']
        if not flds:
            continue
        out.append((c, flds[-1], kind))
    return out


def collection_effects(prog):
    """per non-coroutine function of the crate: {(field, 'add'|'rem')} for std collection mutations reached through a named field"""
    eff = {}
    for f in prog.fns.values():
        if f.is_coroutine:
            continue
        for (c, fld, kind) in direct_collection_ops(f):
            eff.setdefault(prog.fns[f.id].root, set()).add((fld, kind))
    return eff


def collection_sites(prog, f, eff):
    """(adds, rems) of body `f`: calls of functions with a collection effect, and the body's own collection mutations (a
    `start_x` / `finish_x` helper pair that was inlined)"""
    adds, rems = [], []
    for c in f.calls:
        if c.bb not in f.reachable() or c.name == 'poll':
            continue
        for t in prog.resolve(c):
            for (fld, kind) in eff.get(t, ()):
                (adds if kind == 'add' else rems).append((c, fld))
    if f._has_inlined:
        for (c, fld, kind) in direct_collection_ops(f):
            (adds if kind == 'add' else rems).append((c, fld))
    return adds, rems


def x7(ctx, rid):
    """a registration in shared state made before a suspension point is not undone by a plain statement after it: in a
    client-cancellable body, between a call that adds an element to a shared collection and the call that removes it again no real
    suspension point may lie (the removal must be a Drop guard) - a future dropped there leaves the element registered for ever
    (e.g. an in-flight marker: every later write of that key is answered `already being written` and acknowledged without data)"""
    prog = ctx.prog
    eff = collection_effects(prog)
    cc, roots = client_cancellable(prog)
    n = 0
    bad = 0
    for f in prog.fns.values():
        if not f.is_coroutine or (f.id not in cc and f.root not in cc):
            continue
        adds, rems = collection_sites(prog, f, eff)
        ry = core.real_yields(prog, f)
        for (a, fa) in adds:
            for (r, fr) in rems:
                if fa != fr or a is r or r.bb not in f.reach_from(f.after(a.bb)):
                    continue
                n += 1
                between = [y for y in ry if y in f.reach_from(f.after(a.bb), avoid_exit=[r.bb]) and r.bb in f.reach_from([y])]
                key = 'registration-undone-by-guard|%s|%s' % (f.root, fa)
                if between:
                    bad += 1
                    ctx.bad(rid, key, a.where(), '`%s` registers an element in the shared collection `%s` and `%s` removes it again, with a suspension point in between (%s): a client that drops the future there leaves the element registered for the rest of the session' % (a.name, fa, r.name, f.where(between[0])))
                else:
                    ctx.ok(rid, key, a.where(), 'no suspension point between registration and removal', nontrivial=False)
    ctx.ok(rid, 'scan', '', '%d registration / removal pairs on shared collections in client-cancellable bodies, %d with a suspension point between' % (n, bad), nontrivial=False, queries=max(1, n))


def _x8_gates(prog, f, bb):
    """(switches decided by IndexTrait::load only, [(switch, foreign origins)]) among the non-`?` decisions in front of bb"""
    gates, foreign = [], []
    for sw in core.deciding_switches(f, bb):
        kind, ty = core.switch_kind(f, sw)
        if kind == 'try':
            continue
        l = op_local(f.blocks[sw]['t']['o'])
        srcs = []
        for (dbb, si, k, r) in f.defs().get(l, []):
            if k == 'assign' and r['k'] == 'discr':
                srcs += core.origins(f, r['p'][0])
            elif k in ('assign', 'call'):
                srcs += core.origins(f, l)
        loads = [o for o in srcs if o.kind == 'call' and o.data.name == 'load' and 'IndexTrait' in o.data.path]
        if srcs and len(loads) == len(srcs):
            gates.append(sw)
        else:
            foreign.append((sw, [o for o in srcs if o not in loads]))
    return gates, foreign


def x8(ctx, rid):
    """a record whose write future was dropped between the append and the index push lies in the blob file but in no index; its
    fate is settled at the next start.  In a running session an index is rebuilt from the blob file only because the index
    file could not be loaded: every in-session call of try_regenerate_index is decided by the Err of IndexTrait::load and
    nothing else (a consistency heuristic that triggers the rebuild would make the cancelled write appear later on).
    A call site without a decision of its own (a helper) is judged at the call sites of its function."""
    prog = ctx.prog
    n = 0

    def startup(root):
        return root.endswith('::from_file') or root.endswith('::try_regenerate_index')

    def judge(f, c, depth, seen):
        """None = fine, else (where, text)"""
        root0 = prog.fns[f.id].root
        sites0 = [s for s in core.call_sites_of(prog, root0) if s.bb in s.fn.reachable()]
        if sites0 and all(startup(prog.fns[s.fn.id].root) for s in sites0):
            return None     # a helper of the start-up path only (`regenerate_index_if_required` called from Blob::from_file)
        gates, foreign = _x8_gates(prog, f, c.bb)
        if foreign:
            return (f.where(foreign[0][0]), 'an in-session rebuild of the index from the blob file also depends on %s: a check that fails '
                    'on an unindexed tail makes the record of a cancelled write visible later in the session' % (foreign[0][1][:2] or 'another condition'))
        if gates:
            return None
        root = prog.fns[f.id].root
        all_sites = [s for s in core.call_sites_of(prog, root) if s.bb in s.fn.reachable()]
        sites = [s for s in all_sites if not startup(prog.fns[s.fn.id].root)]
        if all_sites and not sites:
            return None     # a helper of the start-up path only (`regenerate_index_if_required` called from Blob::from_file)
        if depth <= 0 or not sites or root in seen:
            return (c.where(), 'an in-session rebuild of the index from the blob file is not conditional on a failed IndexTrait::load: '
                    'records of cancelled writes (in the file, in no index) become visible in the running session')
        for s in sites:
            r = judge(s.fn, s, depth - 1, seen | {root})
            if r:
                return r
        return None

    for f in prog.fns.values():
        if f.file != 'src/blob/core.rs':
            continue
        root = prog.fns[f.id].root
        if startup(root):
            continue    # opening a blob at start-up: the next start is where cancelled writes are settled
        for c in f.calls:
            if c.bb not in f.reachable() or c.name != 'try_regenerate_index':
                continue
            n += 1
            key = 'rebuild-only-on-load-error|%s' % root
            r = judge(f, c, 2, frozenset())
            if r is None:
                ctx.ok(rid, key, c.where(), 'decided by the result of IndexTrait::load only')
            else:
                ctx.bad(rid, key, r[0], r[1])
    if n < 1:
        raise core.AnchorLost('in-session try_regenerate_index call sites: %d' % n)


def x9(ctx, rid):
    """C08.D8 instances: a dropped write future leaves a detached append closure; the next record must be stamped with the offset
    its own closure reserves, not with one read before"""
    import props.c08 as c08
    c08.d8(ctx, rid)


MUTATORS = ('replace', 'take', 'insert', 'push', 'push_back', 'clear', 'remove', 'pop', 'truncate', 'extend', 'get_or_insert_with', 'retain', 'swap', 'set', 'store', 'append', 'drain', 'resize')


def x10(ctx, rid):
    """a guarded record is never left half-updated by a dropped future: in a client-cancellable body, while one exclusive guard
    is held, two different fields of the guarded value are not written on the two sides of a real suspension point (a cache
    tag stored before the awaited read, the data after it: a future dropped at the read leaves a tag that vouches for stale or
    empty data, and every later lookup of that block is a `hit`)"""
    prog = ctx.prog
    cc, roots = client_cancellable(prog)
    n = 0
    pairs = 0
    for f in prog.fns.values():
        if not f.is_coroutine or (f.id not in cc and f.root not in cc):
            continue
        guards = {l for l, ty in enumerate(f.locals) if core.guard_class(ty) and core.guard_class(ty)[1] in ('W', 'U')}
        writes = []     # (bb, guard local / `&mut` local, field)
        for i, b in enumerate(f.blocks):
            if b['c'] or i not in f.reachable():
                continue
            for st in b['s']:
                if st['k'] != 'a' or not st['d'][1]:
                    continue
                root = core.access_root(f, st['d'][0])
                flds = [x for x in core.place_fields(st['d']) if x and not x.isdigit()]
                if root in guards and flds:
                    writes.append((i, root, flds[0]))
                elif flds and '*' in st['d'][1] and f.locals[st['d'][0]]['s'].startswith('&mut ') and ('::' in f.locals[st['d'][0]]['s']):
                    # the same through an exclusive reference (`&mut self` of an index / blob that the caller reached through a
                    # guard): `self.inner = ..` before the await, `self.filter = ..` after it
                    ogs = core.origins(f, st['d'][0])
                    if ogs and all(o.kind in ('agg', 'const') or (o.kind == 'call' and o.data.name in ('new', 'default', 'with_capacity')) for o in ogs):
                        continue    # a reference to an accumulator this body built itself (nothing shared is half-updated)
                    writes.append((i, st['d'][0], flds[0]))
        if not writes:
            continue
        for c in f.calls:
            if c.bb not in f.reachable() or c.name not in MUTATORS or not c.args or op_local(c.args[0]) is None:
                continue
            l = op_local(c.args[0])
            if not f.locals[l]['s'].startswith('&mut'):
                continue
            root = core.access_root(f, l)
            flds = [x for x in prims.field_of_receiver(f, c) if x and not x.isdigit()]
            if root in guards and flds:
                writes.append((c.bb, root, flds[0]))
        n += 1
        ry = core.real_yields(prog, f)
        for (b1, g1, f1) in writes:
            after = f.reach_from(f.after(b1))
            for (b2, g2, f2) in writes:
                if g1 != g2 or f1 == f2 or b2 not in after:
                    continue
                between = [y for y in ry if y in after and b2 in f.reach_from([y]) and y != b1]
                if between:
                    pairs += 1
                    ctx.bad(rid, 'guarded-update-not-split|%s|%s-%s' % (f.root, f1, f2), f.where(b1), 'field `%s` of a value held exclusively (guard / &mut) is written before a suspension point (%s) and field `%s` after it: a client that drops the future in between releases the guard with a half-updated value that later operations trust' % (f1, f.where(between[0]), f2))
    ctx.ok(rid, 'scan', '', '%d client-cancellable bodies write fields through an exclusive guard; %d field pairs split by a suspension point' % (n, pairs), nontrivial=False, queries=max(1, n))


def x11(ctx, rid):
    """an `in progress` count kept in shared state is not advanced before and taken back after a suspension point by plain
    statements of a client-cancellable body: a future dropped at the await never takes it back, and whoever waits for the
    count to reach zero (a dump, a close) waits for ever while holding the storage locks"""
    prog = ctx.prog
    cc, roots = client_cancellable(prog)
    n = 0
    bad = 0
    UP = ('fetch_add',)
    DOWN = ('fetch_sub',)
    for f in prog.fns.values():
        if not f.is_coroutine or (f.id not in cc and f.root not in cc):
            continue
        ups, downs = [], []
        for c in f.calls:
            if c.bb not in f.reachable() or not c.path.startswith('std::sync::atomic::Atomic') or c.name not in UP + DOWN:
                continue
            fld = prims.receiver_field(f, c)
            if not fld:
                continue
            (ups if c.name in UP else downs).append((c, fld))
        ry = core.real_yields(prog, f) if (ups and downs) else []
        for (u, fu) in ups:
            for (d, fd) in downs:
                if fu != fd or d.bb not in f.reach_from(f.after(u.bb)):
                    continue
                n += 1
                key = 'count-taken-back-by-guard|%s|%s' % (f.root, fu)
                between = [y for y in ry if y in f.reach_from(f.after(u.bb), avoid_exit=[d.bb]) and d.bb in f.reach_from([y])]
                if between:
                    bad += 1
                    ctx.bad(rid, key, u.where(), 'the shared counter `%s` is incremented here and decremented by a plain statement after a suspension point (%s): a client that drops the future in between leaves the count raised for ever, and every waiter for zero (index dump, close) hangs' % (fu, f.where(between[0])))
                else:
                    ctx.ok(rid, key, u.where(), 'no suspension point between increment and decrement', nontrivial=False)
    ctx.ok(rid, 'scan', '', '%d increment / decrement pairs on shared atomic counters in client-cancellable bodies, %d split by a suspension point' % (n, bad), nontrivial=False, queries=max(1, n))


_LAUNCH = {}


def _launches(prog, fid, depth):
    """`fid` is Observer::run (Created -> Running), or a non-async in-crate function that calls one (launch_observer, a helper
    around it)"""
    if fid.endswith('observer::Observer::<K>::run') or fid.endswith('observer::Observer::run'):
        return True
    if fid not in prog.fns or depth <= 0:
        return False
    _LAUNCH = prog.__dict__.setdefault('_launch_memo', {})      # per program
    if fid in _LAUNCH:
        return _LAUNCH[fid]
    _LAUNCH[fid] = False
    g = prog.body_of(fid)
    if g is not None and not g.is_coroutine:
        _LAUNCH[fid] = any(c.bb in g.reachable() and any(_launches(prog, t, depth - 1) for t in prog.resolve(c)) for c in g.calls)
    return _LAUNCH[fid]


def x12(ctx, rid):
    """an abandoned init can be repeated: Storage::init* moves the observer from Created to Running only after its last suspension
    point.  Launched earlier, a future dropped at any await of the initialisation (read_dir, opening or scanning a blob, an index
    dump ..) leaves a running worker on an uninitialised storage - and, together with a `second launch is an error` check, a
    storage object that can never be initialised again"""
    prog = ctx.prog
    n = 0
    for f in prog.fns.values():
        if f.file != 'src/storage/core.rs' or not f.is_coroutine:
            continue
        launches = [c for c in f.calls if c.bb in f.reachable() and any(_launches(prog, t, 3) for t in prog.resolve(c))]
        if not launches:
            continue
        n += 1
        key = 'observer-launched-after-last-await|%s' % prog.fns[f.id].root
        ry = core.real_yields(prog, f)
        late = [y for c in launches for y in ry if y in f.reach_from(f.after(c.bb))]
        if late:
            ctx.bad(rid, key, launches[0].where(), 'the observer is launched before a suspension point of the initialisation (%s): an init future dropped there leaves a running worker behind, and the storage object cannot be initialised again' % f.where(late[0]))
        else:
            ctx.ok(rid, key, launches[0].where(), 'no suspension point after the launch')
    if n < 1:
        raise core.AnchorLost('coroutines that launch the observer: %d' % n)


def x13(ctx, rid):
    """a reserved range is always written: in the body that reserves space in a blob file (`size.fetch_add`) every path from the
    reservation to a return reaches the OS write (directly or through a helper that attempts the write on each of its paths).
    An exit in between - the awaiting future is gone, a limit is hit - leaves a hole of unwritten bytes as soon as the next record
    is appended behind it: the running session does not notice, the file no longer parses, and the next start that has to scan it
    quarantines the blob with every acknowledged record in it"""
    prog = ctx.prog
    WRITES = ('write_all_at', 'write_at', 'pwrite', 'write_all', 'write')
    memo = {}

    def attempts(fid):
        """blocks of `fid` whose terminator is an attempt to write (an OS write or a call of a function that always attempts)"""
        f = prog.body_of(fid)
        ev = []
        if f is None:
            return ev
        for c in f.calls:
            if c.bb not in f.reachable():
                continue
            if c.name in WRITES and c.crate in ('std', 'core', 'nix', 'libc'):
                ev.append(c.bb)
                continue
            tg = [t for t in prog.resolve(c) if t in prog.fns]
            if tg and all(always(t) for t in tg):
                ev.append(c.bb)
        return ev

    def always(fid):
        if fid in memo:
            return memo[fid]
        memo[fid] = False
        f = prog.body_of(fid)
        if f is None or f.is_coroutine:
            return False
        ev = attempts(fid)
        reach = f.reach_from([0], avoid_exit=ev)
        rets = [i for i in reach if f.blocks[i]['t']['k'] == 'return' and i not in ev]
        memo[fid] = bool(ev) and not rets
        return memo[fid]
    n = 0

    def check_from(f, c, key, depth):
        """every path from the completion of `c` (a reservation, or a call of a helper that hands an unwritten reservation to its
        caller) to a return attempts the write; a helper that returns the reserved offset is followed into its callers"""
        ev = attempts(f.id)
        reach = f.reach_from(f.after(c.bb), avoid_exit=ev)
        rets = [i for i in reach if f.blocks[i]['t']['k'] == 'return' and i not in ev]
        if not rets:
            ctx.ok(rid, key, c.where(), 'every path from the reservation reaches one of %d write attempts' % len(ev))
            return
        sites = core.call_sites_of(prog, f.id) if (depth > 0 and not f.is_coroutine and f.kind != 'Closure') else []
        if not sites or ev:
            ctx.bad(rid, key, c.where(), 'a path from the reservation returns without attempting the write of the reserved range (%s): the next append leaves a hole the start-up scan cannot parse' % f.where(rets[0]))
            return
        for c2 in sites:
            check_from(c2.fn, c2, key, depth - 1)
    for f in prog.fns.values():
        if not f.file.startswith('src/io/'):
            continue
        for c in f.calls:
            if c.bb in f.reachable() and prims.is_reservation(prog, f, c):
                n += 1
                check_from(f, c, 'reserved-range-written|%s' % prog.fns[f.id].root, 2)
    if n < 2:
        raise core.AnchorLost('reservations of file space: %d' % n)


RULES = [
    Rule('C14.X1', 'reservation of a file offset and the OS write consuming it lie in non-coroutine bodies run by a blocking runner', x1, 4),
    Rule('C14.X2', 'no suspension point between the completed record append and its index push', x2, 2),
    Rule('C14.X3', 'in client-cancellable bodies no suspension point is reachable between a move-out of shared state and its hand-back', x3, 4),
    Rule('C14.X5', 'a blob is published in the active slot only once its index is in memory (C04.T1 instances)', x5, 7),
    Rule('C14.X6', 'a short (empty / cut) index file left by an interrupted dump is regenerated at the next start (C03.I10 instance)', x6, 1),
    Rule('C14.X7', 'no shared-collection registration is undone by a plain statement after a suspension point in a client-cancellable body', x7, 1),
    Rule('C14.X8', 'in a running session an index is rebuilt from the blob file only on the Err of loading the index file', x8, 1),
    Rule('C14.X9', 'every WritableDataCreator builds its result from the offset reserved inside the non-cancellable append closure (C08.D8 instances)', x9, 1),
    Rule('C14.X10', 'no two fields of a value held under one exclusive guard are written on the two sides of a suspension point in a client-cancellable body', x10, 1),
    Rule('C14.X11', 'no shared atomic counter is raised before and lowered after a suspension point by plain statements of a client-cancellable body', x11, 1),
    Rule('C14.X12', 'Storage::init launches the observer only after its last suspension point', x12, 1),
    Rule('C14.X13', 'every path from a space reservation to a return attempts the write of the reserved range', x13, 2),
    Rule('C14.X4', 'no RAII guard whose Drop undoes a counter reservation is live across a suspension point of a client-cancellable future', x4, 1),
]
