"""C16 Offline tools."""
import core
import prims
from core import op_local, op_const, Summ
from engine import Rule

EXPLANATION = (
    "W1 sibling agreement of the two record writers: the storage's writer patches blob_offset (and the header CRC) from the reserved "
    "offset; the tools' BlobWriter must, before serialising a record header, pass it through a function that stores blob_offset "
    "from the writer's own position (`written`) and recomputes the header checksum. W2: in process_blob_with every ok-return is "
    "preceded by validate_written_records ok, except through the false edge of a test originating in `validate_every != 0`. W3: "
    "the truncating create of the output is dominated by the `input != output` test and by a successful read of the input's blob "
    "header; move_and_recover_blob renames before it recovers. W4: the reader's header / record validation (C05.V1/V2 instances). "
    "W5: reader position bookkeeping - after each successful read from the input file the `position` field is advanced before any "
    "exit (ok or error), so that the skip logic measures from the real cursor. W6: the writer's output file is opened with "
    "truncate(true) (it writes from offset 0). W7: index validation tool loads through validate_header (hash) - "
    "get_records_headers. Decides these structures, not which records survive which damage.")
EXPLANATION += (" " + 'W10 is_eof is computed from the fields position and len alone (leaf analysis through helpers and arithmetic).')
ASSUMPTIONS = []


def w1(ctx, rid):
    prog = ctx.prog
    f = prog.fns.get('tools::blob_writer::BlobWriter::write_record')
    if f is None:
        raise core.AnchorLost('BlobWriter::write_record')
    key = 'writer-stamps-offset|tools::blob_writer::BlobWriter::write_record'
    # functions that store into record::Header.blob_offset
    setters = set()
    for (g, bb, o, how) in core.field_sources(prog, 'record::record::Header', 'blob_offset'):
        if how != 'construct':
            setters.add(prog.fns[g.id].root)
    def is_hdr_ser(c):
        return c.path == 'bincode::serialize_into' and c.f.get('args') and 'record::record::Header' in c.f['args'][1]
    sers = [c for c in f.calls if is_hdr_ser(c)]
    via_helper = False
    if not sers:
        # the three writes (header, meta, data) may have been extracted into a helper that is handed the stamped record
        sers = [c for c in f.calls if c.bb in f.reachable() and any(t in prog.fns and prog.fns[t].file == f.file and t != f.id and any(is_hdr_ser(x) for x in prog.fns[t].calls) for t in prog.resolve(c))]
        via_helper = bool(sers)
    if not sers:
        raise core.AnchorLost('header serialisation in write_record')
    stamps = []
    for c in f.calls:
        if any(t in setters for t in prog.resolve(c)):
            # the offset argument originates in the writer's `written` position
            for a in c.args[1:]:
                ogs = core.origins(f, a, stop_fields=True)
                if any(o.kind == 'field' and o.data[1] == 'written' for o in ogs):
                    stamps.append(c)
    if not stamps:
        ctx.bad(rid, key, sers[0].where(), 'the tools\' record writer serialises the header with the blob_offset it had in the source blob: after one skipped record every later record points at the wrong bytes (the storage writer patches the offset at reservation time)')
        return
    okb = [core.ok_block(f, c) or core.completion_block(f, c) for c in stamps]
    reach = f.reach_from([0], avoid_enter=[x for x in okb if x is not None])
    if any(s.bb in reach for s in sers):
        ctx.bad(rid, key, sers[0].where(), 'the header can be serialised on a path that did not stamp the writer position into blob_offset')
        return
    # the stamped header is the one serialised
    good = False
    for c in stamps:
        carry = core.flows_forward(f, c.dest[0], transparent=core.fwd_transparent)
        # stored back into record.header, then &record.header serialised: accept flow through the field
        for s in sers:
            for a in (s.args if via_helper else s.args[1:2]):
                ogs = core.origins(f, a, stop_fields=False)
                if any(o.kind == 'call' and o.data.bb == c.bb for o in ogs):
                    good = True
    # the setter recomputes the checksum
    crc_ok = False
    L, E = prog.may_reach()
    for c in stamps:
        for t in prog.resolve(c):
            if t in prog.fns and any('update_checksum' in x or 'crc32' in x for x in [t] + sorted(L.get(t, ()))):
                crc_ok = True
    fresh = [c for c in f.calls if c.bb in f.reachable() and c.name in ('new', 'default') and (c.path.startswith('record::record::Header') or any(t.startswith('record::record::Header::') or t.startswith('<record::record::Header as') for t in prog.resolve(c)))]
    if fresh:
        ctx.bad(rid, key, fresh[0].where(), 'the tools\' record writer builds a fresh record header (`%s`) instead of re-stamping the one that was read: fields that are not passed on (the deletion flag) are lost - after recovery deletion markers are live empty records and deleted keys reappear' % fresh[0].name)
    elif good and crc_ok:
        ctx.ok(rid, key, stamps[0].where(), 'blob_offset = writer position and header CRC recomputed before the header is serialised')
    elif not crc_ok:
        ctx.bad(rid, key, stamps[0].where(), 'blob_offset is stamped but the header checksum is not recomputed: the written header fails validation')
    else:
        ctx.bad(rid, key, stamps[0].where(), 'the stamped header is not the one that is serialised')


def w2(ctx, rid):
    prog = ctx.prog
    f = prog.fns.get('tools::utils::process_blob_with')
    if f is None:
        raise core.AnchorLost('process_blob_with')
    key = 'revalidate-when-requested|tools::utils::process_blob_with'
    SV = Summ(prog, lambda c: c.name == 'validate_written_records')
    okb = SV.events(f)
    vals = [c for c in f.calls if c.name == 'validate_written_records' or any(t in prog.fns and t != f.id and SV.must(t) for t in prog.resolve(c))]
    # false edges of switches on the `validate_every != 0` flag
    false_edges = []
    flag_locals = set()
    for i, b in enumerate(f.blocks):
        if b['c']:
            continue
        for s in b['s']:
            if s['k'] == 'a' and s['r']['k'] == 'bin' and s['r']['op'] == 'Ne':
                ka, kb = op_const(s['r']['a']), op_const(s['r']['b'])
                zero = (ka and ka.get('int') == 0) or (kb and kb.get('int') == 0)
                other = s['r']['a'] if (kb and kb.get('int') == 0) else s['r']['b']
                ogs = core.origins(f, other)
                if zero and any(o.kind == 'arg' and f.debug_name(o.data) == 'validate_every' for o in ogs):
                    flag_locals |= core.flows_forward(f, s['d'][0])
    for j in f.reachable():
        t = f.blocks[j]['t']
        if t['k'] == 'switch' and op_local(t['o']) in flag_locals:
            for v, tg in t['vals']:
                if v == 0:
                    false_edges.append(tg)
    writes = [c for c in f.calls if c.name == 'write_record']
    exits = [bb for (bb, k, _) in core.exit_defs(f) if k in ('ok', 'fwd', 'val') and bb in f.reachable()]
    if not vals or not writes or not flag_locals:
        ctx.bad(rid, key, f.where(), 'the recovery copy loop has no re-validation of what it wrote (calls: %d, flag found: %s)' % (len(vals), bool(flag_locals)))
        return
    starts = [w.t['t'] for w in writes if w.t['t'] is not None]
    reach = f.reach_from(starts, avoid_enter=okb + false_edges)
    # also when no record was written at all the final validation is passed or excused
    reach0 = f.reach_from([0], avoid_enter=okb + false_edges)
    if any(e in reach for e in exits):
        ctx.bad(rid, key, writes[0].where(), 'after records were written an ok-return is reachable without validate_written_records although validation was requested',
                witness=['bb%d %s' % (b, f.where(b)) for b in (f.path(starts, exits, avoid_enter=okb + false_edges) or [])])
    else:
        ctx.ok(rid, key, vals[-1].where(), 'every ok-return after a write passes validate_written_records ok or the `validate_every == 0` edge')


def w3(ctx, rid):
    prog = ctx.prog
    f = prog.fns.get('tools::utils::process_blob_with')
    key = 'no-self-truncation|tools::utils::process_blob_with'
    creates = [c for c in f.calls if any(t == 'tools::blob_writer::BlobWriter::from_path' for t in prog.resolve(c))]
    if not creates:
        raise core.AnchorLost('BlobWriter::from_path call')
    # input != output test: a PartialEq::eq/ne call on as_ref() of both params with an err edge
    eqs = [c for c in f.calls if c.name in ('eq', 'ne') and 'Path' in c.full]
    guard = []
    for c in eqs:
        carry = core.flows_forward(f, c.dest[0])
        for j in f.reachable():
            t = f.blocks[j]['t']
            if t['k'] == 'switch' and op_local(t['o']) in carry:
                tg = [x for _, x in t['vals']] + [t['otherwise']]
                for x in tg:
                    reach = f.reach_from([x])
                    kinds = [k for (bb, k, _) in core.exit_defs(f) if bb in reach]
                    if kinds and all(k == 'err' for k in kinds):
                        guard += [y for y in tg if y != x]
    hdr = [c for c in f.calls if c.name == 'read_header' and 'BlobReader' in c.path]
    hok = [core.ok_block(f, c) for c in hdr]
    hok = [x for x in hok if x is not None]
    bad = None
    for c in creates:
        if not guard or c.bb in f.reach_from([0], avoid_enter=guard):
            bad = 'the output file is created (truncated) on a path that did not pass the `input != output` test: recovering a blob into itself destroys it'
        elif not hok or c.bb in f.reach_from([0], avoid_enter=hok):
            bad = 'the output file is created before the input\'s blob header was read successfully'
    if bad:
        ctx.bad(rid, key, creates[0].where(), bad)
    else:
        ctx.ok(rid, key, creates[0].where(), 'output created only after `input != output` and a successful read of the input header')
    m = prog.fns.get('tools::utils::move_and_recover_blob')
    if m is None:
        raise core.AnchorLost('move_and_recover_blob')
    key = 'rename-before-recover|tools::utils::move_and_recover_blob'
    ren = [c for c in m.calls if prims.is_raw(c, prims.RAW_RENAME)]
    rec = [c for c in m.calls if any(t == 'tools::utils::recovery_blob' for t in prog.resolve(c))]
    rok = [core.ok_block(m, c) for c in ren]
    rok = [x for x in rok if x is not None]
    if ren and rec and rok and all(r.bb not in m.reach_from([0], avoid_enter=rok) for r in rec):
        # the recovery reads from the backup and writes to the original path
        a_in = core.origins(m, rec[0].args[0])
        a_out = core.origins(m, rec[0].args[1])
        in_is_backup = any(o.kind == 'arg' and o.data == 2 for o in a_in)
        out_is_orig = any(o.kind == 'arg' and o.data == 1 for o in a_out)
        if in_is_backup and out_is_orig:
            ctx.ok(rid, key, ren[0].where(), 'invalid blob renamed to the backup path first; recovery reads the backup and writes the original path')
        else:
            ctx.bad(rid, key, rec[0].where(), 'recovery after the move does not read the backup / write the original path')
    else:
        ctx.bad(rid, key, m.where(), 'the in-place recovery does not move the damaged blob away (rename ok) before writing the output')


def w4(ctx, rid):
    import props.c05 as c05
    prog = ctx.prog
    S = Summ(prog, lambda c: c05.AUDIT in prog.resolve(c))
    t = 'tools::blob_reader::BlobReader::read_single_record'
    f = prog.fns.get(t)
    if f is None:
        raise core.AnchorLost(t)
    if S.must(t):
        ctx.ok(rid, 'reader-audits-data|' + t, f.where(), 'ok-return preceded by the data checksum audit')
    else:
        ctx.bad(rid, 'reader-audits-data|' + t, f.where(), 'the tools reader hands out a record whose data checksum was not audited')
    S2 = Summ(prog, lambda c: c05.HVALID in prog.resolve(c))
    if S2.must(t):
        ctx.ok(rid, 'reader-validates-header|' + t, f.where(), 'ok-return preceded by header validation')
    else:
        ctx.bad(rid, 'reader-validates-header|' + t, f.where(), 'the tools reader accepts a record header without validation')
    # blob header: magic validated
    t2 = 'tools::blob_reader::BlobReader::read_header'
    S3 = Summ(prog, lambda c: c.name == 'validate_without_version')
    f2 = prog.fns.get(t2)
    if f2 is None:
        raise core.AnchorLost(t2)
    if S3.must(t2):
        ctx.ok(rid, 'reader-validates-blob-header|' + t2, f2.where(), 'blob header magic validated')
    else:
        ctx.bad(rid, 'reader-validates-blob-header|' + t2, f2.where(), 'the tools reader accepts a blob header without validation')


def w5(ctx, rid):
    prog = ctx.prog
    n = 0
    for f in prog.fns.values():
        if f.file != 'src/tools/blob_reader.rs' or f.root != f.id:
            continue
        reads = [c for c in f.calls if (c.decl_crate == 'bincode' and c.name == 'deserialize_from') or (c.name in ('read_exact', 'read') and 'File' in (c.self_ty or {}).get('s', ''))]
        if not reads:
            continue
        pos_stores = []
        for i, b in enumerate(f.blocks):
            if b['c']:
                continue
            for s in b['s']:
                if s['k'] == 'a' and core.place_fields(s['d'])[-1:] == ['position']:
                    pos_stores.append(i)
        for c in reads:
            n += 1
            key = 'position-follows-cursor|%s|%s' % (f.id, c.name)
            ob = core.ok_block(f, c)
            if ob is None:
                ctx.bad(rid, key, c.where(), 'result of a file read is not checked')
                continue
            # the error edge of a pure size computation (bincode::serialized_size of a value just decoded) is not a real exit
            infeasible = [core.err_block(f, x) for x in f.calls if x.name == 'serialized_size' and x.decl_crate == 'bincode']
            infeasible = [x for x in infeasible if x is not None]
            reach = f.reach_from([ob], avoid_exit=pos_stores, avoid_enter=infeasible)
            exits = [bb for (bb, k, _) in core.exit_defs(f) if bb in reach and bb not in pos_stores]
            # an exit reached without advancing the position (ok or err)
            if ob in pos_stores:
                exits = []
            if exits:
                ctx.bad(rid, key, c.where(), 'after a successful read from the input file an exit is reachable before `position` is advanced: the skip logic then seeks relative to a stale position and lands inside the next record',
                        witness=['bb%d %s' % (b, f.where(b)) for b in (f.path([ob], exits, avoid_exit=pos_stores, avoid_enter=infeasible) or [])])
            else:
                ctx.ok(rid, key, c.where(), '`position` advanced before any exit')
    if n < 2:
        raise core.AnchorLost('reader read sites: %d' % n)


def w6(ctx, rid):
    prog = ctx.prog
    f = prog.fns.get('tools::blob_writer::BlobWriter::from_path')
    if f is None:
        raise core.AnchorLost('BlobWriter::from_path')
    key = 'output-opened-truncating|tools::blob_writer::BlobWriter::from_path'
    opens = [c for c in f.calls if c.name == 'open' and 'OpenOptions' in c.path]
    tr = [c for c in f.calls if prims.is_raw(c, prims.RAW_TRUNCATE_OPT) and len(c.args) > 1 and core.const_int(prog, op_const(c.args[1])) == 1]
    if not opens:
        raise core.AnchorLost('OpenOptions::open in BlobWriter::from_path')
    ok = False
    for o in opens:
        ogs = core.origins(f, o.args[0])
        # the builder chain: open(receiver) <- truncate(..) <- create(..) ...
        chain = set()
        work = [o.args[0]]
        seen = 0
        while work and seen < 20:
            seen += 1
            a = work.pop()
            for og in core.origins(f, a):
                if og.kind == 'call' and 'OpenOptions' in og.data.path:
                    chain.add(og.data.bb)
                    if og.data.args:
                        work.append(og.data.args[0])
        if any(t.bb in chain for t in tr):
            ok = True
    if ok:
        ctx.ok(rid, key, opens[0].where(), 'create(true).truncate(true): an existing longer output cannot leave a stale tail')
    else:
        ctx.bad(rid, key, opens[0].where(), 'the tools\' output blob is opened without truncate(true): writing starts at offset 0 of an existing longer file and its stale tail stays behind the recovered records')


def w7(ctx, rid):
    prog = ctx.prog
    f = prog.body_of('tools::utils::index_from_file')
    if f is None:
        raise core.AnchorLost('tools::utils::index_from_file')
    key = 'index-tool-loads-through-hash-check'
    if any(c.name == 'get_records_headers' for c in f.calls):
        ctx.ok(rid, key, f.where(), 'index headers are read through get_records_headers (validate + hash, C03.I3)')
    else:
        ctx.bad(rid, key, f.where(), 'the index-reading tool does not load through the validating loader')
    r = prog.body_of('tools::utils::read_index')
    if r is None:
        raise core.AnchorLost('read_index')
    if any(c.name == 'validate' and 'record::record::Header' in c.path for c in r.calls):
        ctx.ok(rid, 'index-tool-validates-headers', r.where(), 'every header read from the index is validated')
    else:
        ctx.bad(rid, 'index-tool-validates-headers', r.where(), 'read_index no longer validates the record headers it reports')


def w8(ctx, rid):
    """the skip after a bad record header measures from the reader's own cursor plus the sizes in the header; it never trusts an
    offset stored in the header that just failed validation"""
    prog = ctx.prog
    f = prog.fns.get('tools::blob_reader::BlobReader::skip_wrong_record_data')
    if f is None:
        raise core.AnchorLost('skip_wrong_record_data')
    key = 'skip-from-own-cursor'
    seeks = [c for c in f.calls if c.name == 'seek']
    if not seeks:
        raise core.AnchorLost('seek in skip_wrong_record_data')
    bad = None
    good = False
    for c in seeks:
        ogs = core.origins(f, c.args[1], stop_fields=True)
        deep = list(ogs)
        for _ in range(4):
            more = []
            for o in deep:
                if o.kind == 'agg':
                    for x in o.data['ops']:
                        more += core.origins(f, x, stop_fields=True)
                if o.kind == 'call' and o.data.name in ('checked_add', 'and_then', 'ok_or_else', 'saturating_add', 'wrapping_add') and o.data.args:
                    for a in o.data.args:
                        more += core.origins(f, a, stop_fields=True)
                if o.kind == 'binop':
                    for x in (o.data['a'], o.data['b']):
                        more += core.origins(f, x, stop_fields=True)
            new = [m for m in more if m.key() not in {d.key() for d in deep}]
            if not new:
                break
            deep += new
        fam_calls = [x for fid in prog.family(f.id) for x in prog.fns[fid].calls]
        untrusted = [x for x in fam_calls if x.name in ('data_offset', 'meta_offset', 'blob_offset') and 'record::record::Header' in x.path]
        if untrusted:
            bad = untrusted[0]
        if any(o.kind == 'field' and o.data[1] == 'position' for o in deep):
            good = True
    if bad:
        ctx.bad(rid, key, bad.where(), 'the skip target is computed from `%s` of the header that failed validation: a damaged blob_offset field sends the reader to garbage and every later intact record is dropped' % bad.name)
    elif good:
        ctx.ok(rid, key, seeks[0].where(), 'skip target = own position + sizes')
    else:
        ctx.bad(rid, key, seeks[0].where(), 'the skip target does not derive from the reader\'s own position')


def w9(ctx, rid):
    """migration hands the *source* version to both preprocessors: the version argument originates in the header as read from
    the input, not in the already converted header"""
    prog = ctx.prog
    f = prog.fns.get('tools::utils::process_blob_with')
    if f is None:
        raise core.AnchorLost('process_blob_with')
    pre = [c for c in f.calls if c.name in ('call', 'call_once', 'call_mut') and (c.self_ty or {}).get('h') in ('param', '&')]
    n = 0
    conv_results = set()
    for c in pre:
        if 'BlobHeader' in f.locals[c.dest[0]]['s'] or 'blob::header::Header' in f.locals[c.dest[0]]['s']:
            conv_results |= core.flows_forward(f, c.dest[0], transparent=core.fwd_transparent)
    fam = [prog.fns[x] for x in prog.family(f.id)]
    for g in fam:
        for c in g.calls:
            if c.name not in ('call', 'call_once', 'call_mut') or (c.self_ty or {}).get('h') not in ('param', '&'):
                continue
            # the (args) tuple: last element is the version
            n += 1
            key = 'source-version|%s|%d' % (g.id, n)
            ogs = core.origins_ip(prog, g, c.args[1], depth=0, stop_fields=True) if len(c.args) > 1 else []
            deep = list(ogs)
            for o in ogs:
                if o.kind == 'agg' and o.data.get('ak') == 'tuple' and o.data['ops']:
                    deep += core.origins_ip(prog, o.fn, o.data['ops'][-1], depth=0, stop_fields=True)
            # the same walk without stopping at fields: which header value does `x.version` belong to
            plain = core.origins_ip(prog, g, c.args[1], depth=0) if len(c.args) > 1 else []
            for o in list(plain):
                if o.kind == 'agg' and o.data.get('ak') == 'tuple' and o.data['ops']:
                    plain += core.origins_ip(prog, o.fn, o.data['ops'][-1], depth=0)
            deep = deep + plain
            from_conv = [o for o in deep if o.kind == 'call' and o.fn.id == f.id and o.data.dest[0] in conv_results and o.data.name in ('call', 'call_once', 'call_mut')]
            from_read = [o for o in deep if (o.kind == 'call' and o.data.name == 'read_header') or (o.kind == 'field' and o.data[1] == 'version')]
            if from_conv:
                ctx.bad(rid, key, c.where(), 'the version handed to the record preprocessor comes from the already converted header: records are `migrated` from the target version to itself and keep their old layout under a new header')
            elif from_read:
                ctx.ok(rid, key, c.where(), 'version argument originates in the header read from the input')
            else:
                ctx.ok(rid, key, c.where(), 'version argument not derived from the converted header', nontrivial=False)
    if n < 2:
        raise core.AnchorLost('preprocessor calls: %d' % n)


def w10(ctx, rid):
    """the tools reader reports end of input only when the cursor reached the file length: is_eof is computed from `position`
    and `len` alone (no slack such as a minimal record size).  A tail shorter than a record that is swallowed as "end of file"
    makes the tool succeed on a cut input and silently drop its last record instead of reporting / skipping it."""
    prog = ctx.prog
    n = 0
    for f in prog.fns.values():
        if not f.file.startswith('src/tools/') or not f.id.endswith('::is_eof'):
            continue
        n += 1
        key = 'eof-is-position-vs-len|%s' % f.id
        lv = core.scalar_leaves(prog, f, 0)
        fields = {x[1] for x in lv if x[0] == 'field'}
        extra = {x for x in lv if x[0] != 'field' and not (x[0] == 'const' and x[1] in (0, '0', 1, '1'))}
        if fields == {'position', 'len'} and not extra:
            ctx.ok(rid, key, f.where(), 'is_eof is a function of position and len only')
        else:
            ctx.bad(rid, key, f.where(), 'is_eof depends on %s besides position / len: a short tail is taken for the end of the file and the cut record is dropped without a report' % sorted((fields - {'position', 'len'}) | {str(x) for x in extra}))
    if n < 1:
        raise core.AnchorLost('tools reader is_eof: %d' % n)


def w11(ctx, rid):
    """a validation tool that is generic over the key type accepts every index the storage can produce for that key type: it
    loads the index with its own type parameter, not through the fixed table of key sizes (4..128) of the untyped reader"""
    prog = ctx.prog
    n = 0
    L, E = prog.may_reach()
    # the untyped readers: functions that instantiate the index loader for several concrete key types
    dispatch = set()
    for f in prog.fns.values():
        if not f.file.startswith('src/tools/'):
            continue
        tys = set()
        for c in f.calls:
            m = [a for a in core.generic_apps(c.full) if 'ArrayKey' in a[0]] if 'ArrayKey<' in c.full else []
            if 'ArrayKey<' in c.full:
                import re
                tys |= set(re.findall(r'ArrayKey<(\d+)>', c.full))
        if len(tys) >= 3:
            dispatch.add(prog.fns[f.id].root)
    for f in prog.fns.values():
        if not f.file.startswith('src/tools/') or f.id != prog.fns[f.id].root or not f.is_pub:
            continue
        params = {pn for (pn, t) in f.bounds if t.endswith('::Key') or t.endswith('Key<\'a>') or 'storage::key::Key' in t}
        if not params:
            continue
        fam = prog.family(f.id)
        loads = [c for g in fam for c in prog.fns[g].calls if c.name == 'from_file' and 'FileIndex' in c.full]
        reach = set()
        for g in fam:
            reach |= set(L.get(g, ()))
        uses_dispatch = sorted(d for d in dispatch if d in reach or any(prog.fns[x].root == d for x in reach))
        if not loads and not uses_dispatch:
            continue
        n += 1
        key = 'typed-tool-loads-typed|%s' % f.id
        typed = [c for c in loads if any(('<%s>' % p) in c.full or ('<%s,' % p) in c.full for p in params)]
        if uses_dispatch:
            ctx.bad(rid, key, f.where(), 'the tool is generic over the key type but reads the index through `%s`, which only knows a fixed set of key sizes: a well-formed index written with another key length is rejected' % uses_dispatch[0].split('::')[-1])
        elif typed:
            ctx.ok(rid, key, typed[0].where(), 'loads the index as BPTreeFileIndex<%s>' % sorted(params)[0])
        else:
            ctx.bad(rid, key, f.where(), 'the tool is generic over the key type but does not load the index with that type')
    if n < 1:
        raise core.AnchorLost('key-generic index tools: %d' % n)


def w12(ctx, rid):
    """"the index-reading tools report exactly the headers present": a record count is never the number of entries of a map keyed
    by key (BTreeMap<key, Vec<header>>::len() counts distinct keys) - every `records` / `records_count` field of the tools'
    collectors is fed per header or from the index header"""
    prog = ctx.prog
    n = 0
    for adt, a in prog.adts.items():
        if not adt.startswith('tools::'):
            continue
        for v in a['variants']:
            for fl in v['fields']:
                if fl['name'] not in ('records', 'records_count', 'records_readed', 'count'):
                    continue
                for (f, bb, o, how) in core.field_sources(prog, adt, fl['name']):
                    n += 1
                    key = 'count-not-map-len|%s.%s|%s' % (adt.split('::')[-1], fl['name'], prog.fns[f.id].root)
                    ogs = core.origins(f, o) if o is not None else []
                    maplen = [x for x in ogs if x.kind == 'call' and x.data.name == 'len' and ('BTreeMap' in x.data.path or 'HashMap' in x.data.path or 'btree' in x.data.path)]
                    if maplen:
                        ctx.bad(rid, key, maplen[0].data.where(), 'a record count of the tools is taken from the number of entries of a map keyed by key: keys with several records (versions, a write plus its deletion) are counted once')
                    else:
                        ctx.ok(rid, key, f.where(bb), 'not a map length', nontrivial=False)
    if n < 2:
        raise core.AnchorLost('record-count fields of the tools: %d' % n)


def w13(ctx, rid):
    """the tools read blobs of every format version they can migrate from: the shared header reader of src/tools validates with
    validate_without_version, never with the strict Header::validate (which rejects every version but the current one - migration
    0 -> 1 and recovery of old blobs would fail at the first step)"""
    prog = ctx.prog
    n = 0
    bad = 0
    for f in prog.fns.values():
        if not f.file.startswith('src/tools/'):
            continue
        for c in f.calls:
            if c.bb not in f.reachable() or 'blob::header::Header' not in c.path:
                continue
            if c.name in ('validate', 'validate_without_version'):
                n += 1
                if c.name == 'validate':
                    bad += 1
                    ctx.bad(rid, 'tools-accept-old-versions|%s' % prog.fns[f.id].root, c.where(), 'a tool validates a blob header with the strict Header::validate: blobs of an older format version - the input of migration and of recovery - are rejected')
    if n < 1:
        raise core.AnchorLost('blob header validation in src/tools: %d' % n)
    if not bad:
        ctx.ok(rid, 'tools-accept-old-versions|scan', '', '%d blob header validations in the tools, all version-tolerant' % n, queries=n)


def w15(ctx, rid):
    """a tool run that reports success has produced an output blob: recovery of any input - also one without a single intact
    record - leaves a blob that validates (header written), and in-place recovery does not end with the original path missing.
    Decided with must-summaries, so the creation may live in a helper."""
    prog = ctx.prog
    f = prog.fns.get('tools::utils::process_blob_with')
    if f is None:
        raise core.AnchorLost('process_blob_with')
    key2 = 'output-always-produced|tools::utils::process_blob_with'
    S1 = core.Summ(prog, lambda c: any(t == 'tools::blob_writer::BlobWriter::from_path' for t in prog.resolve(c)))
    S2 = core.Summ(prog, lambda c: c.name == 'write_header' and 'BlobWriter' in c.path)
    if not [c for g in prog.fns.values() if g.file.startswith('src/tools/') for c in g.calls if S1.pred(c)] or \
       not [c for g in prog.fns.values() if g.file.startswith('src/tools/') for c in g.calls if S2.pred(c)]:
        raise core.AnchorLost('BlobWriter::from_path / write_header calls in src/tools')
    oks = [bb for (bb, k, _) in core.exit_defs(f) if k in ('ok', 'fwd')]
    if not oks:
        raise core.AnchorLost('ok return of process_blob_with')
    missing = [n for (n, S) in (('BlobWriter::from_path', S1), ('BlobWriter::write_header', S2)) if not S.must(f.id)]
    if missing:
        around = f.reach_from([0], avoid_enter=set(S1.events(f)) if 'BlobWriter::from_path' in missing else set(S2.events(f)))
        hit = [bb for bb in oks if bb in around]
        ctx.bad(rid, key2, f.where(hit[0] if hit else None), 'process_blob_with can return Ok without a completed %s: '
                'recovery / migration of such an input reports success and leaves no (valid) output' % ' / '.join(missing))
    else:
        ctx.ok(rid, key2, f.where(), 'all %d ok return(s) pass a successful BlobWriter::from_path and write_header' % len(oks))


def w16(ctx, rid):
    """the index tools load a file with a byte-wise key type chosen from the stored key size; its order need not be the order the
    storage's key type sorted the leaves in.  The sequential loader therefore groups headers by a lookup of the key; it never
    takes the map's last / first entry for `the previous header's key` (with a different order a second version of a key
    would replace the versions collected so far and the tools would report fewer headers than the blob holds)"""
    prog = ctx.prog
    roots = [f for f in prog.fns.values() if f.id == prog.fns[f.id].root and f.id.endswith('::get_records_headers') and f.file.startswith('src/blob/index/bptree/')]
    if not roots:
        raise core.AnchorLost('bptree get_records_headers')
    POS = ('last_entry', 'first_entry', 'last_key_value', 'first_key_value', 'pop_last', 'pop_first', 'last', 'first', 'last_mut', 'next_back')
    for r in roots:
        key = 'loader-groups-by-key|%s' % r.id
        calls = [c for g in prog.family(r.id) for c in prog.fns[g].calls if c.bb in prog.fns[g].reachable()]
        maps = [c for c in calls if 'BTreeMap' in c.full or 'btree_map' in c.full or 'btree::map' in c.full]
        bykey = [c for c in maps if c.name in ('get_mut', 'entry', 'insert', 'get')]
        if not bykey:
            raise core.AnchorLost('by-key map access in %s' % r.id)
        pos = [c for c in maps if c.name in POS]
        if pos:
            ctx.bad(rid, key, pos[0].where(), 'the sequential loader looks at a position of the map (`%s`) instead of looking the key up: with a key type '
                    'whose order differs from the order the leaves were written in, versions of a key are dropped' % pos[0].name)
        else:
            ctx.ok(rid, key, bykey[0].where(), 'headers grouped by key lookup (%s); no positional map access' % sorted({c.name for c in bykey}))


def w17(ctx, rid):
    """`accept every blob the storage produces` includes the blob without a record (a fresh or just rotated active blob, the
    output of recovering a blob whose first record is damaged): every tool loop asks is_eof() before *each* read_record - the
    read is reached from the function entry and from the previous read only through the `not at the end` edge of is_eof()"""
    prog = ctx.prog
    n = 0
    for f in prog.fns.values():
        if not f.file.startswith('src/tools/') or f.file == 'src/tools/blob_reader.rs':
            continue
        reads = [c for c in f.calls if c.bb in f.reachable() and c.name == 'read_record' and 'BlobReader' in c.path]
        if not reads:
            continue
        more = []
        for i in f.reachable():
            t = f.blocks[i]['t']
            if t['k'] != 'switch':
                continue
            ogs = core.origins(f, t['o'])
            neg = False
            if ogs and all(o.kind == 'unop' and o.data.get('op') == 'Not' for o in ogs):
                neg = True
                ogs = [x for o in ogs for x in core.origins(f, o.data['o'])]
            if not ogs or not all(o.kind == 'call' and o.data.name == 'is_eof' for o in ogs):
                continue
            if neg:
                more.append(t['otherwise'])
            else:
                more += [tg for v, tg in t['vals'] if v == 0]
        for c in reads:
            n += 1
            key = 'eof-asked-before-every-read|%s' % prog.fns[f.id].root
            starts = [0] + [x for r in reads for x in f.after(r.bb)]
            if not more or c.bb in f.reach_from(starts, avoid_enter=more):
                ctx.bad(rid, key, c.where(), 'a record is read without asking is_eof() first (from the function entry or right after the previous record): '
                        'a blob that holds only its header - which the storage produces - is rejected / a read runs past the last record')
            else:
                ctx.ok(rid, key, c.where(), 'reached only through the `more data` edge of is_eof()')
    if n < 3:
        raise core.AnchorLost('read_record loops in src/tools: %d' % n)


def w18(ctx, rid):
    """`and after an isolated damaged record when skipping is requested`: in read_record every record-level validation error
    (RecordHeaderValidation, RecordValidation) leads on to the next record; from the match edge of such a variant the only
    ways out are the skip (whose own failure may end the read) and the next read - never a return of the original error, also
    not behind a further condition on the damaged header"""
    prog = ctx.prog
    f = prog.fns.get('tools::blob_reader::BlobReader::read_record')
    adt = prog.adts.get('tools::error::ToolsError')
    if f is None or adt is None:
        raise core.AnchorLost('BlobReader::read_record / ToolsError')
    names = [v['name'] for v in adt['variants']]
    n = 0
    for i in sorted(f.reachable()):
        if f.blocks[i]['t']['k'] != 'switch':
            continue
        kind, ty = core.switch_kind(f, i)
        if kind != 'enum' or 'ToolsError' not in str(ty):
            continue
        t = f.blocks[i]['t']
        vals = dict(t['vals'])
        for nm in ('RecordHeaderValidation', 'RecordValidation'):
            if nm not in names:
                continue
            n += 1
            key = 'record-error-continues|%s' % nm
            edge = vals.get(names.index(nm), t['otherwise'])
            skips = [c.bb for c in f.calls if c.name == 'skip_wrong_record_data' and c.bb in f.reachable()]
            nxt = [c.bb for c in f.calls if c.name == 'read_single_record' and c.bb in f.reachable()]
            free = f.reach_from([edge], avoid_exit=skips + nxt)
            outs = [bb for (bb, k, _) in core.exit_defs(f) if bb in free]
            if outs:
                ctx.bad(rid, key, f.where(outs[0]), 'with skipping requested, a %s error can end read_record with the original error (no skip, no next read on that path): '
                        'recovery stops at the damaged record and drops every intact record behind it' % nm)
            else:
                ctx.ok(rid, key, f.where(edge), 'leads to the skip / the next read on every path')
    if n < 2:
        raise core.AnchorLost('ToolsError match arms in read_record: %d' % n)


def w19(ctx, rid):
    """the blob header of the output is derived from the blob header of the input: every header preprocessor handed to
    process_blob_with (identity for recovery, version conversion for migration) builds its result from the header it is given.
    A freshly constructed header stamps a version-0 blob as current while its records keep the old key layout - the recovered
    blob validates but the storage serves no record under its real key"""
    prog = ctx.prog
    n = 0
    for f in prog.fns.values():
        if not f.file.startswith('src/tools/'):
            continue
        for c in f.calls:
            if c.bb not in f.reachable() or not any(t == 'tools::utils::process_blob_with' for t in prog.resolve(c)):
                continue
            for a in c.args:
                l = op_local(a)
                h, hp = None, 2
                if l is not None and f.locals[l].get('h') == 'closure':
                    h = prog.fns.get(f.locals[l]['a'][0])
                elif l is not None and f.locals[l].get('h') == 'fndef' and f.locals[l].get('a'):
                    h, hp = prog.fns.get(f.locals[l]['a'][0]), 1     # a named function handed over instead of a closure
                else:
                    k = core.op_const(a)
                    if k and 'fn' in k:
                        h, hp = prog.fns.get(k['fn'].get('res') or k['fn'].get('path')), 1
                if h is None or len(h.locals) <= hp or 'Header' not in h.locals[hp]['s']:
                    continue    # the record preprocessor
                n += 1
                key = 'output-header-from-input-header|%s' % prog.fns[f.id].root
                carry = core.flows_forward(h, hp, transparent=lambda x: tuple(range(len(x.args))))
                if 0 in carry:
                    ctx.ok(rid, key, h.where(), 'the result is built from the header that was read')
                else:
                    ctx.bad(rid, key, h.where(), 'the header written to the output is not derived from the header read from the input (a fresh header): '
                            'version and flags of the input are lost, an old-version blob is stamped current while its records keep the old layout')
    if n < 2:
        raise core.AnchorLost('header preprocessors handed to process_blob_with: %d' % n)


def w14(ctx, rid):
    """the output writer re-validates exactly what it wrote since the last round: whenever records leave its cache (clear, drain,
    take ..) the byte counter of the cached records is reset in the same function - otherwise the next round seeks to the
    wrong start position, the comparison fails and recovery / migration aborts with an incomplete output"""
    prog = ctx.prog
    n = 0
    for f in prog.fns.values():
        if f.file != 'src/tools/blob_writer.rs':
            continue
        fam_calls = [c for g in prog.family(prog.fns[f.id].root) for c in prog.fns[g].calls]
        for c in f.calls:
            if c.bb not in f.reachable() or c.name not in ('clear', 'drain', 'truncate', 'pop', 'remove', 'take', 'split_off'):
                continue
            flds = prims.field_of_receiver(f, c)
            ty = f.locals[op_local(c.args[0])]['s'] if c.args and op_local(c.args[0]) is not None else ''
            if 'cache' not in flds and 'record::record::Record' not in ty:
                continue
            n += 1
            root = prog.fns[f.id].root
            key = 'cache-and-counter-move-together|%s' % root
            resets = False
            for g in prog.family(root):
                for b in prog.fns[g].blocks:
                    for st in b['s']:
                        if st['k'] == 'a' and core.place_fields(st['d'])[-1:] == ['written_cached']:
                            resets = True
            if resets:
                ctx.ok(rid, key, c.where(), 'written_cached is reset where the cache is emptied')
            else:
                ctx.bad(rid, key, c.where(), 'records leave the writer\'s cache (`%s`) without written_cached being reset: the next validation round starts reading at the wrong position and fails on intact output' % c.name)
    if n < 1:
        raise core.AnchorLost('cache-emptying calls in BlobWriter: %d' % n)


def w20(ctx, rid):
    """`reject corrupted ones`: the metadata section is not covered by a checksum, its only check is that it decodes.  Meta::from_raw
    therefore answers with what the deserializer produced and never with a freshly built map (a `nothing to decode` fast path
    accepts every damaged 8-byte section of a record without attributes)"""
    prog = ctx.prog
    f = prog.fns.get('record::record::Meta::from_raw')
    if f is None:
        raise core.AnchorLost('Meta::from_raw')
    key = 'meta-is-what-was-decoded|record::record::Meta::from_raw'
    fresh = [c for g in prog.family(f.id) for c in prog.fns[g].calls if c.bb in prog.fns[g].reachable() and c.name in ('new', 'default')
             and (c.path.startswith('record::record::Meta') or any('record::record::Meta' in t for t in prog.resolve(c)))]
    des = [c for g in prog.family(f.id) for c in prog.fns[g].calls if c.bb in prog.fns[g].reachable() and c.crate == 'bincode' and c.name.startswith('deserialize')]
    if not des:
        ctx.bad(rid, key, f.where(), 'Meta::from_raw does not decode its input')
    elif fresh:
        ctx.bad(rid, key, fresh[0].where(), 'Meta::from_raw can answer with a freshly built map (`%s`) without decoding the bytes: a damaged metadata section is accepted by the validation tools and copied as intact by recovery' % fresh[0].name)
    else:
        ctx.ok(rid, key, des[0].where(), 'every answer is the result of the deserializer')


def w21(ctx, rid):
    """`migration preserves every record`: a record header is built from scratch (record::Header::new, flags = 0) only where a new
    record is created.  Code that transforms an existing header (key reversal of the v0 -> v1 migration, re-stamping in the
    tools writer) keeps the value and patches fields - a rebuilt header loses the deletion flag, and deleted keys come back as
    live empty records"""
    prog = ctx.prog
    n = 0
    for f in prog.fns.values():
        if '/tests' in f.file or '::tests::' in f.id:
            continue
        for c in f.calls:
            if c.bb not in f.reachable() or c.name != 'new' or not any(t == 'record::record::Header::new' for t in prog.resolve(c)):
                continue
            n += 1
            root = prog.fns[prog.fns[f.id].root]
            key = 'header-built-only-for-new-records|%s' % root.id
            takes_header = any('record::record::Header' in l['s'] for l in root.locals[1:root.argc + 1]) or (root.j.get('impl_self') or {}).get('h') == 'record::record::Header' and root.argc >= 1 and root.locals[1]['s'].lstrip('&mut ').startswith('record::record::Header')
            if takes_header:
                ctx.bad(rid, key, c.where(), '`%s` receives a record header and builds a fresh one with Header::new: fields that are not passed on (the flags with the deletion bit) are lost' % root.id.split('::')[-1])
            else:
                ctx.ok(rid, key, c.where(), 'a new record is created here')
    if n < 1:
        raise core.AnchorLost('calls of record::Header::new: %d' % n)


def w22(ctx, rid):
    """a tool run that reports success has written its whole output: the tools writer hands every byte to the file before the
    driver returns Ok.  If the writer buffers (BufWriter and the like), every Ok return of process_blob_with passes a successful
    flush - the flush in Drop swallows I/O errors, and a failed tail write would leave a cut output behind a reported success"""
    prog = ctx.prog
    adt = prog.adts.get('tools::blob_writer::BlobWriter')
    if adt is None:
        raise core.AnchorLost('BlobWriter')
    ftys = [fl['ty']['s'] for v in adt['variants'] for fl in v['fields']]
    buffered = [t for t in ftys if 'BufWriter' in t or 'LineWriter' in t]
    key = 'output-written-through|tools::blob_writer::BlobWriter'
    f = prog.fns.get('tools::utils::process_blob_with')
    if f is None:
        raise core.AnchorLost('process_blob_with')
    if not buffered:
        ctx.ok(rid, key, '', 'the writer holds the plain file (%s): every write is a write to the file' % [t for t in ftys if 'File' in t][:1])
        return
    S = core.Summ(prog, lambda c: c.name in ('flush', 'into_inner', 'sync_all', 'sync_data') and ('BufWriter' in c.full or 'Write' in (c.trait or '') or 'File' in c.path))
    ev = set(S.events(f))
    writes = [c for c in f.calls if c.bb in f.reachable() and c.name in ('write_record', 'write_header') and 'BlobWriter' in c.path]
    exits = [bb for (bb, k, _) in core.exit_defs(f) if k in ('ok', 'fwd') and bb in f.reachable()]
    starts = [x for c in writes for x in f.after(c.bb)]
    unflushed = [e for e in exits if e in f.reach_from(starts, avoid_enter=ev)]
    if writes and not unflushed:
        ctx.ok(rid, key, f.where(), 'buffered writer, flushed after the last write on every Ok path of the driver')
    else:
        ctx.bad(rid, key, f.where(), 'the tools writer buffers its output (%s) and the driver can return Ok without a successful flush: the tail of the output is written in Drop, where a write error is ignored - recovery / migration report success on a cut output' % buffered[0])


def w23(ctx, rid):
    """the offline reader skips the data of a record only after a HEADER validation failure: `skip_wrong_record_data` consumes the
    header remembered by that failure.  Reached for another error kind (a payload checksum mismatch: the record is already
    consumed, nothing is remembered) it fails with `wrong header not found`, the copy loop stops, and everything behind the
    damaged record - deletion markers of unrelated keys included - is silently left out of the recovered blob"""
    prog = ctx.prog
    adt = prog.adts.get('tools::error::ToolsError')
    if adt is None:
        raise core.AnchorLost('tools::error::ToolsError')
    names = [v['name'] for v in adt['variants']]
    if 'RecordHeaderValidation' not in names:
        raise core.AnchorLost('ToolsError::RecordHeaderValidation')
    want = names.index('RecordHeaderValidation')
    n = 0
    for f in prog.fns.values():
        if not f.file.startswith('src/tools/') or '::tests::' in f.id:
            continue
        for c in f.calls:
            if c.bb not in f.reachable() or c.name != 'skip_wrong_record_data':
                continue
            n += 1
            key = 'skip-only-after-header-failure|%s' % prog.fns[f.id].root
            wrong = []
            decided = 0
            for sw in core.deciding_switches(f, c.bb):
                t = f.blocks[sw]['t']
                ogs = core.origins(f, t['o'])
                if not any(o.kind == 'discr' and (core.place_type_str(o.fn, o.data['p']) or '').replace('&', '').replace('mut ', '').strip() == 'tools::error::ToolsError' for o in ogs):
                    continue
                decided += 1
                edges = [(v, tg) for v, tg in t['vals']] + [(None, t['otherwise'])]
                for v, tg in edges:
                    if f.blocks[tg]['t']['k'] == 'unreachable':
                        continue
                    if c.bb in f.reach_from([tg], avoid_enter=[sw]) and v != want:
                        wrong.append(names[v] if isinstance(v, int) and v < len(names) else 'any other kind')
            if wrong:
                ctx.bad(rid, key, c.where(), 'the data-skip of the offline reader is also reached for the error kind `%s`: no header was remembered for it, the skip fails and the rest of the blob is dropped from the recovery' % wrong[0])
            else:
                ctx.ok(rid, key, c.where(), 'reached only on the RecordHeaderValidation edge (%d deciding matches on the error kind)' % decided)
    if n < 1:
        raise core.AnchorLost('calls of skip_wrong_record_data: %d' % n)


def w24(ctx, rid):
    """C13.L26 instance: after a clean close every index file describes its whole blob - the tools accept what the storage
    produced and report every header of the blob"""
    import props.c13 as c13
    c13.l26(ctx, rid)


def w25(ctx, rid):
    """migration preserves every record: `migrate_blob` reports success only after the copy pipeline ran - every ok return is
    preceded by an ok `process_blob_with` (no shortcut `already at the target version => Ok` that produces no output blob)"""
    prog = ctx.prog
    f = prog.fns.get('tools::migration::migrate_blob')
    if f is None:
        raise core.AnchorLost('tools::migration::migrate_blob')
    S = core.Summ(prog, lambda c: c.name == 'process_blob_with')
    key = 'migration-runs-the-copy|tools::migration::migrate_blob'
    if S.must('tools::migration::migrate_blob'):
        ctx.ok(rid, key, f.where(), 'every ok return follows an ok process_blob_with')
    else:
        ctx.bad(rid, key, f.where(), 'migrate_blob can return Ok without having run the copy pipeline: no output blob is produced and a directory-wise migration silently loses every record of that blob')


RULES = [
    Rule('C16.W23', 'the offline reader skips record data only after a header validation failure', w23, 1),
    Rule('C16.W24', 'after a clean close the index file of every closed blob is current (C13.L26 instance)', w24, 1),
    Rule('C16.W25', 'migrate_blob reports success only after the copy pipeline ran', w25, 1),
    Rule('C16.W1', 'the tools\' record writer stamps its own position into blob_offset (and recomputes the header CRC) before serialising a header', w1, 1),
    Rule('C16.W2', 'the recovered output is re-validated whenever validation was requested', w2, 1),
    Rule('C16.W3', 'the tools never truncate their own input: input != output and header read precede the create; in-place recovery renames first', w3, 2),
    Rule('C16.W4', 'the tools reader validates blob header, record header and data checksum before handing out a record', w4, 3),
    Rule('C16.W5', 'the tools reader advances `position` after every successful read before any exit', w5, 2),
    Rule('C16.W6', 'the tools\' output blob is opened truncating', w6, 1),
    Rule('C16.W8', 'the skip after a bad header never trusts offsets stored in that header', w8, 1),
    Rule('C16.W9', 'migration passes the source version (as read) to both preprocessors', w9, 2),
    Rule('C16.W10', 'the tools reader reports end of input only at position >= len (bare fields)', w10, 1),
    Rule('C16.W11', 'a key-generic validation tool loads the index with its own key type, not through the fixed key-size table', w11, 1),
    Rule('C16.W12', 'record counts reported by the tools are never the entry count of a key-indexed map', w12, 2),
    Rule('C16.W13', 'the tools validate blob headers version-tolerantly (no strict Header::validate in src/tools)', w13, 1),
    Rule('C16.W14', 'the output writer resets its cached-bytes counter wherever records leave its cache', w14, 1),
    Rule('C16.W15', 'every ok return of the recovery / migration driver passes the creation of the output and the write of its header', w15, 1),
    Rule('C16.W16', 'the sequential index loader groups headers by key lookup, never by map position (tools load with a byte-wise key order)', w16, 1),
    Rule('C16.W17', 'every tool loop asks is_eof() before each read_record (a header-only blob is a valid blob)', w17, 3),
    Rule('C16.W18', 'with skipping requested a record-level validation error always leads on to the next record', w18, 2),
    Rule('C16.W19', 'every header preprocessor of recovery / migration builds the output header from the input header', w19, 2),
    Rule('C16.W20', 'Meta::from_raw answers only with what the deserializer produced', w20, 1),
    Rule('C16.W21', 'a record header is built from scratch only where a new record is created', w21, 1),
    Rule('C16.W22', 'a buffering tools writer is flushed before the driver reports success', w22, 1),
    Rule('C16.W7', 'the index tools load through the validating loader and validate every reported header', w7, 2),
]
