"""C04 Representation transparency: index typestate across the blob lifecycle."""
import core
import prims
import moveout
import blobs
from core import op_local, op_place, op_const
from engine import Rule

EXPLANATION = (
    "Typestate of the per-blob index (InMemory accepts pushes, OnDisk rejects them) checked on the MIR: T1 every value stored into "
    "Safe.active_blob is certified InMemory by provenance - the result of the certified constructor Blob::open_new, a blob on which "
    "load_index() returned ok, or the last element of the closed list popped after load_index() ok on that last element; T2 every "
    "index push / record append through &mut Blob is dominated by an InMemory-establishing event (false edge of on_disk(), ok "
    "load_index(), clear(), Index::new) or its receiver is the active-blob slot; T3 Blob::dump is never applied to the blob sitting "
    "in the active slot; T4 a blob in transit between the active slot and the closed list stays covered by the exclusive storage "
    "guard until it is handed back; T5 every transition of an existing index to InMemory re-initialises its filter (an off-loaded "
    "bloom buffer must not survive into a state that accepts adds). Decides this lifecycle discipline, not that query answers are "
    "unchanged across every interleaving.")
EXPLANATION += (" " + 'T7 an assignment into the active slot is dominated (body or every caller) by an emptiness test of that slot / a take(), or happens under &mut Storage; T8 after take/replace/pop of a blob every non-error exit passes a hand-back (None edges carry nothing; close(self) exempt); T9 the (headers, count) results of get_records_headers take the count from header.records_count.')
EXPLANATION += (" " + 'T10 no `<[u8] as Ord>` comparison in the index code (keys are compared through K / K::Ref); T11 = C02.U6.')
EXPLANATION += (" " + "T12 is a small abstract interpretation: the domain is 'multiple of record_header_size relative to an aligned base'; the cursor, the unit, products with the unit as a factor, sums and differences of aligned values, zero and parameters are aligned, everything else (a block size, a buffer length, a min()) is not. Every value assigned to the leaf cursor of go_right / go_right_file / go_left and the position handed to the file walk must be aligned.")
ASSUMPTIONS = ["State::InMemory / State::OnDisk are the only index states (read from the ADT table)"]

OPEN_NEW = 'blob::core::Blob::<K>::open_new'
LOAD_INDEX = 'blob::core::Blob::<K>::load_index'


def certified_ctor(prog):
    """Blob::open_new builds its index with Index::new (InMemory) on every ok path"""
    b = prog.body_of(OPEN_NEW)
    if b is None:
        raise core.AnchorLost(OPEN_NEW)
    # the Blob aggregate's index operand originates in IndexStruct::new (through create_index)
    for i, blk in enumerate(b.blocks):
        if blk['c']:
            continue
        for s in blk['s']:
            if s['k'] == 'a' and s['r']['k'] == 'agg' and s['r'].get('adt') == 'blob::core::Blob':
                idx = s['r']['ops'][s['r']['fields'].index('index')]
                ogs = core.origins_deep(prog, b, idx, depth=2)
                ctor = [o for o in ogs if o.kind == 'call' and o.data.target.endswith('IndexStruct::<FileIndex, K>::new')]
                other = [o for o in ogs if o.kind == 'call' and 'from_file' in o.data.target]
                return bool(ctor) and not other
    return False


def index_new_is_inmemory(prog):
    f = prog.fns.get('blob::index::core::IndexStruct::<FileIndex, K>::new')
    if f is None:
        raise core.AnchorLost('IndexStruct::new')
    for blk in f.blocks:
        for s in blk['s']:
            if s['k'] == 'a' and s['r']['k'] == 'agg' and s['r'].get('adt') == 'blob::index::core::IndexStruct':
                o = s['r']['ops'][s['r']['fields'].index('inner')]
                ogs = core.origins(f, o)
                return any(og.kind == 'agg' and og.data.get('variant') == 'InMemory' for og in ogs) and not any(og.kind == 'agg' and og.data.get('variant') == 'OnDisk' for og in ogs)
    return False


def opaque_takers(c):
    # do not look through take/replace/pop: they are the interesting origins here
    return None


def origins_blob(prog, f, operand):
    """origins of a blob value, keeping take/replace/pop/open_new/... as terminal calls"""
    def extra(c):
        if c.name in ('new',) and any(c.path.startswith(o) for o in core.TRANSPARENT_NEW_OWNERS):
            return 0
        return None
    ogs = core.origins_ip(prog, f, operand, depth=2)
    # origins() treats take/replace as transparent: redo with them opaque
    saved = {k: core.TRANSPARENT_CALLS.pop(k) for k in ('take', 'replace', 'map') if k in core.TRANSPARENT_CALLS}
    try:
        ogs = core.origins_ip(prog, f, operand, depth=2)
    finally:
        core.TRANSPARENT_CALLS.update(saved)
    return ogs


def t1(ctx, rid):
    prog = ctx.prog
    if not index_new_is_inmemory(prog):
        ctx.bad(rid, 'ctor|IndexStruct::new', '', 'IndexStruct::new does not build State::InMemory')
    else:
        ctx.ok(rid, 'ctor|IndexStruct::new', prog.fns['blob::index::core::IndexStruct::<FileIndex, K>::new'].where(), 'Index::new builds State::InMemory')
    if not certified_ctor(prog):
        ctx.bad(rid, 'ctor|Blob::open_new', '', 'Blob::open_new is not a certified constructor (its index does not originate in Index::new)')
    else:
        ctx.ok(rid, 'ctor|Blob::open_new', prog.fns[OPEN_NEW].where(), 'open_new builds its index with Index::new')
    n = 0
    sources = list(core.field_sources(prog, 'storage::core::Safe', 'active_blob'))
    # method-based stores: Option::insert / replace / get_or_insert on the slot
    for g in prog.fns.values():
        for c in g.calls:
            if c.name in ('insert', 'replace', 'get_or_insert') and c.path.startswith('std::option::Option') and prims.receiver_field(g, c) == 'active_blob' and len(c.args) > 1 and c.bb in g.reachable():
                sources.append((g, c.bb, c.args[1], 'store:method:' + c.name))
    for (f, bb, o, how) in sources:
        root = prog.fns[f.id].root
        if how == 'construct':
            k = core.op_const(o)
            ogs = core.origins(f, o) if o is not None else []
            if all(og.kind == 'agg' and og.data.get('variant') == 'None' for og in ogs):
                ctx.ok(rid, 'store|%s|None' % root, f.where(bb), 'constructed empty', nontrivial=False)
                n += 1
                continue
        if o is None:
            # store by call result, e.g. `safe.active_blob = active_blob.map(..)`: find the call
            c = f.call_at(bb)
            if c is None:
                ctx.bad(rid, 'store|%s' % root, f.where(bb), 'opaque store into the active-blob slot')
                continue
            ogs = origins_blob(prog, f, c.args[0]) if c.args else []
        else:
            ogs = origins_blob(prog, f, o)
        n += 1
        key = 'store|%s' % root
        bad = None
        detail = []
        seen_helpers = set()
        for og in ogs:
            if og.kind == 'agg' and og.data.get('variant') == 'None':
                continue
            if og.kind == 'const':
                continue
            if og.kind == 'call':
                c = og.data
                tg = prog.resolve(c)
                if OPEN_NEW in tg or blobs.is_fresh_call(prog, c):
                    detail.append('open_new' if OPEN_NEW in tg else 'fresh blob via %s' % c.name)
                    continue
                if c.name in ('map', 'map_or') and c.path.startswith('std::option::Option'):
                    # Option<Blob>::map(|ab| Box::new(RwLock::new(ab))): look at the receiver
                    sub = origins_blob(prog, og.fn, c.args[0])
                    ogs.extend(sub)
                    continue
                if 'storage::core::Storage::<K>::pop_active' in tg:
                    # certified by must-summary: load_index ok on every ok path of pop_active, on the returned value
                    S = core.Summ(prog, lambda x: LOAD_INDEX in prog.resolve(x))
                    if S.must('storage::core::Storage::<K>::pop_active'):
                        detail.append('pop_active(load_index ok)')
                        continue
                    bad = 'pop_active does not load the index on every ok path'
                    break
                if c.name == 'pop' and 'HierarchicalFilters' in c.path:
                    # the popped last element was loaded: ok edge of load_index on iter_mut().last()/last_mut() of the same guard dominates
                    g = og.fn
                    loads = [x for x in g.calls if LOAD_INDEX in prog.resolve(x)]
                    okb = [core.ok_block(g, x) for x in loads]
                    okb = [x for x in okb if x is not None]
                    same_list = False
                    for x in loads:
                        ro = core.origins(g, x.args[0])
                        more = []
                        for r in ro:
                            if r.kind == 'call' and r.data.name == 'last' and r.data.args:
                                more += core.origins(g, r.data.args[0])
                        pop_root = core.access_root(g, op_local(c.args[0])) if c.args and op_local(c.args[0]) is not None else None
                        for r in ro + more:
                            if r.kind == 'call' and r.data.name in ('iter_mut', 'last_mut', 'get_child_mut') and 'HierarchicalFilters' in r.data.path:
                                # the very guard the blob is popped through: a list locked, loaded, unlocked and locked again may have
                                # been dumped (index back on disk) in between
                                it_root = core.access_root(g, op_local(r.data.args[0])) if r.data.args and op_local(r.data.args[0]) is not None else None
                                if it_root is not None and it_root == pop_root:
                                    same_list = True
                    # paths on which the list was empty (None edge of last()) carry no blob
                    none_e = []
                    for x in loads:
                        for r in core.origins(g, x.args[0]):
                            pass
                    if okb and same_list and c.bb not in g.reach_from([0], avoid_enter=okb + empty_list_edges(g)):
                        detail.append('pop after load_index ok on the last element')
                        continue
                    bad = 'a blob popped from the closed list is installed as active without its index having been loaded under the same list guard (it may be on disk: every later write appends bytes and then fails with "Index is closed")'
                    break
                if c.name in ('take', 'replace') and prims.receiver_field(og.fn, c) == 'active_blob':
                    detail.append('previous active blob')
                    continue
                # a selection helper of this file that returns the blob (`select_active_blob`): judge what it returns
                helper = [t for t in tg if t in prog.fns and prog.fns[t].file == og.fn.file and 'Blob<' in prog.fns[t].locals[0]['s']
                          and t != OPEN_NEW and 'pop_active' not in t]
                hb = prog.body_of(helper[0]) if len(helper) == 1 else None
                if hb is not None and ('expanded', hb.id) not in seen_helpers and 'Blob<' in hb.locals[0]['s']:
                    seen_helpers.add(('expanded', hb.id))
                    for (xb, xk, xp) in core.exit_defs(hb):
                        if xb not in hb.reachable() or xk == 'err':
                            continue    # the error of a `?` is not a blob
                        if isinstance(xp, dict) and xp.get('k') == 'agg' and xp.get('ops'):
                            ogs.extend(origins_blob(prog, hb, xp['ops'][0]))
                        elif isinstance(xp, dict) and xp.get('k') == 'use':
                            ogs.extend(origins_blob(prog, hb, xp['o']))
                        elif not isinstance(xp, dict):
                            ogs.append(core.Origin('call', hb, xb, xp))
                    detail.append('via %s' % helper[0].rsplit('::', 1)[-1])
                    continue
                # any other producer: certified when load_index() returned ok on this very value before it is stored
                g = og.fn
                carry = core.flows_forward(g, c.dest[0], transparent=core.fwd_transparent)
                loads = [x for x in g.calls if LOAD_INDEX in prog.resolve(x) and x.args and op_local(x.args[0]) in carry]
                lok = [core.ok_block(g, x) for x in loads]
                lok = [x for x in lok if x is not None]
                if g.id == f.id and lok and bb not in f.reach_from([c.t['t']] if c.t['t'] is not None else [0], avoid_enter=lok):
                    detail.append('load_index ok on the value before the store')
                    continue
                bad = 'origin %r is not certified InMemory' % og
                break
            elif og.kind == 'arg':
                # parameter: blob handed in by the caller (replace_active_blob): callers checked at depth 2 by origins_ip; unresolved here
                bad = 'parameter `_%s` of %s with callers that could not be traced' % (og.data, og.fn.id)
                break
            elif og.kind == 'field':
                continue
            else:
                bad = 'origin %r' % og
                break
        if bad:
            ctx.bad(rid, key, f.where(bb), 'store into the active-blob slot: ' + bad)
        else:
            ctx.ok(rid, key, f.where(bb), 'every origin certified InMemory: %s' % sorted(set(detail)))
    if n < 5:
        raise core.AnchorLost('stores into Safe.active_blob: %d' % n)


def empty_list_edges(g):
    """None edges of tests on the result of iter_mut().last() / last_mut(): no last element => nothing will be popped"""
    out = []
    for i in g.reachable():
        t = g.blocks[i]['t']
        if t['k'] != 'switch':
            continue
        l = op_local(t['o'])
        for (bb, si, kind, r) in g.defs().get(l, []):
            if kind == 'assign' and r['k'] == 'discr':
                ogs = core.origins(g, {'c': r['p']})
                if any(o.kind == 'call' and o.data.name in ('last', 'last_mut') for o in ogs):
                    hit = False
                    for v, tg in t['vals']:
                        if v == 0:
                            out.append(tg)
                            hit = True
                    if not hit and all(v == 1 for v, _ in t['vals']):
                        out.append(t['otherwise'])
    return out


def inmemory_events(prog, f):
    """blocks whose entry establishes `index is InMemory` for the blob/index the body works on"""
    ev = []
    for c in f.calls:
        tg = prog.resolve(c)
        if LOAD_INDEX in tg or any(t.endswith('IndexTrait<K>>::load') for t in tg):
            ob = core.ok_block(f, c)
            if ob is not None:
                ev.append(ob)
        if any(t.endswith('IndexStruct::<FileIndex, K>::clear') for t in tg):
            ev.append(c.t['t'])
        if any(t.endswith('IndexStruct::<FileIndex, K>::on_disk') for t in tg):
            # false edge of every switch fed by this call
            carry = core.flows_forward(f, c.dest[0])
            for i in f.reachable():
                t = f.blocks[i]['t']
                if t['k'] == 'switch' and op_local(t['o']) in carry:
                    for v, tgt in t['vals']:
                        if v == 0:
                            ev.append(tgt)
    return [e for e in ev if e is not None]


def t2(ctx, rid):
    prog = ctx.prog
    n = 0

    def need_inmemory_sites():
        out = []
        for f in prog.fns.values():
            for c in f.calls:
                tg = prog.resolve(c)
                if any(t.endswith('IndexTrait<K>>::push') for t in tg) or c.path == 'blob::index::IndexTrait::push':
                    out.append((f, c, 'push'))
        return out

    def check_up(f, bb, depth, seen):
        ev = inmemory_events(prog, f)
        if bb not in f.reach_from([0], avoid_enter=ev):
            return True, 'established in %s' % prog.fns[f.id].root
        # receiver is the active-blob slot?
        target = f.parent if (f.is_coroutine and f.parent in prog.fns) else f.id
        if depth == 0 or target in seen:
            return False, 'depth limit at %s' % target
        cs = [c for c in core.call_sites_of(prog, target) if c.name != 'poll']
        if not cs and prog.fns[target].kind == 'Closure' and not prog.fns[target].is_coroutine:
            # a closure handed to an iterator adaptor / combinator: it runs where it was built (or later in the same body)
            sites = core.closure_construction_sites(prog, target)
            if sites:
                for (par, pbb, r) in sites:
                    ok, why = check_up(par, pbb, depth - 1, seen | {target})
                    if not ok:
                        return False, 'via closure built at %s: %s' % (par.where(pbb), why)
                return True, 'the body that builds the closure establishes InMemory'
        if not cs:
            if not prog.fns[target].is_pub:
                return True, '%s is crate-private and has no caller in this build' % target
            return False, '%s has no callers' % target
        for c in cs:
            # the blob argument comes from the active slot => T1 certifies it
            recv = c.args[0] if c.args else None
            if recv is not None:
                ogs = core.origins(c.fn, recv, stop_fields=True)
                if any(o.kind == 'field' and o.data[1] == 'active_blob' for o in ogs):
                    continue
                if any(o.kind == 'call' and o.data.name in ('read_active_blob',) for o in ogs):
                    continue
            ok, why = check_up(c.fn, c.bb, depth - 1, seen | {target})
            if not ok:
                return False, 'via %s: %s' % (c.where(), why)
        return True, 'every caller establishes InMemory or passes the active blob (T1)'

    for (f, c, what) in need_inmemory_sites():
        if prog.fns[f.id].root.endswith('IndexTrait<K>>::push_deletion'):
            # forwards to push on the same index: its own callers are the sites
            pass
        n += 1
        key = 'inmemory-before-push|%s' % prog.fns[f.id].root
        ok, why = check_up(f, c.bb, 6, set())
        if ok:
            ctx.ok(rid, key, c.where(), why)
        else:
            ctx.bad(rid, key, c.where(), 'an index push is reachable while the index may be on disk (%s): the record is appended to the file but the push fails and the operation is lost in-session' % why)
    if n < 3:
        raise core.AnchorLost('index push sites: %d' % n)


def t3(ctx, rid):
    prog = ctx.prog
    n = 0
    for f in prog.fns.values():
        for c in f.calls:
            if 'blob::core::Blob::<K>::dump' not in prog.resolve(c) or c.name == 'poll':
                continue
            n += 1
            key = 'dump-receiver|%s' % prog.fns[f.id].root
            saved = {k: core.TRANSPARENT_CALLS.pop(k) for k in ('take', 'replace') if k in core.TRANSPARENT_CALLS}
            try:
                ogs = core.origins(f, c.args[0], stop_fields=True)
            finally:
                core.TRANSPARENT_CALLS.update(saved)
            via_slot = [o for o in ogs if o.kind == 'field' and o.data[1] == 'active_blob']
            taken = [o for o in ogs if o.kind == 'call' and o.data.name in ('take', 'replace')]
            if via_slot and not taken:
                ctx.bad(rid, key, c.where(), 'Blob::dump applied to the blob that still sits in the active slot: its index goes on disk and every following write fails')
            else:
                ctx.ok(rid, key, c.where(), 'receiver: %s' % ('taken out of the active slot' if taken else 'closed list / not yet published vector'))
    if n < 3:
        raise core.AnchorLost('Blob::dump call sites: %d' % n)


def t4(ctx, rid):
    prog = ctx.prog
    n = 0
    for (f, c, what) in moveout.moveouts(prog):
        if what not in ('active_blob', 'closed-list'):
            continue
        n += 1
        key = 'in-transit-under-exclusive-guard|%s|%s' % (what, prog.fns[f.id].root)
        IN, at, guards = core.held_guards(f)
        excl = {g for g, gc in guards.items() if gc[2] == 'storage::core::Safe' and gc[1] == 'W'}
        rootf = prog.fns[prog.fns[f.id].root]
        by_type = rootf.argc >= 1 and (rootf.locals[1]['s'].startswith('&mut storage::core::Safe<') or rootf.locals[1]['s'].startswith('storage::core::Storage<'))
        carry = core.flows_forward(f, c.dest[0], transparent=core.fwd_transparent)
        sinks = moveout.sink_blocks(prog, f, carry)
        start = c.t['t']
        region = f.reach_from([start], avoid_exit=sinks) if start is not None else set()
        if by_type:
            ctx.ok(rid, key, c.where(), 'exclusive by type: the body holds &mut Safe / owns the Storage')
            continue
        if not (excl & set(at(c.bb))):
            ctx.bad(rid, key, c.where(), 'a blob is moved out of shared state without the exclusive storage guard being held: readers can observe it in neither place')
            continue
        # the guard stays live on every block until a sink (or an exit of the function)
        lost = [b for b in region if not (excl & set(at(b))) and b not in sinks and f.blocks[b]['t']['k'] not in ('return',) and not is_exit_tail(f, b)]
        if lost and sinks:
            ctx.bad(rid, key, f.where(lost[0]), 'the exclusive storage guard is released while the blob is in transit (before it is handed back): concurrent queries answer NotFound for its keys')
        else:
            ctx.ok(rid, key, c.where(), 'storage write guard live from the move-out to the hand-back')
    if n < 3:
        raise core.AnchorLost('in-transit sites: %d' % n)


def is_exit_tail(f, b):
    """block lies on the scope-exit drop chain (only drops/gotos until return)"""
    seen = set()
    cur = b
    for _ in range(40):
        t = f.blocks[cur]['t']
        if t['k'] == 'return':
            return True
        if t['k'] not in ('drop', 'goto') or cur in seen:
            return False
        seen.add(cur)
        if any(s['k'] == 'a' for s in f.blocks[cur]['s'] if not (s['k'] == 'a' and s['d'][0] == 0)):
            pass
        cur = t['t']
    return False


def t5(ctx, rid):
    prog = ctx.prog
    n = 0
    for (f, bb, o, how) in core.field_sources(prog, 'blob::index::core::IndexStruct', 'inner'):
        if how == 'construct':
            continue
        ogs = core.origins(f, o) if o is not None else []
        if not any(og.kind == 'agg' and og.data.get('variant') == 'InMemory' for og in ogs):
            continue
        n += 1
        key = 'filter-reinit-on-inmemory|%s' % prog.fns[f.id].root
        # on every path from this store to an ok exit, the filter is re-initialised (assignment to .filter or clear_filter())
        reinit = set()
        for i, b in enumerate(f.blocks):
            if b['c']:
                continue
            for s in b['s']:
                if s['k'] == 'a':
                    names = core.place_fields(s['d'])
                    if names and names[-1] == 'filter':
                        reinit.add(i)
        for c in f.calls:
            if c.name == 'clear_filter' and prims.receiver_field(f, c) == 'filter':
                reinit.add(c.bb)
        exits = [e for (e, k, _) in core.exit_defs(f) if k in ('ok', 'fwd', 'val') and e in f.reachable()]
        reach = f.reach_from([bb], avoid_exit=reinit)
        if bb in reinit:
            reach = set()
        badx = [e for e in exits if e in reach]
        if badx:
            ctx.bad(rid, key, f.where(bb), 'the index becomes InMemory (accepting adds) without its filter being re-initialised: an off-loaded bloom buffer survives, later adds are silently dropped and the next dump fails leaving an empty index')
        else:
            ctx.ok(rid, key, f.where(bb), 'filter re-initialised on every ok path after the transition')
    if n < 2:
        raise core.AnchorLost('InMemory transitions: %d' % n)


def t6(ctx, rid):
    """leaf ids are positions in HierarchicalFilters.children and stale leaves keep pointing at them: the vector only grows
    (vacated slots are set to None), it is never shrunk"""
    prog = ctx.prog
    n = 0
    SHRINK = ('pop', 'truncate', 'remove', 'swap_remove', 'drain', 'clear', 'retain', 'split_off', 'dedup', 'resize')
    for f in prog.fns.values():
        if f.file != 'src/filter/hierarchical.rs':
            continue
        for c in f.calls:
            if not c.path.startswith('std::vec::Vec') or prims.receiver_field(f, c) != 'children':
                continue
            ty = prims.receiver_root_type(f, c)
            if 'Leaf' not in c.full and 'Option' not in c.full:
                continue
            n += 1
            if c.name in SHRINK:
                ctx.bad(rid, 'children-only-grows|%s|%s' % (prog.fns[f.id].root, c.name), c.where(), 'the closed-blob vector is shrunk by `%s`: child ids are positions in it, the filter tree keeps a leaf for the old id, and the next push reuses it (two leaves for one blob: duplicated entries in read_all)' % c.name)
            else:
                ctx.ok(rid, 'children-op|%s|%s' % (prog.fns[f.id].root, c.name), c.where(), 'non-shrinking', nontrivial=False)
    if n < 4:
        raise core.AnchorLost('operations on HierarchicalFilters.children: %d' % n)


def slot_empty_events(prog, roots=None):
    """(roots: optional dict filled with block -> access root local of the tested place)
    blocks on whose entry the active slot (seen through the guard in hand) is known to be empty: the None edge of a match /
    `if let` on `..active_blob`, the true edge of `.active_blob.is_none()` (false edge of is_some()), the return of a take()"""
    def ev(g):
        out = []
        for i in g.reachable():
            t = g.blocks[i]['t']
            if t['k'] != 'switch':
                continue
            l = op_local(t['o'])
            for (bb, si, kind, r) in g.defs().get(l, []):
                if kind == 'assign' and r['k'] == 'discr':
                    names = core.place_fields(r['p'])
                    ty = core.place_type_str(g, r['p']) or ''
                    if names and names[-1] == 'active_blob' or (not names and 'Option<std::boxed::Box<async_lock::RwLock<blob::core::Blob<' in ty and _from_slot(g, r['p'][0])):
                        new = [tg for v, tg in t['vals'] if v == 0]
                        if all(v == 1 for v, _ in t['vals']):
                            new.append(t['otherwise'])
                        out += new
                        if roots is not None:
                            for x in new:
                                roots[(g.id, x)] = core.access_root(g, r['p'][0])
                elif kind == 'call' and r.name in ('is_none', 'is_some') and r.path.startswith('std::option::Option') and prims.receiver_field(g, r) == 'active_blob':
                    new = []
                    for v, tg in t['vals']:
                        if v == 0 and r.name == 'is_some':
                            new.append(tg)
                    if r.name == 'is_none' and all(v == 0 for v, _ in t['vals']):
                        new.append(t['otherwise'])
                    out += new
                    if roots is not None and r.args and op_local(r.args[0]) is not None:
                        for x in new:
                            roots[(g.id, x)] = core.access_root(g, op_local(r.args[0]))
        for c in g.calls:
            if c.name == 'take' and c.path.startswith('std::option::Option') and prims.receiver_field(g, c) == 'active_blob' and c.t['t'] is not None:
                out.append(c.t['t'])
                if roots is not None and op_local(c.args[0]) is not None:
                    roots[(g.id, c.t['t'])] = core.access_root(g, op_local(c.args[0]))
        return out
    return ev


def _from_slot(g, l):
    return any(o.kind == 'field' and o.data and core.place_fields(o.data)[-1:] == ['active_blob'] for o in core.origins(g, l, stop_fields=True))


def t7(ctx, rid):
    """an assignment into the active slot never overwrites a live blob: it happens in exclusive initialisation (&mut Storage),
    or only where the slot was seen empty under the guard in hand (a separate acquisition does not count), or the previous
    content was moved out by take()/replace() (accounted for by the move-out rules)"""
    prog = ctx.prog
    roots = {}
    ev = slot_empty_events(prog, roots)
    n = 0
    for (f, bb, o, how) in core.field_sources(prog, 'storage::core::Safe', 'active_blob'):
        if how == 'construct':
            continue
        ogs = core.origins(f, o) if o is not None else []
        if ogs and all(og.kind == 'agg' and og.data.get('variant') == 'None' for og in ogs):
            continue
        root = prog.fns[prog.fns[f.id].root]
        key = 'no-overwrite|%s' % root.id
        n += 1
        if core.runs_exclusive(prog, root.id):
            ctx.ok(rid, key, f.where(bb), 'exclusive initialisation (&mut Storage): no client can have put a blob there', nontrivial=False)
            continue
        ok, w = core.dominated_up(prog, f, bb, ev)
        if ok:
            # same guard: when the test is in this body, it must be made through the guard / reference the store goes through
            here = [e for e in ev(f) if bb in f.reach_from([e])]
            if here and bb not in f.reach_from([0], avoid_enter=here):
                sroot = None
                for st in f.blocks[bb]['s']:
                    if st['k'] == 'a' and core.place_fields(st['d'])[-1:] == ['active_blob']:
                        sroot = core.access_root(f, st['d'][0])
                troots = {roots.get((f.id, e)) for e in here}
                if sroot is not None and None not in troots and sroot not in troots:
                    ctx.bad(rid, key, f.where(bb), 'the emptiness of the active slot is tested through `%s` but the assignment goes through `%s`: between the two acquisitions another operation can install a blob, which is then overwritten and dropped' % (
                        sorted('_%d: %s' % (x, f.locals[x]['s'][:50]) for x in troots), '_%d: %s' % (sroot, f.locals[sroot]['s'][:50])))
                    continue
            ctx.ok(rid, key, f.where(bb), 'dominated by an emptiness test of the slot (or a take) made through the guard in hand')
        else:
            ctx.bad(rid, key, f.where(bb), 'the active slot is assigned without having been seen empty under the same exclusive guard: a blob installed by a concurrent operation since the last (separately locked) test is overwritten and dropped - the records it acknowledged are no longer served', witness=w)
    for g in prog.fns.values():
        for c in g.calls:
            if c.name in ('insert', 'get_or_insert') and c.path.startswith('std::option::Option') and prims.receiver_field(g, c) == 'active_blob' and c.bb in g.reachable():
                n += 1
                root = prog.fns[g.id].root
                ok, w = core.dominated_up(prog, g, c.bb, ev)
                (ctx.ok if ok else ctx.bad)(rid, 'no-overwrite|%s' % root, c.where(), 'Option::%s on the active slot %s' % (c.name, 'after an emptiness test' if ok else 'without an emptiness test under the same guard: the previous blob is dropped'))
    if n < 4:
        raise core.AnchorLost('assignments into Safe.active_blob: %d' % n)


def t8(ctx, rid):
    moveout.dropped_rule(ctx, rid)


def t9(ctx, rid):
    """reloading an index from its file reproduces the record count the in-memory index had (C15.A1 loader instances)"""
    import props.c15 as c15
    c15.loader_returns_count(ctx, rid)


def t10(ctx, rid):
    """keys are ordered by the key type's own order everywhere in the index code: the serialised tree / sorted file is written
    in `K` order, so a search that compares raw bytes (`<[u8] as Ord>::cmp`) descends into the wrong node for every key type
    whose order is not byte-lexicographic - found in memory, NotFound once the index is on disk"""
    prog = ctx.prog
    n = 0
    ORD = ('cmp', 'partial_cmp', 'lt', 'le', 'gt', 'ge', 'max', 'min', 'clamp')
    for f in prog.fns.values():
        if not (f.file.startswith('src/blob/index/') or f.file == 'src/filter/range.rs'):
            continue
        for c in f.calls:
            if c.bb not in f.reachable() or c.name not in ORD or c.path not in ('std::cmp::Ord::' + c.name, 'std::cmp::PartialOrd::' + c.name):
                continue
            st = (c.self_ty or {}).get('s', '')
            if 'Key<' in st or st in ('K', '&K'):
                n += 1
                ctx.ok(rid, 'key-order|%s|%s' % (prog.fns[f.id].root, c.name), c.where(), 'compares through the key type (%s)' % st[:40], nontrivial=False)
            elif st.replace('&', '').strip() in ('[u8]', 'std::vec::Vec<u8>'):
                n += 1
                ctx.bad(rid, 'key-order|%s|%s' % (prog.fns[f.id].root, c.name), c.where(), 'byte strings are ordered with `<%s as Ord>::%s` in the index code: the index is laid out in the key type\'s order, so for a key type whose order is not lexicographic the on-disk search misses keys that the in-memory index finds' % (st, c.name))
    if n < 4:
        raise core.AnchorLost('key comparisons in the index code: %d' % n)


def t11(ctx, rid):
    """a point lookup answers the same whether the newest version sits in the active blob or in a closed one (C02.U6 instances)"""
    import props.c02 as c02
    c02.u6(ctx, rid)


def _aligned(f, operand, cursor, unit_fields, seen=None, depth=12):
    """abstract value of a scalar expression in the domain {multiple of the record-header size relative to an aligned base}:
    True when every definition is the cursor itself, the unit, a product with the unit as a factor, a sum / difference of
    aligned values, zero, or a parameter (callers hand in aligned bases)"""
    if seen is None:
        seen = set()
    k = op_const(operand) if isinstance(operand, dict) else None
    if k is not None:
        return isinstance(k, dict) and k.get('int') in (0, '0')
    p = op_place(operand) if isinstance(operand, dict) else [operand, []]
    if p is None:
        return False
    names = [n for n in core.place_fields(p) if not n.isdigit()]
    if names:
        return names[-1] in unit_fields
    l = p[0]
    if l in cursor:
        return True
    if l in seen or depth <= 0:
        return True     # inductive: a cycle through the cursor
    seen = seen | {l}
    ds = [x for x in f.defs().get(l, []) if x[2] in ('assign', 'call', 'arg', 'partial')]
    if not ds:
        return False
    for (bb, si, kind, payload) in ds:
        if kind == 'arg':
            continue
        if kind == 'call':
            return False
        r = payload if kind == 'assign' else payload['r']
        kk = r['k']
        if kk == 'use' or kk == 'cast':
            if not _aligned(f, r['o'], cursor, unit_fields, seen, depth - 1):
                return False
        elif kk == 'bin':
            op = r['op']
            a = _aligned(f, r['a'], cursor, unit_fields, seen, depth - 1)
            b = _aligned(f, r['b'], cursor, unit_fields, seen, depth - 1)
            if op.startswith('Mul'):
                if not (a or b):
                    return False
            elif op.startswith('Add') or op.startswith('Sub'):
                if not (a and b):
                    return False
            else:
                return False
        elif kk == 'agg' and r.get('ak') == 'tuple':
            if not all(_aligned(f, o, cursor, unit_fields, seen, depth - 1) for o in r['ops']):
                return False
        else:
            return False
    return True


def t12(ctx, rid):
    """cursors over the leaf region of the on-disk index move by whole record headers: every value assigned to the `offset`
    cursor of go_right / go_right_file / go_left, and the position handed from the in-buffer walk to the file walk, is the cursor
    plus / minus multiples of record_header_size (alignment domain; products with the unit as a factor are aligned, a block size
    or a buffer length is not).  A cursor that leaves the header grid decodes garbage: version lists of long histories fail or
    lose entries once the index is on disk, while the in-memory index answers correctly."""
    prog = ctx.prog
    n = 0
    unit = ('record_header_size',)
    for f in prog.fns.values():
        root = prog.fns[f.id].root
        if not (root.endswith('BPTreeFileIndex::<K>::go_right') or root.endswith('BPTreeFileIndex::<K>::go_right_file') or root.endswith('BPTreeFileIndex::<K>::go_left')) or not f.is_coroutine:
            continue
        cursor = {i for i in range(len(f.locals)) if f.debug_name(i) == 'offset'}
        if not cursor:
            raise core.AnchorLost('cursor `offset` in %s' % root)
        # locals copied from the unit field count as the unit
        for i, b in enumerate(f.blocks):
            if b['c'] or i not in f.reachable():
                continue
            for st in b['s']:
                if st['k'] != 'a' or st['d'][0] not in cursor or st['d'][1]:
                    continue
                r = st['r']
                if r['k'] == 'use' and op_place(r['o']) is not None and op_place(r['o'])[0] == 1:
                    continue    # initial value moved out of the coroutine's captured arguments
                n += 1
                key = 'cursor-stays-on-grid|%s' % root
                if r['k'] in ('use', 'cast'):
                    ok = _aligned(f, r['o'], cursor, unit)
                elif r['k'] == 'bin':
                    ok = _aligned_rvalue(f, r, cursor, unit)
                else:
                    ok = False
                if ok:
                    ctx.ok(rid, key, f.where(i), 'cursor +/- multiples of record_header_size')
                else:
                    ctx.bad(rid, key, f.where(i), 'the leaf cursor `offset` is advanced by something that is not a multiple of record_header_size (a block size, a buffer length, a byte count): the next header is decoded from the middle of a record - long version lists fail or lose entries once the index is on disk')
        for c in f.calls:
            if c.bb in f.reachable() and c.name == 'go_right_file' and len(c.args) >= 3:
                n += 1
                key = 'handoff-on-grid|%s' % root
                if _aligned(f, c.args[2], cursor, unit):
                    ctx.ok(rid, key, c.where(), 'the file walk continues at base + cursor')
                else:
                    ctx.bad(rid, key, c.where(), 'the position handed from the in-buffer walk to the file walk is not base + cursor (it depends on a bound / buffer length that is not a multiple of record_header_size)')
    if n < 4:
        raise core.AnchorLost('leaf cursor updates: %d' % n)


def _aligned_rvalue(f, r, cursor, unit):
    a = _aligned(f, r['a'], cursor, unit)
    b = _aligned(f, r['b'], cursor, unit)
    if r['op'].startswith('Mul'):
        return a or b
    if r['op'].startswith('Add') or r['op'].startswith('Sub'):
        return a and b
    return False


def t13(ctx, rid):
    """closing / switching the active blob must not change answers: the group filter a closed blob is merged into stays a
    superset of it (C10.B9 range merge, C10.B6 off-load guard)"""
    import props.c10 as c10
    c10.b9(ctx, rid)
    c10.b6(ctx, rid)


def t14(ctx, rid):
    """answers do not depend on which blob is the active one: the cross-blob merge counts the active blob (C02.U14 instances); the
    tree serializer's two layer passes agree (C09.P7 instance)"""
    import props.c02 as c02
    import props.c09 as c09
    c02.u14(ctx, rid)
    c09.p7(ctx, rid)


def t15(ctx, rid):
    """an index file is built into an empty file: IoDriver::create does not truncate and the io layer appends at the cached
    length, so a second dump of a blob's index (after a delete into the closed blob, after restore + close) would land behind
    the old tree and the rewritten header at offset 0 would point lookups into stale leaves.  Every path of a
    FileIndexTrait::from_records to its IoDriver::create passes `the file was truncated (a truncating create succeeded) or
    does not exist (the false edge of an exists() test)` - directly or in a helper such as clean_file."""
    prog = ctx.prog

    def absent_edges(fn):
        out = []
        for i in fn.reachable():
            t = fn.blocks[i]['t']
            if t['k'] != 'switch':
                continue
            ogs = core.origins(fn, t['o'])
            neg = False
            if ogs and all(o.kind == 'unop' and o.data.get('op') == 'Not' for o in ogs):
                neg = True
                ogs = [x for o in ogs for x in core.origins(fn, o.data['o'])]
            if not ogs or not all(o.kind == 'call' and o.data.name in ('exists', 'try_exists') for o in ogs):
                continue
            for v, tg in t['vals']:
                if v == 0 and not neg:
                    out.append(tg)
            if neg:
                out.append(t['otherwise'])
        return out
    S = core.Summ(prog, lambda c: prims.is_raw(c, prims.RAW_CREATE_TRUNC) or prims.is_raw(c, prims.RAW_REMOVE), excuse=absent_edges)
    n = 0
    for f in prog.fns.values():
        root = prog.fns[f.id].root
        if prog.fns[root].trait_item != 'blob::index::core::FileIndexTrait::from_records':
            continue
        for c in f.calls:
            if c.bb not in f.reachable() or c.name != 'create' or 'IoDriver' not in c.path:
                continue
            n += 1
            key = 'index-built-into-empty-file|%s' % root
            ev = set(S.events(f)) | set(absent_edges(f))
            if c.bb in f.reach_from([0], avoid_enter=ev):
                ctx.bad(rid, key, c.where(), 'the index file is created (IoDriver::create does not truncate) on a path where an existing file was not emptied: '
                        'a second dump of the index is appended behind the old one and lookups follow the new header into the stale tree')
            else:
                ctx.ok(rid, key, c.where(), 'every path passes a successful truncating create / remove or the not-exists edge (in a helper)')
    if n < 1:
        raise core.AnchorLost('IoDriver::create in FileIndexTrait::from_records impls: %d' % n)


def t16(ctx, rid):
    """C09.P10 instance: a full inner node of the index file fits the block the lookups read"""
    import props.c09 as c09
    c09.p10(ctx, rid)


def t17(ctx, rid):
    """`keeps accepting writes` across a switch of the active blob: the worker exchanges the active blob in one exclusive section
    (Safe::replace_active_blob).  No worker body first closes the active blob and then creates a new one - between the two lock
    sections there is no active blob (the close fsyncs under the lock, the window is wide) and concurrent writers that already
    passed their check fail with ActiveBlobNotSet"""
    prog = ctx.prog
    n = 0
    bad = None
    for f in prog.fns.values():
        if not f.file.endswith('observer_worker.rs'):
            continue
        n += 1
        closes = [c for c in f.calls if c.bb in f.reachable() and any(t.endswith('Inner::<K>::close_active_blob') for t in prog.resolve(c))]
        creates = [c for c in f.calls if c.bb in f.reachable() and any(t.endswith('Inner::<K>::create_active_blob') or t.endswith('::ensure_active_blob_exists') for t in prog.resolve(c))]
        for c in closes:
            after = f.reach_from(f.after(c.bb))
            for k in creates:
                if k.bb in after:
                    bad = (c, k)
    if n < 10:
        raise core.AnchorLost('functions in the worker module: %d' % n)
    if bad:
        ctx.bad(rid, 'switch-is-one-exclusive-section', bad[0].where(), 'a worker body closes the active blob and then creates a new one in a second lock section (`%s` .. `%s`): in between the storage has no active blob and concurrent writes are rejected' % (bad[0].name, bad[1].name))
    else:
        ctx.ok(rid, 'switch-is-one-exclusive-section', '', 'no close-then-create sequence in %d worker functions' % n, nontrivial=False, queries=n)


def t18(ctx, rid):
    """C15.A13 instance: the allocation counter of a reloaded index is seeded from the capacities of the per-key vectors"""
    import props.c15 as c15
    c15.a13(ctx, rid)


RULES = [
    Rule('C04.T1', 'every value stored into the active-blob slot is certified to have an in-memory index (open_new, load_index ok, or popped after load_index ok on the last element)', t1, 7),
    Rule('C04.T2', 'every index push is dominated by an InMemory-establishing event, in the body or in every caller, or acts on the active-blob slot', t2, 3),
    Rule('C04.T3', 'Blob::dump is never applied to the blob sitting in the active slot', t3, 3),
    Rule('C04.T4', 'a blob in transit between the active slot and the closed list stays under the exclusive storage guard until handed back', t4, 3),
    Rule('C04.T5', 'every transition of an existing index to InMemory re-initialises its filter', t5, 2),
    Rule('C04.T7', 'an assignment into the active slot never overwrites a live blob (emptiness seen through the guard in hand, exclusive init, or previous content moved out)', t7, 4),
    Rule('C04.T8', 'a blob moved out of the active slot or the closed list is handed back on every non-error exit', t8, 4),
    Rule('C04.T9', 'the loaders return the record count stored in the index header, not a property of the rebuilt key map', t9, 2),
    Rule('C04.T10', 'keys are ordered through the key type, never as raw byte strings, in the index code', t10, 4),
    Rule('C04.T11', 'the point lookup consults every candidate closed blob before it returns Ok (C02.U6 instances)', t11, 1),
    Rule('C04.T12', 'cursors over the on-disk leaf region move by whole record headers (alignment domain)', t12, 4),
    Rule('C04.T13', 'the filters a closed blob is merged into stay a superset of it; buffers are off-loaded only from on-disk indexes (C10.B9/B6 instances)', t13, 3),
    Rule('C04.T14', 'the active blob is counted as a source of the cross-blob merge; the serializer layer passes agree (C02.U14 / C09.P7 instances)', t14, 3),
    Rule('C04.T15', 'an index file is built into an emptied or absent file (IoDriver::create does not truncate)', t15, 1),
    Rule('C04.T16', 'a completely filled non-leaf node fits into one block for every key length (C09.P10 instance)', t16, 1),
    Rule('C04.T17', 'the worker switches the active blob in one exclusive section (no close-then-create)', t17, 1),
    Rule('C04.T18', 'the allocation counter of a reloaded index is seeded from vector capacities (C15.A13 instance)', t18, 1),
    Rule('C04.T6', 'the closed-blob vector (child ids are positions) is never shrunk', t6, 4),
]
