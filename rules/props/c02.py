"""C02 Version history / deletion / duplicate-write semantics - control-structure clauses."""
import core
import prims
from core import op_local, op_const
from engine import Rule

EXPLANATION = (
    "U1: in the storage write path the append (Blob::write) is dominated by a branch on Config::allow_duplicates(); from the edge "
    "`duplicates disallowed and the key (and meta) is found` the append is unreachable and an ok-return is reached. U2: the "
    "only_if_presented operand of every Blob::delete applied to a member of the closed list originates in the constant true. "
    "U3: merges of per-blob entry lists use a stable sort (the tie order `blob recency, then append recency` is the concatenation "
    "order): no sort_unstable* on entry / header vectors in storage and blob code. U4: in Blob::delete a marker is appended either "
    "unconditionally (only_if_presented == false) or on the true edge of ReadResult::is_found() of the blob's latest record - never "
    "on `not NotFound` (a blob whose latest record is already a marker must not be marked again). U5: the per-blob and cross-blob "
    "cut keeps the first marker: truncate(first_del + 1) with first_del from position(is_deleted). Decides this control structure, "
    "not rank order or counts as values.")
EXPLANATION += (" " + 'U7 the timestamp of the Deleted answer of get_entry_with_meta has the list returned by get_all_with_deletion_marker as its only index-query origin (helpers and adaptors are looked through).')
ASSUMPTIONS = []

BLOB_WRITE = 'blob::core::Blob::<K>::write'
BLOB_DELETE = 'blob::core::Blob::<K>::delete'


def sw_true_false(t):
    tt = ff = None
    for v, tg in t['vals']:
        if v == 0:
            ff = tg
        else:
            tt = tg
    if tt is None:
        tt = t['otherwise']
    if ff is None:
        ff = t['otherwise']
    return tt, ff


def guard_edges(prog, f):
    """blocks whose entry means the duplicate policy lets the write through: the true edge of allow_duplicates(), the false
    edge of is_found() on the lookup result"""
    out = []
    for c in f.calls:
        if c.name not in ('allow_duplicates', 'is_found'):
            continue
        carry = core.flows_forward(f, c.dest[0])
        # a negation `!x` flips the edges
        neg_locals = set()
        for b in f.blocks:
            if b['c']:
                continue
            for s in b['s']:
                if s['k'] == 'a' and s['r']['k'] == 'un' and s['r']['op'] == 'Not' and op_local(s['r']['o']) in carry:
                    neg_locals |= core.flows_forward(f, s['d'][0])
        for j in f.reachable():
            t = f.blocks[j]['t']
            if t['k'] != 'switch' or op_local(t['o']) not in carry:
                continue
            tt, ff = sw_true_false(t)
            neg = op_local(t['o']) in neg_locals
            if c.name == 'allow_duplicates':
                out.append(ff if neg else tt)
            else:
                out.append(tt if neg else ff)
    return out


def u1(ctx, rid):
    prog = ctx.prog
    L, E = prog.may_reach()
    n = 0
    for f in prog.fns.values():
        if not f.file.startswith('src/storage/'):
            continue
        for c in f.calls:
            if BLOB_WRITE not in prog.resolve(c) or c.name == 'poll' or c.bb not in f.reachable():
                continue
            n += 1
            key = 'duplicate-guard|%s' % prog.fns[f.id].root
            ok, w = core.dominated_up(prog, f, c.bb, lambda g: guard_edges(prog, g), depth=3)
            if not ok:
                ctx.bad(rid, key, c.where(), 'the append is reachable on a path that did not pass the duplicate policy (allow_duplicates() true, or the key not found)', witness=w)
                continue
            # in the function that holds the is_found test: on its true edge nothing that can reach the append runs, and Ok is returned
            holders = [g for g in prog.fns.values() if g.file.startswith('src/storage/') and any(x.name == 'is_found' for x in g.calls) and any(x.name == 'allow_duplicates' for x in g.calls)]
            good = False
            why = 'no function tests allow_duplicates() together with is_found()'
            for g in holders:
                for x in g.calls:
                    if x.name != 'is_found':
                        continue
                    carry = core.flows_forward(g, x.dest[0])
                    for j in g.reachable():
                        t = g.blocks[j]['t']
                        if t['k'] != 'switch' or op_local(t['o']) not in carry:
                            continue
                        tt, ff = sw_true_false(t)
                        region = g.reach_from([tt])
                        stores = [y for y in g.calls if y.bb in region and y.name != 'poll' and any(z == BLOB_WRITE or (z in prog.fns and BLOB_WRITE in L.get(z, ())) for z in prog.resolve(y))]
                        oks = [bb for (bb, k, _) in core.exit_defs(g) if k == 'ok' and bb in region]
                        if stores:
                            why = 'on the `record found, duplicates disallowed` edge the write can still be stored (%s)' % stores[0].name
                        elif not oks:
                            why = 'the duplicate edge does not acknowledge the write (no ok-return)'
                        else:
                            good = True
            if good:
                ctx.ok(rid, key, c.where(), 'append only reachable through the duplicate-policy edges (here or in every caller); a found duplicate returns Ok without storing')
            else:
                ctx.bad(rid, key, c.where(), why)
    if n < 1:
        raise core.AnchorLost('Blob::write call in storage')


def u2(ctx, rid):
    prog = ctx.prog
    n = 0
    for f in prog.fns.values():
        for c in f.calls:
            if BLOB_DELETE not in prog.resolve(c) or c.name == 'poll':
                continue
            recv = core.origins_ip(prog, f, c.args[0], depth=1, stop_fields=True)
            closed = any(o.kind == 'call' and o.data.name in ('iter_mut', 'get_child_mut', 'last_mut') and 'HierarchicalFilters' in o.data.path for o in recv) or \
                any(o.kind == 'arg' and 'delete_in_closed' in o.fn.id for o in recv) or ('delete_in_closed' in f.id)
            active = any(o.kind == 'field' and o.data[1] == 'active_blob' for o in recv)
            n += 1
            if not closed:
                ctx.ok(rid, 'delete-flag|%s|active' % prog.fns[f.id].root, c.where(), 'applied to the active blob: caller\'s flag', nontrivial=False)
                continue
            key = 'delete-flag|%s|closed' % prog.fns[f.id].root
            ogs = core.origins_ip(prog, f, c.args[4], depth=1) if len(c.args) > 4 else []
            vals = [core.const_int(prog, o.data) if o.kind == 'const' else None for o in ogs]
            if vals and all(v == 1 for v in vals):
                ctx.ok(rid, key, c.where(), 'only_if_presented is the constant true for closed blobs')
            else:
                ctx.bad(rid, key, c.where(), 'a closed blob can be marked with only_if_presented=%s: a marker is appended to every closed blob, changing the returned count and every per-blob record count' % vals)
    if n < 2:
        raise core.AnchorLost('Blob::delete call sites: %d' % n)


def u3(ctx, rid):
    prog = ctx.prog
    n = 0
    for f in prog.fns.values():
        if not (f.file.startswith('src/storage/') or f.file.startswith('src/blob/')) or 'tests' in f.file or 'benchmarks' in f.file:
            continue
        for c in f.calls:
            if not (c.name.startswith('sort') and ('slice' in c.path or 'Vec' in c.path or c.path.startswith('core::slice'))):
                continue
            ty = c.f.get('args', [''])[0] if c.f.get('args') else ''
            full = c.full
            if not ('Entry' in full or 'record::Header' in full or 'Header' in full):
                continue
            n += 1
            key = 'stable-sort|%s|%s' % (prog.fns[f.id].root, c.name)
            if 'unstable' in c.name:
                ctx.bad(rid, key, c.where(), 'an unstable sort orders records of one key: entries with equal timestamps lose their `blob recency, then append recency` order')
            else:
                ctx.ok(rid, key, c.where(), 'stable sort')
    if n < 1:
        raise core.AnchorLost('sort of entries in storage/blob: %d' % n)


def u4(ctx, rid):
    prog = ctx.prog
    f = prog.body_of(BLOB_DELETE)
    if f is None:
        raise core.AnchorLost(BLOB_DELETE)
    key = 'marker-only-if-live|' + BLOB_DELETE
    appends = [c for c in f.calls if c.name in ('push_deletion_record', 'write_mut') and c.crate == 'pearl']
    if not appends:
        raise core.AnchorLost('marker append in Blob::delete')
    live = [c for c in f.calls if c.name == 'is_found' and 'ReadResult' in c.path]
    other = [c for c in f.calls if c.name in ('is_not_found', 'is_deleted', 'is_presented') and 'ReadResult' in c.path]
    # edges that justify the append: false edge of a switch on the only_if_presented parameter, true edge of is_found()
    just = []
    for j in f.reachable():
        t = f.blocks[j]['t']
        if t['k'] != 'switch':
            continue
        ogs = core.origins(f, t['o'])
        deep = list(ogs)
        for o in ogs:
            if o.kind == 'unop':
                deep += core.origins(f, o.data['o'])
        tt, ff = sw_true_false(t)
        neg = any(o.kind == 'unop' and o.data.get('op') == 'Not' for o in ogs)
        for o in deep:
            if o.kind == 'upvar' or o.kind == 'arg':
                nm = f.upvar_name(o.data) if o.kind == 'upvar' else None
                if nm == 'only_if_presented':
                    just.append(tt if neg else ff)
            if o.kind == 'call' and o.data.name == 'is_found' and 'ReadResult' in o.data.path:
                # .. and nothing else may answer the question (`contains_key_fast` of an inlined `is_presented` helper says
                # `present` for a key whose latest record is a marker)
                if all(x.kind != 'call' or (x.data.name == 'is_found' and 'ReadResult' in x.data.path) for x in deep):
                    just.append(ff if neg else tt)
    bad = []
    for a in appends:
        if a.bb in f.reach_from([0], avoid_enter=just):
            bad.append(a)
    if other and not live:
        ctx.bad(rid, key, other[0].where(), 'liveness of the key is tested with `%s` instead of is_found(): a blob whose latest record is already a deletion marker is marked again' % other[0].name)
    elif bad or not just:
        ctx.bad(rid, key, (bad[0] if bad else appends[0]).where(), 'a deletion marker can be appended on a path that is neither `only_if_presented == false` nor the true edge of is_found() on the latest record')
    else:
        ctx.ok(rid, key, appends[0].where(), 'marker appended only when unconditional or when the latest record is live (is_found)')


def u5(ctx, rid):
    prog = ctx.prog
    n = 0
    for fid in ('<blob::index::core::IndexStruct<FileIndex, K> as blob::index::IndexTrait<K>>::get_all_with_deletion_marker',
                'storage::core::Storage::<K>::read_all_with_deletion_marker'):
        f = prog.body_of(fid)
        if f is None:
            raise core.AnchorLost(fid)
        key = 'cut-after-first-marker|%s' % fid

        def cut_pattern(g):
            trunc = [c for c in g.calls if c.name == 'truncate' and c.path.startswith('std::vec::Vec')]
            pos = [c for c in g.calls if c.name == 'position']
            good = False
            for t in trunc:
                ogs = core.origins(g, t.args[1])
                for o in ogs:
                    if o.kind == 'binop' and o.data['op'] in ('Add', 'AddWithOverflow'):
                        ka, kb = op_const(o.data['a']), op_const(o.data['b'])
                        one = (ka and ka.get('int') == 1) or (kb and kb.get('int') == 1)
                        other = o.data['b'] if (ka and ka.get('int') == 1) else o.data['a']
                        src = core.origins(g, other)
                        if one and any(x.kind == 'call' and x.data.name == 'position' for x in src):
                            good = True
            # the predicate of position() is is_deleted
            pred_ok = False
            for p in pos:
                for a in p.args:
                    l = op_local(a)
                    if l is not None and g.locals[l].get('h') == 'closure':
                        cl = prog.fns[g.locals[l]['a'][0]]
                        if any(x.name == 'is_deleted' for x in cl.calls):
                            pred_ok = True
            return good, pred_ok
        # the cut may live in a helper of the same file the list is handed to (`cut_after_first_deletion(hs)`)
        cands = [f] + [g for c in f.calls if c.bb in f.reachable() for t in prog.resolve(c) for g in [prog.body_of(t) if t in prog.fns else None]
                       if g is not None and g.file == f.file and g.id != f.id]
        good = pred_ok = False
        for g in cands:
            gd, pk = cut_pattern(g)
            if gd and pk:
                good = pred_ok = True
        n += 1
        if good and pred_ok:
            ctx.ok(rid, key, f.where(), 'truncate(position(is_deleted) + 1): the first marker is kept, everything older is cut')
        else:
            ctx.bad(rid, key, f.where(), 'the version list is not cut exactly after the first deletion marker (truncate(position(is_deleted) + 1) not found)')
    if n < 2:
        raise core.AnchorLost('cut sites')


def _stream_none_edges(f):
    """blocks entered when a Stream::next() of body f yielded None (the stream is exhausted)"""
    nexts = [c for c in f.calls if c.name == 'next' and ('Stream' in (c.trait or '') or 'StreamExt' in c.path or 'stream' in c.path.lower())]
    none_edges = []
    for c in nexts:
        carry = core.result_flow(f, c)
        for j in f.reachable():
            t = f.blocks[j]['t']
            if t['k'] != 'switch':
                continue
            l = op_local(t['o'])
            for (bb, si, kind, r) in f.defs().get(l, []):
                if kind == 'assign' and r['k'] == 'discr' and r['p'][0] in carry and (core.place_type_str(f, r['p']) or '').startswith('std::option::Option'):
                    hit = False
                    for v, tg in t['vals']:
                        if v == 0:
                            none_edges.append(tg)
                            hit = True
                    if not hit and all(v == 1 for v, _ in t['vals']):
                        none_edges.append(t['otherwise'])
    return none_edges


def _exhausts_closed_blobs(f):
    ne = _stream_none_edges(f)
    exits = [bb for (bb, k, _) in core.exit_defs(f) if k in ('ok', 'fwd') and bb in f.reachable()]
    return bool(ne) and bool(exits) and not any(e in f.reach_from([0], avoid_enter=ne) for e in exits)


def u6(ctx, rid):
    """the point lookup merges the active blob with *every* candidate closed blob: every ok-return of the latest-entry merge is
    dominated by the exhaustion (None) edge of the closed-blob stream - in the body itself or in a helper of the same file
    that walks the closed blobs (`latest_entry_among_closed_blobs`); an early return after the active blob is never sound
    because a closed blob may hold a record with a greater timestamp"""
    prog = ctx.prog
    fid = 'storage::core::Storage::<K>::get_latest_entry'
    f = prog.body_of(fid)
    if f is None:
        raise core.AnchorLost(fid)
    key = 'merge-consults-closed-blobs|' + fid
    none_edges = _stream_none_edges(f)
    exits = [bb for (bb, k, _) in core.exit_defs(f) if k in ('ok', 'fwd') and bb in f.reachable()]
    if not none_edges:
        helpers = {prog.fns[g.id].root for g in prog.fns.values() if g.is_coroutine and g.file == f.file and g.id != f.id and _exhausts_closed_blobs(g)}
        S = core.Summ(prog, lambda c: any(t in helpers for t in prog.resolve(c)))
        ev = set(S.events(f)) if helpers else set()
        if ev and not any(e in f.reach_from([0], avoid_enter=ev) for e in exits):
            ctx.ok(rid, key, f.where(), 'every ok-return follows a helper that walks the closed-blob stream to exhaustion')
        else:
            ctx.bad(rid, key, f.where(), 'the latest-entry lookup does not iterate the closed blobs to exhaustion')
    elif [e for e in core.ok_exits_cp(f, [0], avoid_enter=none_edges) if e in exits]:
        bad = [e for e in core.ok_exits_cp(f, [0], avoid_enter=none_edges) if e in exits]
        ctx.bad(rid, key, f.where(bad[0]), 'the latest-entry lookup can return Ok before the closed blobs were consulted: a record with a greater timestamp (or a deletion marker) in a closed blob is ignored',
                witness=['bb%d %s' % (b, f.where(b)) for b in (f.path([0], bad, avoid_enter=none_edges) or [])])
    else:
        ctx.ok(rid, key, f.where(), 'every ok-return is dominated by the exhaustion of the closed-blob stream')


def u7(ctx, rid):
    """`read_with(meta)`: "else Deleted if the list ends in a marker" - the Deleted answer of the per-blob meta lookup is taken
    from the marker-terminated list the candidates come from (get_all_with_deletion_marker), not from a different index query"""
    prog = ctx.prog
    n = 0
    PASS = ('last', 'filter', 'map', 'pop', 'first', 'get', 'iter', 'next', 'next_back', 'rev', 'find', 'and_then', 'cloned', 'copied', 'as_ref',
            'deref', 'deref_mut', 'new', 'timestamp', 'then', 'then_some', 'take', 'last_mut', 'as_slice', 'split_last', 'into_iter', 'unwrap_or', 'or')
    for f in prog.fns.values():
        if not f.id.endswith('Blob::<K>::get_entry_with_meta::{closure#0}'):
            continue
        for i, b in enumerate(f.blocks):
            if b['c'] or i not in f.reachable():
                continue
            for st in b['s']:
                if st['k'] != 'a' or st['r']['k'] != 'agg' or st['r'].get('variant') != 'Deleted' or not st['r'].get('adt', '').endswith('ReadResult'):
                    continue
                n += 1
                key = 'deleted-from-marker-list|%s' % prog.fns[f.id].root

                def is_query(c):
                    return (c.trait or '').endswith('IndexTrait') or 'blob::index::' in c.path or any('blob::index::' in t for t in prog.resolve(c))

                def ext(c):
                    # every call that is not an index query is looked through (helpers, adaptors): only queries are terminals
                    if is_query(c) or c.name == 'poll':
                        return None
                    return tuple(range(len(c.args))) or None
                ogs = core.origins(f, st['r']['ops'][0], extra_transparent=ext)
                calls = [o.data for o in ogs if o.kind == 'call' and is_query(o.data)]
                good = [c for c in calls if c.name == 'get_all_with_deletion_marker']
                other = [c for c in calls if c.name != 'get_all_with_deletion_marker']
                # .. and only once the live versions in front of the marker were searched for the requested metadata
                filt = [c.bb for c in f.calls if c.bb in f.reachable() and c.name == 'filter_entries']
                # .. or the search loop itself when it is written out here: the header of a loop that loads entry metadata
                import props.c13 as c13
                for (h, body) in c13.natural_loops(f):
                    if any(c.bb in body and c.name in ('load_meta', 'filter_entries') for c in f.calls):
                        filt.append(h)
                if good and not other and (not filt or i in f.reach_from([0], avoid_enter=filt)):
                    ctx.bad(rid, key + '|after-filter', f.where(i), 'Deleted is answered without the versions in front of the marker having been searched for the requested metadata: a record written after the deletion is reported as deleted')
                elif good and not other:
                    ctx.ok(rid, key, f.where(i), 'the Deleted timestamp comes from the list returned by get_all_with_deletion_marker')
                else:
                    ctx.bad(rid, key, f.where(i), 'the Deleted answer of the meta lookup is derived from `%s`, not from the marker-terminated list: a deletion older than newer non-matching records is answered differently (NotFound instead of Deleted or vice versa)' % (other[0].name if other else 'no list'))
    if n < 1:
        raise core.AnchorLost('Deleted results in get_entry_with_meta: %d' % n)


def u8(ctx, rid):
    """`read_with(meta)` / duplicate detection: "metadata equals meta" is decided on the decoded maps (`Meta: PartialEq`), never on
    serialized bytes - a Meta is a HashMap, two equal maps serialize in different orders"""
    prog = ctx.prog
    n = 0
    for f in prog.fns.values():
        if f.file != 'src/blob/core.rs' or not f.is_coroutine:
            continue
        par = prog.fns.get(f.parent) if f.parent in prog.fns else None
        if par is None or not any('record::record::Meta' in l['s'] and l['s'].startswith('&') for l in par.locals[1:par.argc + 1]):
            continue
        # the switch that decides whether an entry is returned: a non-await switch one of whose edges leads to the
        # `Some(entry)` / `Found(entry)` result and another does not
        rets = []
        for i, b in enumerate(f.blocks):
            if b['c'] or i not in f.reachable():
                continue
            for st in b['s']:
                if st['k'] != 'a' or st['r']['k'] != 'agg':
                    continue
                ty = core.place_type_str(f, st['d']) or ''
                if (st['r'].get('variant') == 'Some' and ty.startswith('std::option::Option<blob::entry::Entry')) or (st['r'].get('variant') == 'Found' and 'Entry' in ty):
                    rets.append(i)
        for rb in rets:
            can = set(i for i in f.reachable() if rb in f.reach_from([i]))
            deciding = []
            for i in sorted(can):
                t = f.blocks[i]['t']
                if t['k'] != 'switch' or any(a.switch_bb == i for a in f.awaits()):
                    continue
                outs = [tg for _, tg in t['vals']] + [t['otherwise']]
                outs = [x for x in outs if x is not None and f.blocks[x]['t']['k'] != 'unreachable']
                rr = [rb in f.reach_from([x], avoid_enter=[i]) for x in outs]
                if any(rr) and not all(rr):
                    sites = []
                    core.scalar_leaves(prog, f, t['o'], sites=sites)
                    eqs = [(nm, fid, bb) for (nm, fid, bb) in sites if nm in ('eq', 'ne')]
                    if eqs:
                        deciding.append((i, eqs))
            for (i, eqs) in deciding:
                n += 1
                key = 'meta-compared-decoded|%s' % prog.fns[f.id].root
                bad = []
                good = []
                for (nm, fid, bb) in eqs:
                    c = prog.fns[fid].call_at(bb)
                    st = (c.self_ty or {}).get('s', '')
                    if 'Meta' in st or 'HashMap' in st:
                        good.append(c)
                    elif st.replace('&', '').replace('mut ', '').strip() in ('[u8]', 'std::vec::Vec<u8>', 'bytes::BytesMut', 'bytes::Bytes'):
                        bad.append(c)
                if not good and not bad:
                    continue
                if not good and bad == []:
                    continue
                if bad or not good:
                    bad = bad or [prog.fns[eqs[0][1]].call_at(eqs[0][2])]
                    ctx.bad(rid, key, bad[0].where(), 'whether a record matches the requested metadata is decided by `%s` on %s, not by Meta equality: two equal maps serialize in different orders, so read_with misses matching records and a duplicate write is stored again' % (bad[0].name, (bad[0].self_ty or {}).get('s', 'bytes')))
                else:
                    ctx.ok(rid, key, f.where(i), 'decided by PartialEq on Meta')
    if n < 1:
        raise core.AnchorLost('metadata match decision next to Entry::load_meta: %d' % n)


def u9(ctx, rid):
    """every version of a key is listed also when the list is read from the on-disk index: the leaf cursors stay on the header
    grid (C04.T12 instances)"""
    import props.c04 as c04
    c04.t12(ctx, rid)


def _ts_side(f, o):
    ogs = core.origins(f, o)
    calls = [x for x in ogs if x.kind == 'call']
    if calls and all(x.data.name == 'timestamp' for x in calls) and len(calls) == len(ogs):
        return 'call'
    if ogs and all(x.kind == 'arg' for x in ogs):
        return 'arg'
    return None


def upper_bound_exits(prog, f):
    """blocks entered when a position is known to be an upper bound of the equal-timestamp range: the false edge of
    `elem.timestamp() <= new` / of `pos < len` in a skip loop, the return of partition_point / take_while / position with that
    `<=` predicate"""
    exits = []
    for i, b in enumerate(f.blocks):
        if b['c'] or i not in f.reachable():
            continue
        for st in b['s']:
            if st['k'] != 'a' or st['r']['k'] != 'bin':
                continue
            r = st['r']
            kind = None
            if r['op'] == 'Le':
                sa, sb = _ts_side(f, r['a']), _ts_side(f, r['b'])
                if sa == 'call' and sb in ('call', 'arg'):
                    kind = 'le'
            elif r['op'] == 'Lt':
                ob = [o for o in core.origins(f, r['b']) if o.kind == 'call']
                if ob and all(o.data.name == 'len' for o in ob):
                    kind = 'lt'
            if not kind:
                continue
            carry = core.flows_forward(f, st['d'][0])
            for j in f.reachable():
                t = f.blocks[j]['t']
                if t['k'] == 'switch' and op_local(t['o']) in carry:
                    exits += [tg for v, tg in t['vals'] if v == 0]
    for c in f.calls:
        if c.name in ('partition_point', 'take_while', 'skip_while', 'position', 'rposition') and c.bb in f.reachable() and c.t['t'] is not None:
            for a in c.args:
                l = op_local(a)
                if l is not None and f.locals[l].get('h') == 'closure':
                    g = prog.fns.get(f.locals[l]['a'][0])
                    if g is None:
                        continue
                    for b in g.blocks:
                        for st in b['s']:
                            if st['k'] == 'a' and st['r']['k'] == 'bin' and st['r']['op'] in ('Le', 'Ge'):
                                oa = [o for o in core.origins(g, st['r']['a']) if o.kind == 'call']
                                ob = [o for o in core.origins(g, st['r']['b']) if o.kind == 'call']
                                elem = oa if st['r']['op'] == 'Le' else ob
                                if not elem or not all(o.data.name == 'timestamp' for o in elem):
                                    continue
                                if all(any(x.kind == 'arg' for x in core.origins(g, o.data.args[0])) for o in elem):
                                    exits.append(c.t['t'])
    return exits


def upper_bound_fn(prog, gid, depth=2):
    """every return of the (non-async) function gid passes an upper-bound exit: its result is a valid insertion position"""
    g = prog.fns.get(gid)
    if g is None or g.is_coroutine:
        return False
    ex = upper_bound_exits(prog, g)
    rets = [i for i in g.reachable() if g.blocks[i]['t']['k'] == 'return']
    return bool(ex) and bool(rets) and not any(r in g.reach_from([0], avoid_enter=ex) for r in rets)


def u10(ctx, rid):
    """"then append recency": a header whose timestamp equals existing ones is inserted behind all of them.  The position handed
    to Vec::insert in the in-memory index is an upper bound of the equal-timestamp range on every path: the insertion is only
    reached through the exit of a skip loop `while pos < len && v[pos].timestamp() <= new.timestamp()` (the false edge of the
    `<=` on two timestamps or of `pos < len`), or right after a partition_point / take_while with that `<=` predicate - in the
    body or in a helper that computes the position."""
    prog = ctx.prog
    n = 0
    for f in prog.fns.values():
        if not (f.id.endswith('IndexTrait<K>>::push') and 'IndexStruct' in f.id):
            continue
        push_id = f.id
        # the ordered insertion may live in a helper of the same file that push hands the per-key vector to
        bodies = [f]
        for c in f.calls:
            for t in prog.resolve(c):
                g = prog.fns.get(t)
                if g is not None and g.file == f.file and g.id != f.id and not g.is_coroutine and g not in bodies \
                   and any(x.name == 'insert' and x.path.startswith('std::vec::Vec') and 'Header' in x.full for x in g.calls):
                    bodies.append(g)
        for f in bodies:
            ins = [c for c in f.calls if c.name == 'insert' and c.path.startswith('std::vec::Vec') and c.bb in f.reachable()]
            exits = upper_bound_exits(prog, f)
            # a helper of this crate that returns an upper-bound position
            for c in f.calls:
                if c.bb in f.reachable() and c.t['t'] is not None and any(t in prog.fns and upper_bound_fn(prog, t) for t in prog.resolve(c)):
                    exits.append(c.t['t'])
            for c in ins:
                n += 1
                key = 'equal-timestamps-append-behind|%s' % push_id
                if not exits:
                    ctx.bad(rid, key, c.where(), 'no `<=`-on-timestamps skip precedes the insertion into the per-key version list')
                elif c.bb in f.reach_from([0], avoid_enter=exits):
                    ctx.bad(rid, key, c.where(), 'the insertion position can reach Vec::insert without having been moved behind the records with an equal timestamp (no `v[pos].timestamp() <= new.timestamp()` skip on that path): a record written later with the same timestamp ranks before the earlier one',
                            witness=['bb%d %s' % (b, f.where(b)) for b in (f.path([0], [c.bb], avoid_enter=exits) or [])][-8:])
                else:
                    ctx.ok(rid, key, c.where(), 'every path to the insertion leaves the `<=` skip loop (or a `<=` partition_point / helper)')
    if n < 1:
        raise core.AnchorLost('Vec::insert in IndexStruct::push: %d' % n)


def u11(ctx, rid):
    """the cross-blob merge behind read / read_with / contains / the duplicate check: strict comparison, NotFound below every
    record (C01.R3 instances)"""
    import props.c01 as c01
    c01.r3(ctx, rid)


def u12(ctx, rid):
    """a plain `write` checks for a duplicate by key alone: it hands `None` metadata to the common writer (with `Some(empty map)` the
    duplicate check becomes "a live record whose metadata equals the empty map" and a key whose live records all carry metadata
    is stored again)"""
    prog = ctx.prog
    f = prog.body_of('storage::core::Storage::<K>::write')
    if f is None:
        raise core.AnchorLost('Storage::write')
    n = 0
    for c in f.calls:
        if c.bb not in f.reachable() or c.name == 'poll':
            continue
        tg = [t for t in prog.resolve(c) if t in prog.fns and t.startswith('storage::core::Storage')]
        if not tg:
            continue
        metas = [a for a in c.args if op_local(a) is not None and 'record::record::Meta' in f.locals[op_local(a)]['s']]
        for a in metas:
            n += 1
            ogs = core.origins(f, a)
            if ogs and all(o.kind == 'agg' and o.data.get('variant') == 'None' for o in ogs):
                ctx.ok(rid, 'plain-write-has-no-meta', c.where(), 'write() passes None metadata')
            else:
                ctx.bad(rid, 'plain-write-has-no-meta', c.where(), 'Storage::write hands metadata (%s) to the writer instead of None: with duplicates disallowed the duplicate check of a plain write is no longer "is the key live" but "is there a live record with exactly this metadata"' % [repr(o)[:50] for o in ogs][:2])
    if n < 1:
        raise core.AnchorLost('metadata argument of the writer called from Storage::write: %d' % n)


def u13(ctx, rid):
    """`delete` marks every closed blob in which the key is live: per-blob liveness decides, so delete_core reaches the
    closed-blob pass on every path that returns Ok - it is never short-cut by a cross-blob lookup (the global winner can be a
    marker while another blob still holds live older records)"""
    prog = ctx.prog
    f = prog.body_of('storage::core::Storage::<K>::delete_core')
    if f is None:
        raise core.AnchorLost('Storage::delete_core')
    closed = [c for c in f.calls if c.name != 'poll' and c.bb in f.reachable() and any(t.endswith('::delete_in_closed') for t in prog.resolve(c))]
    if not closed:
        raise core.AnchorLost('delete_in_closed call in delete_core')
    done = [core.completion_block(f, c) for c in closed]
    done = [d for d in done if d is not None]
    exits = [bb for (bb, k, _) in core.exit_defs(f) if k in ('ok', 'val') and bb in f.reachable()]
    key = 'closed-blobs-always-visited|storage::core::Storage::<K>::delete_core'
    if any(e in f.reach_from([0], avoid_enter=done) for e in exits):
        ctx.bad(rid, key, f.where(), 'delete_core can return Ok without having visited the closed blobs: a blob in which the key is still live keeps its records unmarked and the returned count is too small')
    else:
        ctx.ok(rid, key, closed[0].where(), 'every Ok return follows the completed closed-blob pass')


def _counted_when_nonempty(prog, f, inc_bb, add_bb):
    """`if !entries.is_empty() { counter += 1 }` next to `all.extend(entries)`: the increment is decided by a test of the length of
    the very value that is added, and that test sits on every path through the addition"""
    src = None
    for c in f.calls:
        if c.bb == add_bb and len(c.args) > 1 and op_local(c.args[1]) is not None:
            src = core.access_root(f, op_local(c.args[1]))
    if src is None:
        return False
    not_for_add = set(core.deciding_switches(f, add_bb))
    for sw in core.deciding_switches(f, inc_bb):
        if sw in not_for_add or not (f.dominates(sw, add_bb) or f.dominates(add_bb, sw)):
            continue
        sites = []
        core.scalar_leaves(prog, f, f.blocks[sw]['t']['o'], depth=0, sites=sites)
        for (name, fid, bb) in sites:
            if fid != f.id or name not in ('is_empty', 'len'):
                continue
            c = f.call_at(bb)
            if c is not None and c.args and op_local(c.args[0]) is not None and core.access_root(f, op_local(c.args[0])) == src:
                return True
    return False


def _u14_sites(prog, f, result, counter, depth):
    """[(fn, bb, counted?)] for every place in f (or in a helper that is handed `&mut result`) that adds entries to `result`;
    counted = an advance of `counter` (an assignment, or a helper handed `&mut counter`) on every path through that place"""
    if result is None:
        return []
    incs = []
    if counter is not None:
        by_ref = f.locals[counter]['s'].startswith('&mut')
        for (bb, si, kind, r) in f.defs().get(counter, []):
            if bb not in f.reachable():
                continue
            if kind == 'assign' and not (isinstance(r, dict) and r.get('k') == 'use' and op_const(r['o']) is not None):
                incs.append(bb)
            elif kind == 'partial' and by_ref:
                incs.append(bb)     # `*counter += ..` in a helper that got the counter by reference
    adds, nested = [], []
    for c in f.calls:
        if c.bb not in f.reachable() or not c.args:
            continue
        roots = [core.access_root(f, op_local(a)) if op_local(a) is not None else None for a in c.args]
        if c.name in ('extend', 'append', 'push', 'extend_from_slice') and roots[0] == result:
            adds.append(c.bb)
            continue
        tg = [t for t in prog.resolve(c) if t in prog.fns and not prog.fns[t].is_coroutine]
        if result in roots and tg and depth > 0 and not c.name.startswith('sort'):
            # a helper that is handed the result vector (and possibly the counter) by reference
            ri = roots.index(result)
            ci = roots.index(counter) if counter in roots else None
            sub = []
            for t in tg:
                g = prog.fns[t]
                sub += _u14_sites(prog, g, ri + 1, (ci + 1) if ci is not None else None, depth - 1)
            if sub:
                if all(ok for (_, _, ok) in sub):
                    nested.append((f, c.bb, True))
                elif ci is None:
                    adds.append(c.bb)       # the helper only adds; the caller has to count
                else:
                    nested += sub
    for (bb, si, kind, r) in f.defs().get(result, []):
        if kind in ('assign', 'call') and bb in f.reachable():
            # a whole-vector assignment from a call result (not the initial `Vec::new()`)
            if kind == 'call' and r.name not in ('new', 'with_capacity', 'default'):
                adds.append(bb)
            elif kind == 'assign' and r['k'] == 'use' and any(o.kind == 'call' and o.data.name not in ('new', 'with_capacity', 'default') for o in core.origins(f, r['o'])):
                adds.append(bb)
    out = list(nested)
    for a in sorted(set(adds)):
        out.append((f, a, any(f.dominates(a, i) or f.dominates(i, a) or _counted_when_nonempty(prog, f, i, a) for i in incs)))
    out.sort(key=lambda x: (x[0].id, x[1]))
    return out


def u14(ctx, rid):
    """the cross-blob merge (sort by timestamp, cut after the first marker) runs whenever the listed entries come from more than
    one blob: the counter that enables it is advanced at every place that adds a blob's entries to the result - the active blob
    included.  When a source is not counted, a key that lives in the active blob and in exactly one closed blob is listed
    unmerged (wrong order, a marker twice, a marker as a live entry) and the answer changes when the active blob is closed."""
    prog = ctx.prog
    n = 0
    for f in prog.fns.values():
        if not f.is_coroutine or f.file != 'src/storage/core.rs':
            continue
        def is_sort(c):
            return c.name.startswith('sort') and 'Entry' in c.full
        sorts = [c for c in f.calls if is_sort(c) and c.bb in f.reachable()]
        if not sorts:
            # the merge (sort + cut) may be a helper that is handed the result vector; the guard stays at the call site
            sorts = [c for c in f.calls if c.bb in f.reachable() and c.name != 'poll' and any(
                t in prog.fns and prog.fns[t].file == f.file and not prog.fns[t].is_coroutine and any(is_sort(x) for x in prog.fns[t].calls)
                for t in prog.resolve(c))]
        if not sorts:
            continue
        # the local that is compared with a constant and controls the sort
        counter = None
        for i in core.deciding_switches(f, sorts[0].bb):
            for o in core.origins(f, f.blocks[i]['t']['o']):
                if o.kind == 'binop' and o.data['op'] in ('Gt', 'Ge', 'Lt', 'Le', 'Ne', 'Eq'):
                    for side in ('a', 'b'):
                        l = op_local(o.data[side])
                        hops = 0
                        while l is not None and hops < 4:
                            if f.debug_name(l) and f.locals[l]['s'] in ('i32', 'u32', 'usize', 'u64', 'i64'):
                                counter = l
                                break
                            ds = [x for x in f.defs().get(l, []) if x[2] == 'assign' and x[3]['k'] == 'use']
                            l = op_local(ds[0][3]['o']) if len(ds) == 1 else None
                            hops += 1
        if counter is None:
            continue
        result = core.access_root(f, op_local(sorts[0].args[0])) if op_local(sorts[0].args[0]) is not None else None
        sites = _u14_sites(prog, f, result, counter, 2)
        for idx, (g, a, good) in enumerate(sites):
            n += 1
            key = 'every-source-counted|%s|%d' % (prog.fns[f.id].root, idx)
            if good:
                ctx.ok(rid, key, g.where(a), 'the blob that contributes entries here is counted (`%s`)' % f.debug_name(counter))
            else:
                ctx.bad(rid, key, g.where(a), 'entries of a blob are added to the result here without advancing `%s`, the counter that enables the cross-blob merge: with that blob plus exactly one other the list is returned unmerged' % f.debug_name(counter))
    if n < 2:
        raise core.AnchorLost('entry sources feeding a guarded cross-blob merge: %d' % n)


def u15(ctx, rid):
    """`read_all is that list without the marker`: the marker of a marker-terminated version list is its LAST element (the list
    is cut right after the first marker, C02.U5) and newer live versions stand in front of it.  Storage::read_all therefore
    decides on the last element and removes exactly that one: every is_deleted() test in it looks at `last()`, and the only
    removals from the list are `pop()` / `truncate(len - 1)`."""
    prog = ctx.prog
    f = prog.body_of('storage::core::Storage::<K>::read_all')
    if f is None:
        raise core.AnchorLost('Storage::read_all')
    fam = [prog.fns[x] for x in prog.family(prog.fns[f.id].root)]
    key = 'strips-exactly-the-trailing-marker|storage::core::Storage::<K>::read_all'
    bad = None
    tests = 0
    for g in fam:
        for c in g.calls:
            if c.bb not in g.reachable():
                continue
            if c.name == 'is_deleted' and c.args:
                tests += 1
                ogs = core.origins_ip(prog, g, c.args[0], depth=1)
                src = [o.data.name for o in ogs if o.kind == 'call']
                if not src and g.kind == 'Closure' and g.parent in prog.fns:
                    # `entries.last().map_or(false, |e| e.is_deleted())`: the element the closure is applied to is the receiver
                    # of the adaptor the closure is handed to
                    par = prog.fns[g.parent]
                    for c2 in par.calls:
                        if any(op_local(a) is not None and par.locals[op_local(a)].get('h') == 'closure' and par.locals[op_local(a)]['a'][0] == g.id for a in c2.args[1:]):
                            src += [o.data.name for o in core.origins(par, c2.args[0]) if o.kind == 'call']
                if not src or not all(n_ in ('last', 'last_mut', 'pop', 'next_back', 'split_last') for n_ in src):
                    bad = (c, 'the deletion test of read_all looks at `%s`, not at the last element of the marker-terminated list' % (src[0] if src else 'another element'))
            if c.path.startswith('std::vec::Vec') and 'Entry' in c.full and c.name in ('clear', 'retain', 'remove', 'drain', 'split_off', 'swap_remove', 'truncate', 'dedup_by', 'retain_mut'):
                if c.name == 'truncate' and len(c.args) > 1:
                    ok = False
                    for o in core.origins(g, c.args[1]):
                        if o.kind == 'binop' and o.data['op'].startswith('Sub'):
                            k = op_const(o.data['b'])
                            if k and k.get('int') == 1 and any(x.kind == 'call' and x.data.name == 'len' for x in core.origins(g, o.data['a'])):
                                ok = True
                    if ok:
                        continue
                bad = (c, 'read_all removes entries with `%s`, not exactly the one trailing marker (pop / truncate(len - 1)): live versions newer than a deletion disappear or the marker itself is returned' % c.name)
    if bad:
        ctx.bad(rid, key, bad[0].where(), bad[1])
    elif tests < 1:
        raise core.AnchorLost('is_deleted test in Storage::read_all')
    else:
        ctx.ok(rid, key, f.where(), 'is_deleted() asked of last(); removal by pop / truncate(len - 1)')


def u16(ctx, rid):
    """timestamps are supplied by the client, so the newest version or the deciding marker may sit in any blob: contains_with and
    read_with_optional_meta answer only with what the full traversal (Storage::get_latest_entry over the active blob and every
    candidate closed blob) returned - no shortcut answers from the active blob alone"""
    prog = ctx.prog
    n = 0
    for name in ('contains_with', 'read_with_optional_meta'):
        f = prog.body_of('storage::core::Storage::<K>::%s' % name)
        if f is None:
            raise core.AnchorLost('Storage::%s' % name)
        n += 1
        key = 'answer-from-full-traversal|storage::core::Storage::<K>::%s' % name
        full = [c for c in f.calls if c.bb in f.reachable() and any(t.endswith('Storage::<K>::get_latest_entry') for t in prog.resolve(c))]
        if not full:
            ctx.bad(rid, key, f.where(), 'the lookup does not go through Storage::get_latest_entry (the traversal of all blobs)')
            continue
        evs = []
        for c in full:
            ob = core.ok_block(f, c) or core.completion_block(f, c)
            if ob is not None:
                evs.append(ob)
        free = f.reach_from([0], avoid_enter=evs)
        early = [bb for (bb, k, _) in core.exit_defs(f) if k in ('ok', 'fwd', 'val') and bb in free and bb in f.reachable()]
        if early:
            ctx.bad(rid, key, f.where(early[0]), 'an Ok answer is returned without the traversal of all blobs having completed (a shortcut, e.g. from the active blob alone): a newer version or a newer deletion marker in a closed blob is ignored, contains disagrees with read and the duplicate check drops an acknowledged write')
        else:
            ctx.ok(rid, key, full[0].where(), 'every Ok answer follows the completed traversal')
    if n < 2:
        raise core.AnchorLost('storage point lookups: %d' % n)


def u17(ctx, rid):
    """an empty metadata map is a metadata map: `write(..)` stores records with an empty map and `read_with(key, &Meta::new())`
    asks for exactly those.  Whether a lookup or the duplicate check is restricted by metadata depends on the request being
    Some / None and on nothing else - no function of the lookup paths asks a Meta for its emptiness or size"""
    prog = ctx.prog
    n = 0
    bad = None
    for f in prog.fns.values():
        if not (f.file in ('src/blob/core.rs', 'src/storage/core.rs', 'src/blob/entry.rs')):
            continue
        n += 1
        for c in f.calls:
            if c.bb not in f.reachable() or c.name not in ('is_empty', 'len') or not c.args or op_local(c.args[0]) is None:
                continue
            ty = f.locals[op_local(c.args[0])]['s']
            if 'record::record::Meta' in ty or any('record::record::Meta' in t for t in prog.resolve(c)):
                bad = c
            # .. or the map inside it (a `Meta::is_empty` that was added and inlined: `self.0.is_empty()`)
            root_l = core.access_root(f, op_local(c.args[0]))
            if root_l is not None and root_l < len(f.locals) and 'record::record::Meta' in f.locals[root_l]['s'] and 'HashMap' in (c.path + c.full):
                bad = c
    if n < 50:
        raise core.AnchorLost('functions of the lookup paths: %d' % n)
    if bad:
        ctx.bad(rid, 'meta-restriction-is-some-or-none', bad.where(), 'the lookup path asks the requested metadata map for `%s`: an empty map is then treated like `no metadata requested`, read_with / the duplicate check answer with another version of the key' % bad.name)
    else:
        ctx.ok(rid, 'meta-restriction-is-some-or-none', '', 'no emptiness / size question on a Meta in %d functions of the lookup paths' % n, nontrivial=False, queries=n)


def _param_true_edges(f, name):
    """blocks entered where the bool parameter `name` of body f (or of its coroutine parent) is known to be true"""
    out = []
    for i in f.reachable():
        t = f.blocks[i]['t']
        if t['k'] != 'switch':
            continue
        ogs = core.origins(f, t['o'])
        neg = False
        if ogs and all(o.kind == 'unop' and o.data.get('op') == 'Not' for o in ogs):
            neg = True
            ogs = [x for o in ogs for x in core.origins(f, o.data['o'])]
        hit = False
        for o in ogs:
            if o.kind == 'arg' and f.debug_name(o.data) == name:
                hit = True
            if o.kind == 'upvar' and f.upvar_name(o.data) == name:
                hit = True
        if not hit or len(ogs) != 1:
            continue
        zero = [tg for v, tg in t['vals'] if v == 0]
        if neg:
            out += zero
        else:
            out.append(t['otherwise'])
    return out


def u18(ctx, rid):
    """`delete appends a marker to the active blob always`: an unconditional delete (only_if_presented == false) of a blob always
    appends - whatever the latest record of the key in that blob is (a second delete over an older marker moves the deletion
    forward in time).  In Blob::delete an Ok return that did not pass the append is reachable only through the
    `only_if_presented is true` edge."""
    prog = ctx.prog
    f = prog.body_of('blob::core::Blob::<K>::delete')
    if f is None:
        raise core.AnchorLost('Blob::delete')
    key = 'unconditional-delete-always-appends|blob::core::Blob::<K>::delete'
    L, E = prog.may_reach()
    apps = [c.bb for c in f.calls if c.bb in f.reachable() and c.name != 'poll' and any(
        t in prog.fns and any('write_append' in x for x in [t] + sorted(L.get(t, ()))) for t in prog.resolve(c))]
    cond = _param_true_edges(f, 'only_if_presented')
    exits = [bb for (bb, k, _) in core.exit_defs(f) if k in ('ok', 'fwd') and bb in f.reachable()]
    if not apps or not exits:
        raise core.AnchorLost('append / ok exits in Blob::delete')
    free = core.reach_from_cp(f, [0], avoid_exit=apps, avoid_enter=cond)
    skipped = [e for e in exits if e in free and not any(e in f.reach_from(f.after(a)) and e not in f.reach_from([0], avoid_exit=[a]) for a in apps)]
    skipped = [e for e in exits if e in free]
    if not cond:
        ctx.bad(rid, key, f.where(), 'Blob::delete does not branch on only_if_presented')
    elif skipped:
        ctx.bad(rid, key, f.where(skipped[0]), 'Blob::delete can return Ok without appending a marker although only_if_presented is false: an unconditional delete over a key whose latest record is already a marker (or is absent) is acknowledged and dropped - the deletion time does not move forward, a later write with a timestamp in between becomes visible')
    else:
        ctx.ok(rid, key, f.where(), 'every Ok return without an append lies behind the `only_if_presented` edge')


def u19(ctx, rid):
    """`write stores the record unless duplicates are disallowed and the same key and metadata is already live`: in the storage
    write path an Ok return that did not pass the append is reachable only after the duplicate check (contains_with) ran - no
    other shortcut (`this looks like a retry`) may acknowledge a write without storing it"""
    prog = ctx.prog
    f = prog.body_of('storage::core::Storage::<K>::write_with_optional_meta')
    if f is None:
        raise core.AnchorLost('Storage::write_with_optional_meta')
    key = 'ok-without-append-only-for-duplicates|storage::core::Storage::<K>::write_with_optional_meta'
    L, E = prog.may_reach()

    def reaches(c, suffix):
        if c.name == 'poll':
            return False
        for t in prog.resolve(c):
            if t.endswith(suffix):
                return True
            # a helper of the storage module that performs the step (`append_to_active_blob`, `is_duplicate`)
            if t in prog.fns and prog.fns[t].file == f.file and any(x.endswith(suffix) for x in L.get(t, ())):
                return True
        return False
    apps = [c.bb for c in f.calls if c.bb in f.reachable() and reaches(c, 'Blob::<K>::write')]
    dup = [c for c in f.calls if c.bb in f.reachable() and reaches(c, '::contains_with') and not reaches(c, 'Blob::<K>::write')]
    dup_ok = [x for x in (core.ok_block(f, c) or core.completion_block(f, c) for c in dup) if x is not None]
    exits = [bb for (bb, k, _) in core.exit_defs(f) if k in ('ok', 'fwd') and bb in f.reachable()]
    if not apps or not dup or not exits:
        raise core.AnchorLost('append / duplicate check / ok exits in write_with_optional_meta')
    free = f.reach_from([0], avoid_exit=apps, avoid_enter=dup_ok)
    early = [e for e in exits if e in free]
    if early:
        ctx.bad(rid, key, f.where(early[0]), 'a write can be acknowledged (Ok) without having been appended and without the duplicate check having found the record: a value that merely resembles the stored one (same timestamp, size, checksum) is dropped and later reads return other bytes')
    else:
        ctx.ok(rid, key, f.where(), 'every Ok return passes the append or the completed duplicate check')


def u20(ctx, rid):
    """C01.R8 instance: `delete` / `write` stamp the record with the timestamp the client passed"""
    import props.c01 as c01
    c01.r8(ctx, rid)


def u21(ctx, rid):
    """the metadata handed to `delete_with` is what the deletion marker will carry - it is not a search condition: no lookup in
    the delete path (get_latest_entry / get_entry / contains / read ..) receives it.  Used as a filter, a key that is live under
    other metadata looks absent, the conditional delete appends nothing and the key stays readable"""
    prog = ctx.prog
    LOOKUPS = ('get_latest_entry', 'get_entry_with_meta', 'get_entry', 'contains', 'contains_with', 'read_latest', 'get_any', 'get_latest', 'get_all', 'read_with', 'check_filter')
    n = 0
    bad = None
    for f in prog.fns.values():
        root = prog.fns[f.id].root
        last = root.rsplit('::', 1)[-1]
        if not (f.file in ('src/storage/core.rs', 'src/blob/core.rs') and last.startswith('delete')):
            continue
        n += 1
        for c in f.calls:
            if c.bb not in f.reachable() or c.name not in LOOKUPS:
                continue
            for a in c.args[1:]:
                l = op_local(a)
                if l is None or 'Meta' not in f.locals[l]['s']:
                    continue
                ogs = core.origins_ip(prog, f, a, depth=1)
                if any(o.kind in ('arg', 'upvar') and 'Meta' in (o.fn.locals[o.data]['s'] if o.kind == 'arg' and isinstance(o.data, int) else 'Meta') for o in ogs):
                    bad = c
    if n < 4:
        raise core.AnchorLost('delete bodies of the storage / blob code: %d' % n)
    if bad:
        ctx.bad(rid, 'marker-meta-is-not-a-filter', bad.where(), 'the metadata of the deletion marker is passed to the lookup `%s` as a search condition: a key that is live under other metadata is treated as absent and the conditional delete is dropped' % bad.name)
    else:
        ctx.ok(rid, 'marker-meta-is-not-a-filter', '', 'no lookup in %d delete bodies receives the marker metadata' % n, nontrivial=False, queries=n)


RULES = [
    Rule('C02.U1', 'the append in the write path is dominated by the duplicate policy branch; a found duplicate is acknowledged without storing', u1, 1),
    Rule('C02.U2', 'closed blobs are only ever marked with only_if_presented = true', u2, 2),
    Rule('C02.U3', 'version lists are merged with a stable sort', u3, 1),
    Rule('C02.U4', 'a deletion marker is appended only unconditionally or when the blob\'s latest record is live', u4, 1),
    Rule('C02.U5', 'version lists are cut immediately after the first deletion marker (per blob and across blobs)', u5, 2),
    Rule('C02.U7', 'the Deleted answer of the per-blob meta lookup is taken from the marker-terminated version list', u7, 1),
    Rule('C02.U8', 'metadata equality in the meta lookup is decided on decoded maps, never on serialized bytes', u8, 1),
    Rule('C02.U9', 'on-disk version lists: leaf cursors move by whole record headers (C04.T12 instances)', u9, 4),
    Rule('C02.U10', 'equal timestamps: the in-memory insertion position is behind every record with the same timestamp (append recency)', u10, 1),
    Rule('C02.U11', 'the cross-blob merge keeps the first-seen result on ties and ranks NotFound below every record (C01.R3 instances)', u11, 2),
    Rule('C02.U12', 'a plain write passes None metadata to the duplicate check', u12, 1),
    Rule('C02.U13', 'delete_core visits the closed blobs on every path that returns Ok', u13, 1),
    Rule('C02.U14', 'every blob that contributes entries advances the counter that enables the cross-blob merge', u14, 2),
    Rule('C02.U15', 'read_all strips exactly the trailing deletion marker of the marker-terminated list', u15, 1),
    Rule('C02.U16', 'the storage point lookups answer only after the traversal of all blobs completed', u16, 2),
    Rule('C02.U17', 'whether a lookup is restricted by metadata depends on Some / None only (an empty map is a map)', u17, 1),
    Rule('C02.U20', 'delete and write stamp the record with the client timestamp (C01.R8 instance)', u20, 2),
    Rule('C02.U21', 'the metadata of a deletion marker is never used as a lookup filter', u21, 1),
    Rule('C02.U18', 'an unconditional delete of a blob always appends a marker', u18, 1),
    Rule('C02.U19', 'a write is acknowledged without an append only after the duplicate check', u19, 1),
    Rule('C02.U6', 'the point lookup consults every candidate closed blob before it returns Ok', u6, 1),
]
