"""C05 Byte integrity: audit before return, validation of scanned headers, header patch table."""
import core
import prims
from core import op_local, op_const, Summ
from engine import Rule

EXPLANATION = (
    "V1: every function that reads record data bytes from a blob file and hands them out (Entry::load, Entry::load_data, the tools' "
    "BlobReader::read_single_record, the start-up scan when data validation is on) has each ok-return dominated by the ok edge of "
    "Header::data_checksum_audit, directly or through a must-summary (Record::validate). V2: a header obtained by deserialising file "
    "bytes during a scan is accepted only after Header::validate ok (magic + header CRC). V3: the two positions patched into the "
    "serialized header at reservation time (blob_offset_offset, checksum_offset: `len - c` read from MIR) equal the sizes of the "
    "trailing fields of record::Header under bincode's fixed-width encoding. V4: data_checksum_audit and check_header_checksum return "
    "Ok only through the equal edge of a comparison between the CRC computed now and the stored one. V5: the checksum patched into "
    "the header at reservation time is computed after the offset was patched. Decides this audit structure, not byte-exact round "
    "trips or the detection probability of CRC32C.")
EXPLANATION += (" " + 'V7 in the sequential scan the data read is only reached after the cursor was advanced by the header size and by meta_size() (layout header, meta, data).')
ASSUMPTIONS = ["bincode legacy fixed-int encoding (checked under C17.Z1): u64=8, u32=4, u8=1 bytes"]

AUDIT = 'record::record::Header::data_checksum_audit'
HVALID = 'record::record::Header::validate'


def only_err_from(f, b):
    reach = core.reach_from_cp(f, [b])
    kinds = [k for (bb, k, _) in core.exit_defs(f) if bb in reach]
    return bool(kinds) and all(k == 'err' for k in kinds)


def v1(ctx, rid):
    prog = ctx.prog
    S = Summ(prog, lambda c: AUDIT in prog.resolve(c))
    targets = ['blob::entry::Entry::load', 'blob::entry::Entry::load_data', 'tools::blob_reader::BlobReader::read_single_record']
    for t in targets:
        f = prog.fns.get(t)
        if f is None:
            raise core.AnchorLost(t)
        key = 'audit-before-return|%s' % t
        if S.must(t):
            ctx.ok(rid, key, f.where(), 'every ok-return preceded by an ok data checksum audit', queries=S.queries)
        else:
            b = prog.body_of(t)
            ev = S.memo.get(t, (False, []))[1]
            exits = [bb for (bb, k, _) in core.exit_defs(b) if k in ('ok', 'fwd', 'val') and bb in b.reachable()]
            p = b.path([0], exits, avoid_enter=ev) or []
            ctx.bad(rid, key, f.where(), 'record data read from the blob file can be returned without its checksum having been audited: altered bytes are served as a successful read',
                    witness=['bb%d %s' % (x, b.where(x)) for x in p])
    # universal part: any other in-crate function that reads from a blob file at data_offset()/meta_offset() and returns bytes/Record
    for f in prog.fns.values():
        if f.root != f.id or f.id in targets or not (f.file.startswith('src/blob/') or f.file.startswith('src/storage/')):
            continue
        b = prog.body_of(f.id)
        if b is None:
            continue
        ret = b.locals[0]['s']
        if not ('record::record::Record' in ret or 'bytes::Bytes' in ret):
            continue
        reads = [c for c in b.calls if c.name in ('read_exact_at', 'read_exact_at_allocate', 'read_all') and 'File' in c.path]
        offs = [c for c in b.calls if c.name in ('data_offset', 'meta_offset')]
        # the checksum covers the data only: a helper that reads just the metadata region (meta_offset, meta_size) has nothing to audit
        touches_data = [c for c in b.calls if c.name in ('data_offset', 'data_size')]
        if reads and offs and touches_data:
            key = 'audit-before-return|%s' % f.id
            if S.must(f.id):
                ctx.ok(rid, key, f.where(), 'audited')
            else:
                ctx.bad(rid, key, f.where(), 'a function reads record bytes at data_offset()/meta_offset() and returns them without an audit')
    # start-up scan with data validation: the data read in the scan step is audited in the loop before the header is accepted
    ld = prog.body_of('blob::core::RawRecords::load')
    if ld is None:
        raise core.AnchorLost('RawRecords::load')
    key = 'scan-audits-data|blob::core::RawRecords::load'
    audits = [c for c in ld.calls if AUDIT in prog.resolve(c)]
    pushes = [c for c in ld.calls if c.name == 'push' and c.path.startswith('std::vec::Vec')]
    if not audits or not pushes:
        ctx.bad(rid, key, ld.where(), 'the start-up scan has no data checksum audit')
    else:
        okb = [core.ok_block(ld, c) for c in audits]
        # the audit is conditional on data having been read (Some edge): on the Some edge the push is dominated by audit ok
        some_edges = []
        for i in ld.reachable():
            t = ld.blocks[i]['t']
            if t['k'] == 'switch':
                for o in core.origins(ld, t['o']):
                    if o.kind == 'discr' and (core.place_type_str(ld, o.data['p']) or '').startswith('std::option::Option<bytes::BytesMut'):
                        for v, tg in t['vals']:
                            if v == 1:
                                some_edges.append(tg)
        good = bool(some_edges) and None not in okb
        for se in some_edges:
            reach = ld.reach_from([se], avoid_enter=[x for x in okb if x is not None])
            if any(p.bb in reach for p in pushes):
                good = False
        if good:
            ctx.ok(rid, key, audits[0].where(), 'when data was read, the header is accepted only after audit ok')
        else:
            ctx.bad(rid, key, ld.where(), 'with data validation on, a scanned record can be accepted without its data checksum having been audited')


def v2(ctx, rid):
    prog = ctx.prog
    for t, label in (('blob::core::RawRecords::read_current_record', 'start-up scan'), ('tools::blob_reader::BlobReader::read_single_record', 'tools reader')):
        b = prog.body_of(t)
        if b is None:
            raise core.AnchorLost(t)
        key = 'header-validated|%s' % t
        SV = Summ(prog, lambda c: HVALID in prog.resolve(c))
        if not SV.must(t):
            ctx.bad(rid, key, b.where(), 'the %s can accept a record header deserialised from file bytes without magic + header-CRC validation' % label)
        else:
            ctx.ok(rid, key, b.where(), 'every ok-return preceded by Header::validate ok (in the body or in a helper it `?`-s)')
    # Header::validate = magic + checksum
    hv = prog.fns.get(HVALID)
    S1 = Summ(prog, lambda c: c.name == 'check_magic_byte')
    S2 = Summ(prog, lambda c: c.name == 'check_header_checksum')
    if S1.must(HVALID) and S2.must(HVALID):
        ctx.ok(rid, 'validate=magic+crc', hv.where(), 'Header::validate returns Ok only after both checks passed')
    else:
        ctx.bad(rid, 'validate=magic+crc', hv.where(), 'Header::validate can return Ok without checking %s' % ('the magic byte' if not S1.must(HVALID) else 'the header checksum'))


SIZES = {'u8': 1, 'u16': 2, 'u32': 4, 'u64': 8, 'i64': 8, 'usize': 8, 'bool': 1, 'i32': 4, 'u128': 16}


def v3(ctx, rid):
    prog = ctx.prog
    adt = prog.adts.get('record::record::Header')
    if not adt:
        raise core.AnchorLost('record::Header ADT')
    fields = [(fl['name'], fl['ty']['s']) for fl in adt['variants'][0]['fields']]
    # trailing fixed-size fields
    def tail_size(from_name):
        names = [n for n, _ in fields]
        if from_name not in names:
            return None
        tot = 0
        for n, t in fields[names.index(from_name):]:
            if t not in SIZES:
                return None
            tot += SIZES[t]
        return tot
    for fn_name, field in (('blob_offset_offset', 'blob_offset'), ('checksum_offset', 'header_checksum')):
        f = prog.fns.get('record::record::Header::%s' % fn_name)
        if f is None:
            raise core.AnchorLost(fn_name)
        key = 'patch-position|%s' % fn_name
        consts = []
        for b in f.blocks:
            for s in b['s']:
                if s['k'] == 'a' and s['r']['k'] == 'bin' and s['r']['op'] in ('Sub', 'SubWithOverflow'):
                    k = op_const(s['r']['b'])
                    if k and 'int' in k:
                        consts.append(k['int'])
        want = tail_size(field)
        if want is None:
            ctx.bad(rid, key, f.where(), 'field `%s` of record::Header is no longer followed only by fixed-width fields: its position cannot be addressed from the end of the serialized header' % field)
        elif consts == [want]:
            ctx.ok(rid, key, f.where(), '`len - %d` == size of the trailing fields from `%s` (%s)' % (want, field, [n for n, _ in fields[[n for n, _ in fields].index(field):]]))
        else:
            ctx.bad(rid, key, f.where(), 'the patch position `len - %s` does not match the layout of record::Header (trailing size from `%s` is %d): the offset / checksum is patched into the wrong bytes' % (consts, field, want))
    # the patched widths: blob_offset is u64, checksum u32
    tys = dict(fields)
    if tys.get('blob_offset') == 'u64' and tys.get('header_checksum') == 'u32':
        ctx.ok(rid, 'patch-widths', '', 'blob_offset: u64, header_checksum: u32')
    else:
        ctx.bad(rid, 'patch-widths', '', 'patched field widths changed: %s / %s' % (tys.get('blob_offset'), tys.get('header_checksum')))


def v4(ctx, rid):
    prog = ctx.prog
    for fid, stored in ((AUDIT, 'data_checksum'), ('record::record::Header::check_header_checksum', 'header_checksum')):
        f = prog.fns.get(fid)
        if f is None:
            raise core.AnchorLost(fid)
        key = 'ok-only-on-equal|%s' % fid
        exits = [bb for (bb, k, _) in core.exit_defs(f) if k == 'ok' and bb in f.reachable()]
        eq_edges = []
        for i, b in enumerate(f.blocks):
            if b['c'] or i not in f.reachable():
                continue
            for s in b['s']:
                if s['k'] == 'a' and s['r']['k'] == 'bin' and s['r']['op'] in ('Eq', 'Ne'):
                    oa = core.origins(f, s['r']['a'], stop_fields=True)
                    ob = core.origins(f, s['r']['b'], stop_fields=True)
                    has_stored = any(o.kind == 'field' and o.data[1] == stored for o in oa + ob)
                    has_calc = any(o.kind == 'call' and o.data.name in ('checksum', 'crc32') for o in oa + ob)
                    if has_stored and has_calc:
                        carry = core.flows_forward(f, s['d'][0])
                        for j in f.reachable():
                            t = f.blocks[j]['t']
                            if t['k'] == 'switch' and op_local(t['o']) in carry:
                                for v, tg in t['vals'] + [[None, t['otherwise']]]:
                                    is_true = (v is None and all(x == 0 for x, _ in t['vals'])) or (v is not None and v != 0)
                                    if (s['r']['op'] == 'Eq') == is_true:
                                        eq_edges.append(tg)
        if not eq_edges:
            ctx.bad(rid, key, f.where(), 'no comparison between the freshly computed CRC and the stored `%s` decides the result' % stored)
        elif any(e in f.reach_from([0], avoid_enter=eq_edges) for e in exits):
            ctx.bad(rid, key, f.where(), 'Ok can be returned without the computed CRC having been found equal to the stored `%s` (a short-cut path skips the audit)' % stored)
        else:
            ctx.ok(rid, key, f.where(), 'Ok is returned only on the equal edge of `computed == stored %s`' % stored)


def v5(ctx, rid):
    prog = ctx.prog
    f = prog.fns.get('record::partially_serialized::PartiallySerializedRecord::finalize_with_checksum')
    if f is None:
        raise core.AnchorLost('finalize_with_checksum')
    key = 'crc-after-offset-patch'
    copies = [c for c in f.calls if c.name == 'copy_from_slice']
    crcs = [c for c in f.calls if c.name == 'checksum']
    if len(copies) < 3 or len(crcs) != 1:
        ctx.bad(rid, key, f.where(), 'unexpected shape: %d patches, %d checksum computations' % (len(copies), len(crcs)))
        return
    crc = crcs[0]
    # the offset patch (source originates in the blob_offset parameter) precedes the checksum; the checksum patch follows it
    off_patch = [c for c in copies if any(o.kind == 'arg' and o.data == 3 for o in core.origins(f, c.args[1])) or any(o.kind == 'call' and o.data.name == 'to_le_bytes' and any(x.kind == 'arg' for x in core.origins(f, o.data.args[0])) for o in core.origins(f, c.args[1]))]
    crc_patch = [c for c in copies if any(o.kind == 'call' and o.data.bb == crc.bb for o in core.origins(f, c.args[1])) or any(o.kind == 'call' and o.data.name == 'to_le_bytes' and any(x.kind == 'call' and x.data.bb == crc.bb for x in core.origins(f, o.data.args[0])) for o in core.origins(f, c.args[1]))]
    if not off_patch or not crc_patch:
        ctx.bad(rid, key, f.where(), 'offset patch / checksum patch not found (offset patches: %d, checksum patches: %d)' % (len(off_patch), len(crc_patch)))
        return
    ok = all(f.term_dominates(p.bb, crc.bb) for p in off_patch) and all(f.term_dominates(crc.bb, p.bb) for p in crc_patch)
    # the returned checksum is the computed one
    ret = core.origins(f, 0)
    ok = ok and any(o.kind == 'call' and o.data.bb == crc.bb for o in ret + [x for o in ret if o.kind == 'agg' for op in o.data['ops'] for x in core.origins(f, op)])
    if ok:
        ctx.ok(rid, key, crc.where(), 'blob_offset patched, then CRC computed over the header, then CRC patched and returned')
    else:
        ctx.bad(rid, key, crc.where(), 'the header CRC is not computed after the offset patch / not the one patched and returned: stored headers fail validation or carry a stale offset')


def v6(ctx, rid):
    """a record written as two buffers (head, then data) is written head first: the OS write of the second buffer of
    WritableData::Double is sequenced after the ok completion of the write of the first one (on an O_APPEND file the kernel
    appends in call order, whatever offset is passed)"""
    prog = ctx.prog
    n = 0
    for f in prog.fns.values():
        if f.root != f.id or not f.file.startswith('src/io/'):
            continue
        fam = [prog.fns[x] for x in prog.family(f.id)]
        writes = []
        for g in fam:
            for c in g.calls:
                if prims.is_raw(c, prims.RAW_WRITE_AT) and len(c.args) > 1:
                    idx = None
                    for o in core.origins_ip(prog, g, c.args[1], depth=0):
                        if o.kind == 'field' or o.kind == 'arg' or o.kind == 'upvar':
                            pass
                    # which field of the Double variant does the buffer come from
                    l = op_local(c.args[1])
                    seen = set()
                    work = [(g, l)]
                    while work:
                        gg, ll = work.pop()
                        if (gg.id, ll) in seen or ll is None:
                            continue
                        seen.add((gg.id, ll))
                        for (bb, si, kind, r) in gg.defs().get(ll, []):
                            if kind == 'assign' and r['k'] in ('use', 'ref'):
                                p = r['p'] if r['k'] == 'ref' else core.op_place(r['o'])
                                if p is None:
                                    continue
                                vs = [e for e in p[1] if isinstance(e, dict) and 'v' in e]
                                fs = [e for e in p[1] if isinstance(e, dict) and 'f' in e]
                                if vs and vs[-1]['n'] == 'Double' and fs:
                                    idx = fs[-1]['f']
                                elif p[0] == 1 and gg.kind == 'Closure' and fs:
                                    # upvar of a closure: follow to the construction site
                                    for (par, pb, agg) in core.closure_construction_sites(prog, gg.id):
                                        if fs[0]['f'] < len(agg['ops']):
                                            work.append((par, op_local(agg['ops'][fs[0]['f']])))
                                else:
                                    work.append((gg, p[0]))
                            elif kind == 'call' and r.name in ('deref', 'as_ref', 'borrow') and r.args:
                                work.append((gg, op_local(r.args[0])))
                    if idx is not None:
                        writes.append((g, c, idx))
        firsts = [(g, c) for (g, c, i) in writes if i == 0]
        seconds = [(g, c) for (g, c, i) in writes if i == 1]
        if not firsts and not seconds:
            continue
        n += 1
        key = 'head-before-data|%s' % f.id
        good = bool(firsts) and bool(seconds)
        why = 'the two buffers of a Double record are not both written'
        for (g2, c2) in seconds:
            ok2 = False
            for (g1, c1) in firsts:
                if g1.id == g2.id:
                    ob = core.ok_block(g1, c1)
                    if ob is not None and c2.bb not in g1.reach_from([0], avoid_enter=[ob]):
                        ok2 = True
                else:
                    # second write lives in a closure handed to and_then() of the first write's result
                    carry = core.result_flow(g1, c1)
                    for x in g1.calls:
                        if x.name == 'and_then' and x.args and op_local(x.args[0]) in carry:
                            for a in x.args[1:]:
                                la = op_local(a)
                                if la is not None and g1.locals[la].get('h') == 'closure' and g1.locals[la]['a'][0] == g2.id:
                                    ok2 = True
            if not ok2:
                good = False
                why = 'the data buffer of a two-buffer record can reach the OS before (or regardless of) the successful write of its head: on a reopened (O_APPEND) blob the bytes land in call order and the record is stored as data-then-header'
        if good:
            ctx.ok(rid, key, firsts[0][1].where(), 'data buffer written only after the head was written successfully')
        else:
            ctx.bad(rid, key, (seconds or firsts)[0][1].where(), why)
    if n < 1:
        raise core.AnchorLost('two-buffer write site')


def cursor_advances(prog, f, field='current_offset'):
    """blocks that add something to the scan cursor: {block: set of what is added ('field:<name>' / 'call:<name>')}"""
    out = {}
    for i, b in enumerate(f.blocks):
        if b['c'] or i not in f.reachable():
            continue
        for s in b['s']:
            if s['k'] != 'a' or core.place_fields(s['d'])[-1:] != [field]:
                continue
            what = set()
            for o in core.rvalue_operands(s['r']):
                for (k, v) in core.scalar_leaves(prog, f, o, depth=0):
                    if k == 'field' and v != field:
                        what.add('field:%s' % v)
                    elif k == 'call':
                        what.add('call:%s' % v)
            if what:
                out.setdefault(i, set()).update(what)
    return out


def v7(ctx, rid):
    """the sequential scan reads a record's data where the writer put it: the data read is only reached after the cursor was
    advanced by the header size and by the header's meta_size (layout: header, meta, data - Header::data_offset of the writer)"""
    prog = ctx.prog
    n = 0
    for f in prog.fns.values():
        if not f.id.endswith('RawRecords::read_current_record::{closure#0}'):
            continue
        adv = cursor_advances(prog, f)
        def io_read(c):
            return c.name.startswith('read_exact_at') and c.path.startswith('io::')

        def reads_file(c, depth=2):
            # the read itself, or a helper of the scan (same file) that performs it at the cursor it finds
            if io_read(c):
                return True
            if depth <= 0:
                return False
            for t in prog.resolve(c):
                g = prog.body_of(t) if t in prog.fns else None
                if g is not None and g.id != f.id and g.file == f.file and any(reads_file(x, depth - 1) for x in g.calls if x.bb in g.reachable()):
                    return True
            return False
        reads = [c for c in f.calls if c.bb in f.reachable() and c.name != 'poll' and reads_file(c)]
        val = [c for c in f.calls if c.name == 'validate' and 'Header' in c.path]
        data_reads = [c for c in reads if val and c.bb in f.reach_from(f.after(val[0].bb))]
        for c in data_reads:
            n += 1
            key = 'data-read-at-data-offset|%s' % prog.fns[f.id].root
            hdr = [b for b, w in adv.items() if 'field:record_header_size' in w or 'call:serialized_size' in w]
            meta = [b for b, w in adv.items() if 'call:meta_size' in w]
            miss = []
            if not hdr or c.bb in f.reach_from([0], avoid_exit=hdr):
                miss.append('the header size')
            if not meta or c.bb in f.reach_from([0], avoid_exit=meta):
                miss.append('meta_size()')
            if miss:
                ctx.bad(rid, key, c.where(), 'the record data is read at a cursor that was not advanced by %s on every path: the bytes read are not the record\'s data (with checksum validation every record with meta fails the audit and a valid blob is reported corrupted)' % ' and '.join(miss))
            else:
                ctx.ok(rid, key, c.where(), 'cursor advanced by header size and meta_size before the data read')
    if n < 1:
        raise core.AnchorLost('data read of the sequential scan: %d' % n)


FLAG = 'validate_data_during_index_regen'


def _flag_only(prog, f, operand):
    """the bool operand is, through parameters and upvars of every caller, the configured flag and nothing else"""
    ogs = core.origins_ip(prog, f, operand, depth=3, stop_fields=True)
    if not ogs:
        return False, 'nothing'
    for o in ogs:
        if o.kind == 'field' and o.data[1] == FLAG:
            continue
        if o.kind == 'call' and o.data.name == FLAG:
            continue
        if o.kind == 'arg':
            continue    # an untraceable entry parameter (builder / setter): checked by V9
        return False, ('%s %s' % (o.kind, o.data.name if o.kind == 'call' else str(o.data)[:40]))
    return True, None


def v8(ctx, rid):
    """"quarantined at start-up when data validation is enabled": the flag that switches the data-checksum audit of the
    regeneration scan on is the configured flag and nothing else - every call that hands a validation flag to the scan
    (raw_records / RawRecords::start) passes a value whose only leaf is the field validate_data_during_index_regen"""
    prog = ctx.prog
    n = 0
    for f in prog.fns.values():
        for c in f.calls:
            if c.bb not in f.reachable() or c.name == 'poll':
                continue
            tg = [t for t in prog.resolve(c) if t in prog.fns and (t.endswith('Blob::<K>::raw_records') or t.endswith('RawRecords::start'))]
            if not tg:
                continue
            bools = [a for a in c.args if op_local(a) is not None and f.locals[op_local(a)]['s'] == 'bool' or (core.op_const(a) is not None and core.op_const(a).get('ty') == 'bool')]
            for a in bools:
                n += 1
                key = 'validation-flag-is-config|%s|%s' % (prog.fns[f.id].root, c.name)
                lv = core.scalar_leaves(prog, f, a, depth=0)
                fields = {v for k, v in lv if k == 'field'}
                args_ = {v for k, v in lv if k in ('arg', 'upvar')}
                other = {(k, v) for k, v in lv if k not in ('field', 'arg', 'upvar')}
                if args_ and not fields and not other:
                    # a parameter carries the flag: what do the callers hand over (a constant `false` for one of them switches the
                    # audit off for that path)
                    okf, why = _flag_only(prog, f, a)
                    if not okf:
                        other = {('caller', str(why))}
                if (fields == {'validate_data_during_index_regen'} and not other and not args_) or (not fields and not other and args_):
                    ctx.ok(rid, key, c.where(), 'the flag is the configured validate_data_during_index_regen (or a parameter carrying it)')
                else:
                    ctx.bad(rid, key, c.where(), 'the data-validation flag handed to the blob scan depends on %s besides the configured flag: with validation enabled a blob whose data bytes were altered can be re-indexed without the audit and is not quarantined' % sorted(str(x) for x in (other | {('field', x) for x in fields - {'validate_data_during_index_regen'}})))
    if n < 2:
        raise core.AnchorLost('validation flag hand-overs to the scan: %d' % n)


def option_reaches_config(ctx, rid, field, builder_method):
    """a configuration option keeps the value the user gave it: (a) the builder method hands its argument to the Config setter on
    every path, (b) outside `Default` impls every construction / store of a config struct's `field` takes it from the setter's
    parameter or from the same field of another config value - never from a constant or a Default::default()"""
    prog = ctx.prog
    n = 0
    for f in prog.fns.values():
        if f.id != prog.fns[f.id].root or not f.id.endswith('Builder::' + builder_method):
            continue
        n += 1
        key = 'builder-forwards|%s' % f.id
        sets = [c for c in f.calls if c.bb in f.reachable() and c.name == builder_method and 'Config' in c.path]
        rets = [i for i in f.reachable() if f.blocks[i]['t']['k'] == 'return']
        if not sets:
            ctx.bad(rid, key, f.where(), 'the builder method does not call the Config setter')
        elif any(r in f.reach_from([0], avoid_exit=[c.bb for c in sets]) for r in rets):
            ctx.bad(rid, key, f.where(), 'the builder can return without handing the value to the configuration (a value is rejected or skipped): the storage then runs with the default instead of the configured value')
        else:
            ctx.ok(rid, key, sets[0].where(), 'argument forwarded to the Config setter on every path')
    for adt in [a for a in prog.adts if a.endswith('::Config') or a.endswith('::BlobConfig')]:
        for (f, bb, o, how) in core.field_sources(prog, adt, field):
            root = prog.fns[prog.fns[f.id].root]
            n += 1
            key = 'field-keeps-user-value|%s|%s' % (adt.split('::')[-1], root.id)
            if (root.trait_item or '').startswith('std::default::Default::'):
                ctx.ok(rid, key, f.where(bb), 'Default impl', nontrivial=False)
                continue
            ogs = core.origins(f, o, stop_fields=True) if o is not None else []
            good = [x for x in ogs if x.kind == 'arg' or (x.kind == 'field' and x.data[1] == field) or x.kind == 'upvar']
            base = core.origins(f, o) if o is not None else []
            fresh = [x for x in base if x.kind == 'call' and x.data.name in ('default', 'new') and x.data.crate != 'pearl' or (x.kind == 'call' and x.data.name == 'default')]
            if fresh:
                good = []
                ogs = fresh
            if ogs and len(good) == len(ogs):
                ctx.ok(rid, key, f.where(bb), 'value comes from the parameter / the same field of another config value')
            else:
                ctx.bad(rid, key, f.where(bb), 'a config value is built / overwritten in `%s` with `%s` taken from %s: a previously configured value is silently replaced' % (root.id.split('::')[-1], field, [repr(x)[:60] for x in ogs if x not in good][:2] or 'nothing'))
    # (c) every value handed to a constructor parameter that becomes the field is the configured flag and nothing else
    if field == FLAG:
        for f in prog.fns.values():
            for c in f.calls:
                if c.bb not in f.reachable() or c.name == 'poll' or not any(t.endswith('BlobConfig::new') for t in prog.resolve(c) if t in prog.fns):
                    continue
                for a in c.args:
                    l = op_local(a)
                    if (l is not None and f.locals[l]['s'] == 'bool') or (core.op_const(a) or {}).get('ty') == 'bool':
                        n += 1
                        key = 'constructor-gets-the-flag|%s' % prog.fns[f.id].root
                        okf, why = _flag_only(prog, f, a)
                        if okf:
                            ctx.ok(rid, key, c.where(), 'the blob config is built with the configured flag')
                        else:
                            ctx.bad(rid, key, c.where(), 'a blob config is built with a validation flag that depends on `%s` besides the configured value: for some blobs the data audit of the start-up scan is switched off although it was requested' % why)
    if n < 3:
        raise core.AnchorLost('configuration plumbing of %s: %d' % (field, n))


def v9(ctx, rid):
    option_reaches_config(ctx, rid, 'validate_data_during_index_regen', 'set_validate_data_during_index_regen')


def v10(ctx, rid):
    """"reading that record fails with an error": an error of Entry::load / load_data in a storage read path is never turned into a
    successful answer - from the Err edge of the load no Ok return is reachable"""
    prog = ctx.prog
    n = 0
    for f in prog.fns.values():
        if f.file != 'src/storage/core.rs' or not f.is_coroutine:
            continue
        for c in f.calls:
            if c.name == 'poll' or c.bb not in f.reachable() or not any(t in ('blob::entry::Entry::load', 'blob::entry::Entry::load_data') for t in prog.resolve(c)):
                continue
            n += 1
            key = 'load-error-propagates|%s|%s' % (prog.fns[f.id].root, c.name)
            edges = core.err_edge(f, c)
            oks = [bb for (bb, k, _) in core.exit_defs(f) if k == 'ok' and bb in f.reachable()]
            if edges and any(o in f.reach_from(edges) for o in oks):
                ctx.bad(rid, key, c.where(), 'an error of `%s` (e.g. a data checksum mismatch) can end in an Ok answer of the read: altered bytes are reported as NotFound / served instead of failing' % c.name)
            else:
                ctx.ok(rid, key, c.where(), 'the Err edge only reaches error returns')
    if n < 1:
        raise core.AnchorLost('Entry::load calls in storage read paths: %d' % n)


def v11(ctx, rid):
    """the sizes written into a record header are the lengths of the bytes the same serializer produces: Meta::serialized_size and
    Header::serialized_size ask bincode (serialized_size / the length of the serialized buffer), they do not re-compute the
    encoding by hand (a hand count of characters instead of bytes shifts data_offset into the metadata)"""
    prog = ctx.prog
    n = 0
    for f in prog.fns.values():
        if f.file != 'src/record/record.rs' or f.id != prog.fns[f.id].root or not f.id.endswith('::serialized_size'):
            continue
        n += 1
        key = 'size-from-serializer|%s' % f.id
        calls = [c for g in prog.family(f.id) for c in prog.fns[g].calls if c.bb in prog.fns[g].reachable()]
        asks = [c for c in calls if c.decl_crate == 'bincode' and c.name in ('serialized_size', 'serialize', 'serialize_into')]
        hand = [c for c in calls if c.name in ('chars', 'count', 'len', 'size_of', 'size_of_val') and not c.from_expansion]
        if asks and not hand:
            ctx.ok(rid, key, f.where(), 'asks bincode')
        else:
            ctx.bad(rid, key, f.where(), 'the serialized size is computed by hand (%s) instead of by the serializer that writes the bytes: when the two disagree, meta_size / data_offset point into the wrong bytes and the record does not read back' % sorted({c.name for c in hand}))
    if n < 2:
        raise core.AnchorLost('serialized_size functions in src/record/record.rs: %d' % n)


def v12(ctx, rid):
    """a buffer that was used before and is handed to a positional exact read again has been given the length of what is to be
    read on every path: read_exact_at fills the whole buffer, so a buffer that keeps a larger previous length reads bytes of the
    next record too and the data checksum of an intact record no longer matches (intact blobs fail the start-up validation)"""
    prog = ctx.prog
    n = 0
    for f in prog.fns.values():
        if not (f.file.startswith('src/blob/') or f.file.startswith('src/tools/')):
            continue
        for c in f.calls:
            if c.bb not in f.reachable() or c.name not in ('read_exact_at', 'read_exact') or len(c.args) < 2:
                continue
            l = op_local(c.args[1])
            if l is None:
                continue
            root = core.access_root(f, l)
            sizers = [r for r in f.calls if r.bb in f.reachable() and r.name in ('resize', 'truncate', 'set_len', 'resize_with') and r.args
                      and op_local(r.args[0]) is not None and core.access_root(f, op_local(r.args[0])) == root and r.bb != c.bb]
            earlier = [r for r in sizers if c.bb in f.reach_from([r.bb])]
            if not earlier:
                continue    # a fresh buffer (allocated with its length): nothing to re-size
            n += 1
            key = 'reused-buffer-resized|%s|%s' % (prog.fns[f.id].root, c.name)
            dom = [r for r in earlier if r.name in ('resize', 'resize_with') and f.dominates(r.bb, c.bb)]
            exact = []
            for r in earlier:
                if r in dom or r.name not in ('resize', 'resize_with'):
                    continue
                # `if buf.len() != n { buf.resize(n) }` is the same thing
                for sw in core.deciding_switches(f, r.bb):
                    kind, og = core.switch_kind(f, sw)
                    if kind == 'value' and og and all(o.kind == 'binop' and o.data.get('op') in ('Ne', 'Eq') for o in og) and f.dominates(sw, c.bb):
                        exact.append(r)
            if dom or exact:
                ctx.ok(rid, key, c.where(), 'the buffer is resized on every path before the read')
            else:
                ctx.bad(rid, key, c.where(), 'the reused buffer is not resized on every path before `%s` fills it: where it keeps a larger '
                        'previous length the read runs into the following bytes and the checksum of an intact record fails' % c.name)
    if n < 1:
        raise core.AnchorLost('reads into a reused buffer in src/blob, src/tools: %d' % n)


def v13(ctx, rid):
    """`every value and metadata map is returned as written`, deletion records included: a deletion is written into several
    blobs (the active blob and every closed blob that holds the key) and each of these records carries the caller's metadata
    map.  The per-blob closures therefore hand over a copy (`clone`) of the map; a value *moved out* of a captured slot
    (`Option::take`, `mem::take`, `replace`) reaches only the first blob visited and every other deletion record is written
    with an empty map."""
    prog = ctx.prog
    n = 0
    for f in prog.fns.values():
        if f.file != 'src/storage/core.rs':
            continue
        for c in f.calls:
            if c.bb not in f.reachable() or c.name not in ('delete', 'mark_all_as_deleted') or not any('blob::core::Blob' in t for t in prog.resolve(c)):
                continue
            metas = [a for a in c.args if op_local(a) is not None and 'record::record::Meta' in f.locals[op_local(a)]['s']]
            for a in metas:
                n += 1
                key = 'deletion-meta-is-a-copy|%s' % prog.fns[f.id].root
                ogs = core.origins(f, a)
                moved = []
                if f.kind == 'Closure':
                    for x in f.calls:
                        if x.bb in f.reachable() and x.name in ('take', 'replace', 'take_if') and x.args and any(o.kind == 'upvar' for o in core.origins(f, x.args[0])) \
                           and op_local(a) in core.flows_forward(f, x.dest[0]):
                            moved.append(x)
                if moved:
                    ctx.bad(rid, key, c.where(), 'the metadata of the deletion record is moved out of a captured slot (`%s`) inside the per-blob closure: only the first blob visited receives it, the deletion records of all other blobs carry an empty map' % moved[0].name)
                else:
                    ctx.ok(rid, key, c.where(), 'metadata handed over by value / clone')
    if n < 2:
        raise core.AnchorLost('deletion calls carrying a Meta in src/storage/core.rs: %d' % n)


def v15(ctx, rid):
    """the size fields of a record header describe the bytes written next to it: where a header or record is built, a
    serialized_size() that feeds it is asked of the Meta the record carries - not of a throw-away `Meta::default()` / `Meta::new()`
    (a deletion record written with metadata would carry the size of an empty map: its metadata cannot be read back, and the
    start-up scan lands inside it and quarantines the undamaged blob)"""
    prog = ctx.prog
    n = 0
    bad = None
    for f in prog.fns.values():
        if not f.file.startswith('src/record/') or '::tests::' in f.id or f.file.endswith('tests.rs'):
            continue
        ret = f.locals[0]['s']
        if 'record::record::Header' not in ret and 'record::record::Record' not in ret:
            continue
        for c in f.calls:
            if c.bb not in f.reachable() or c.name != 'serialized_size' or not c.args or not any('record::record::Meta' in t for t in prog.resolve(c)):
                continue
            n += 1
            ogs = core.origins(f, c.args[0])
            fresh = [o for o in ogs if o.kind == 'call' and o.data.name in ('default', 'new') and ('Meta' in o.data.full)]
            if ogs and len(fresh) == len(ogs):
                bad = c
    if n < 1:
        raise core.AnchorLost('Meta::serialized_size in record constructors: %d' % n)
    if bad:
        ctx.bad(rid, 'meta-size-of-the-carried-meta', bad.where(), 'a record / header is built with the serialized size of a freshly constructed (empty) Meta instead of the Meta it is written with: meta_size disagrees with the bytes on disk whenever the caller supplies metadata')
    else:
        ctx.ok(rid, 'meta-size-of-the-carried-meta', '', '%d size computations, each asked of the carried Meta' % n, nontrivial=False, queries=n)


RULES = [
    Rule('C05.V1', 'no record data leaves a reading function without an ok data-checksum audit', v1, 4),
    Rule('C05.V2', 'a header deserialised from file bytes is accepted only after magic + header-CRC validation', v2, 3),
    Rule('C05.V3', 'the header patch positions equal the sizes of the trailing fields of record::Header', v3, 3),
    Rule('C05.V4', 'the checksum audits return Ok only on the equal edge of computed vs stored CRC', v4, 2),
    # C05.V6 (two-buffer records are written head first) was retired: it was a necessary condition only while re-opened files
    # were O_APPEND descriptors (finding F14); with positional writes both orders of the two pwrites are equivalent.
    Rule('C05.V7', 'the sequential scan reads record data only after advancing the cursor by header size and meta size', v7, 1),
    Rule('C05.V8', 'the data-validation flag handed to the regeneration scan is the configured flag and nothing else', v8, 2),
    Rule('C05.V9', 'the configured data-validation flag reaches every blob config unchanged (builder forwards it, no constructor resets it)', v9, 3),
    Rule('C05.V10', 'an error of Entry::load in a storage read path never ends in an Ok answer', v10, 1),
    Rule('C05.V11', 'record size fields are computed by the serializer, not by hand', v11, 2),
    Rule('C05.V12', 'a reused buffer is resized to the length to be read on every path before an exact positional read fills it', v12, 1),
    Rule('C05.V13', 'every deletion record of a multi-blob delete carries a copy of the caller\'s metadata map', v13, 2),
    Rule('C05.V15', 'the meta_size of a record is the serialized size of the Meta it carries', v15, 1),
    Rule('C05.V5', 'the header CRC written at reservation time is computed after the offset was patched', v5, 1),
]
