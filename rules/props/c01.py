"""C01 Latest-version read - the structural necessary conditions of the ranking (timestamp, blob recency, append recency)."""
import core
import prims
from core import op_local, op_const
from engine import Rule

EXPLANATION = (
    "Which record ranks first is a function of runtime values; what is decided here are the shape-level necessary conditions of the "
    "three ranking criteria, each of which a change can break without touching any value the tests pin. R1 (append recency, = "
    "C02.U10): the position handed to Vec::insert in the per-key vector is an upper bound of the equal-timestamp range on every path "
    "(the suite never has more than four versions of a key, so the binary-search path is untested). R2 (= C02.U6): the point lookup "
    "consults the active blob and every candidate closed blob before it returns Ok. R3 (blob recency on ties): both "
    "ReadResult::latest merges replace the accumulated result only on the true edge of a strict `other.timestamp() > "
    "self.timestamp()`: the first-seen result survives a tie. R4 (blob recency): get_latest_entry / contains feed that merge with "
    "the active blob first and then the closed blobs newest to oldest - the per-blob lookups are collected from "
    "iter_possible_childs_rev into an order-preserving FuturesOrdered. R5 (blob-local winner): the in-memory get_latest answers "
    "from the last element of the ascending per-key vector. Not decided: that the record served is the top-ranked one for a given "
    "history (value-level), ranking across restarts beyond what C03/C04/C06 decide.")
ASSUMPTIONS = ["timestamps are compared through BlobRecordTimestamp / u64 Ord"]


def r1(ctx, rid):
    import props.c02 as c02
    c02.u10(ctx, rid)


def r2(ctx, rid):
    import props.c02 as c02
    c02.u6(ctx, rid)


def r3(ctx, rid):
    """ReadResult::latest keeps `self` on equal timestamps: `other` is returned only on the true edge of a strict comparison"""
    prog = ctx.prog
    n = 0
    for f in prog.fns.values():
        if not f.id.endswith('::latest') or 'read_result::ReadResult' not in f.id or f.file != 'src/storage/read_result.rs':
            continue
        n += 1
        key = 'tie-keeps-first-seen|%s' % f.id
        cmps = [c for c in f.calls if c.name in ('gt', 'lt', 'ge', 'le', 'cmp', 'partial_cmp', 'max', 'min', 'max_by_key', 'max_by', 'eq', 'ne') and c.bb in f.reachable()]
        if len(cmps) != 1:
            ctx.bad(rid, key, f.where(), 'expected exactly one timestamp comparison in the merge, found %s' % [c.name for c in cmps])
            continue
        c = cmps[0]
        # which side is `other` (parameter 2), which is `self` (parameter 1)
        def side(o):
            ogs = core.origins(f, o)
            calls = [x for x in ogs if x.kind == 'call' and x.data.name == 'timestamp']
            ps = set()
            for x in calls:
                for y in core.origins(f, x.data.args[0]):
                    if y.kind == 'arg':
                        ps.add(y.data)
            return ps
        st = (c.self_ty or {}).get('s', '')
        if not st.replace('&', '').strip().startswith('std::option::Option<'):
            ctx.bad(rid, 'notfound-ranks-below-every-record|%s' % f.id, c.where(), 'the merge compares plain timestamps (%s): NotFound then needs a concrete timestamp as its rank and ties with a stored record of that timestamp - under the strict comparison such a record can never replace the NotFound accumulator (a key whose newest record has that timestamp reads NotFound, a duplicate of it is stored again)' % st)
        else:
            ctx.ok(rid, 'notfound-ranks-below-every-record|%s' % f.id, c.where(), 'merge key is Option<timestamp>: None (NotFound) < Some(any)', nontrivial=False)
        a, b = side(c.args[0]), side(c.args[1])
        strict_other_greater = (c.name == 'gt' and a == {2} and b == {1}) or (c.name == 'lt' and a == {1} and b == {2})
        if not strict_other_greater:
            ctx.bad(rid, key, c.where(), 'the merge compares with `%s` (%s vs %s): on equal timestamps the later-seen result (an older blob) replaces the first-seen one - blob recency no longer breaks ties' % (c.name, sorted(a), sorted(b)))
            continue
        # `other` is returned only on the true edge
        carry = core.flows_forward(f, c.dest[0])
        true_t = false_t = None
        for j in f.reachable():
            t = f.blocks[j]['t']
            if t['k'] == 'switch' and op_local(t['o']) in carry:
                for v, tg in t['vals']:
                    if v == 0:
                        false_t = tg
                true_t = t['otherwise'] if all(v == 0 for v, _ in t['vals']) else [tg for v, tg in t['vals'] if v != 0][0]
        ret_other = []
        for i, blk in enumerate(f.blocks):
            if blk['c'] or i not in f.reachable():
                continue
            for st in blk['s']:
                if st['k'] == 'a' and st['d'][0] == 0 and not st['d'][1] and st['r']['k'] == 'use' and op_local(st['r']['o']) == 2:
                    ret_other.append(i)
        if true_t is None or false_t is None or not ret_other:
            ctx.bad(rid, key, c.where(), 'shape of the merge not recognised (true edge %s, false edge %s, returns of `other` %s)' % (true_t, false_t, ret_other))
        elif any(b2 in f.reach_from([false_t]) for b2 in ret_other):
            ctx.bad(rid, key, f.where(ret_other[0]), '`other` is returned on the false edge of the strict comparison')
        else:
            ctx.ok(rid, key, c.where(), '`other` replaces `self` only when other.timestamp() > self.timestamp()')
    if n < 2:
        raise core.AnchorLost('ReadResult::latest merges: %d' % n)


def r4(ctx, rid):
    """the cross-blob merge sees the active blob first and then the closed blobs newest to oldest, in that order"""
    prog = ctx.prog
    n = 0
    for f in prog.fns.values():
        if not f.is_coroutine or f.file != 'src/storage/core.rs':
            continue
        merges = [c for c in f.calls if c.name == 'latest' and 'ReadResult' in c.path and c.bb in f.reachable()]
        if not merges:
            continue
        n += 1
        root = prog.fns[f.id].root
        key = 'newest-blob-first|%s' % root
        bad = []
        # the walk over the closed blobs may be a helper of the same file (`latest_entry_among_closed_blobs`): look into it
        bodies = [f]
        for c in f.calls:
            if c.bb in f.reachable() and c.name != 'poll':
                for t in prog.resolve(c):
                    g = prog.body_of(t) if t in prog.fns else None
                    if g is not None and g.file == f.file and g.id != f.id and g not in bodies and any('HierarchicalFilters' in x.path and x.name.startswith('iter') for x in g.calls):
                        bodies.append(g)
        its = [c for g in bodies for c in g.calls if 'HierarchicalFilters' in c.path and c.name.startswith('iter') and c.bb in g.reachable()]
        if not its or not all(c.name == 'iter_possible_childs_rev' for c in its):
            bad.append('the closed blobs are not walked with iter_possible_childs_rev (newest first): %s' % [c.name for c in its])
        colls = [c for g in bodies for c in g.calls if c.name == 'collect' and c.bb in g.reachable()]
        if any('FuturesUnordered' in c.full for c in colls) or not any('FuturesOrdered' in c.full for c in colls):
            bad.append('the per-blob lookups are not collected into an order-preserving FuturesOrdered')
        # the merge with the active blob's result precedes the loop over the closed blobs
        act = [m for m in merges if any(o.kind == 'field' and o.data[1] == 'active_blob' for a in m.args[1:2] for o in core.origins(f, a, stop_fields=True))]
        rest = [m for m in merges if m not in act]
        if act and rest and any(a.bb in f.reach_from([r.bb]) for a in act for r in rest):
            bad.append('a closed blob can be merged before the active blob')
        if not act and len(merges) < 2:
            # contains-style body: the active blob may be merged through a helper; accept when the first merge precedes the stream
            pass
        if bad:
            ctx.bad(rid, key, merges[0].where(), '; '.join(bad) + ': on a timestamp tie the record of an older blob can win')
        else:
            ctx.ok(rid, key, merges[0].where(), 'active blob first, then iter_possible_childs_rev through FuturesOrdered')
    if n < 1:
        raise core.AnchorLost('cross-blob merges in src/storage/core.rs: %d' % n)


def r5(ctx, rid):
    """the in-memory get_latest answers from the newest end of the ascending per-key vector"""
    prog = ctx.prog
    n = 0
    for f in prog.fns.values():
        if not (f.id.endswith('IndexTrait<K>>::get_latest::{closure#0}') and 'IndexStruct' in f.id):
            continue
        n += 1
        key = 'blob-local-winner-is-last|%s' % prog.fns[f.id].root
        picks = [c for g in prog.family(f.id) for c in prog.fns[g].calls if c.bb in prog.fns[g].reachable() and c.name in ('last', 'first', 'next', 'next_back', 'max_by_key', 'min_by_key', 'pop', 'nth') and 'record::record::Header' in c.full]
        lasts = [c for c in picks if c.name in ('last', 'next_back', 'max_by_key', 'pop')]
        firsts = [c for c in picks if c.name in ('first', 'next', 'min_by_key', 'nth')]
        if lasts and not firsts:
            ctx.ok(rid, key, lasts[0].where(), 'takes `%s` of the per-key vector' % lasts[0].name)
        else:
            ctx.bad(rid, key, f.where(), 'the in-memory latest-version lookup does not take the last element of the ascending per-key vector (%s): it answers with an older version' % [c.name for c in picks])
    if n < 1:
        raise core.AnchorLost('IndexStruct::get_latest: %d' % n)


def r6(ctx, rid):
    """`the most recently created blob wins ties`: creation order is the numeric blob id.  Wherever the storage orders a list of
    opened blobs (start-up), the ordering key is Blob::id and nothing else - file names compare lexicographically
    (`test.10.blob` < `test.2.blob`), creation times of files change with copies and restores"""
    prog = ctx.prog
    n = 0
    for f in prog.fns.values():
        if f.file != 'src/storage/core.rs':
            continue
        for c in f.calls:
            if c.bb not in f.reachable() or not c.name.startswith('sort') or 'blob::core::Blob<' not in c.full:
                continue
            n += 1
            key = 'opened-blobs-ordered-by-id|%s' % prog.fns[f.id].root
            names = set()
            for a in c.args[1:]:
                k = core.op_const(a)
                l = op_local(a)
                if k and 'fn' in k:
                    names.add((k['fn'].get('res') or k['fn'].get('path') or '').split('::')[-1])
                elif l is not None and f.locals[l].get('h') == 'closure':
                    for g in prog.family(f.locals[l]['a'][0]):
                        names |= {x.name for x in prog.fns[g].calls if x.bb in prog.fns[g].reachable() and not x.from_expansion}
                elif l is not None and f.locals[l].get('h') == 'fndef':
                    names.add(f.locals[l]['a'][0].split('::')[-1])
            extra = names - {'id', 'cmp', 'partial_cmp', 'reverse', 'then', 'then_with', 'deref', 'borrow', 'as_ref', 'clone'}
            if 'id' in names and not extra:
                ctx.ok(rid, key, c.where(), 'sort key = Blob::id')
            else:
                ctx.bad(rid, key, c.where(), 'the opened blobs are ordered by %s instead of the numeric blob id: with 11 or more blobs (or another name prefix) an older blob ranks as the most recently created one and wins timestamp ties / becomes the active blob' % (sorted(extra) or sorted(names) or 'their natural order'))
    if n < 1:
        raise core.AnchorLost('sort of opened blobs in src/storage/core.rs: %d' % n)


def r7(ctx, rid):
    """C09.P12 instance: a leaf of the on-disk index starts at the first (newest) header of a key - otherwise the latest-version
    lookup of a closed blob answers with an older version"""
    import props.c09 as c09
    c09.p12(ctx, rid)


def r8(ctx, rid):
    """the timestamp a client passes to write / delete is the timestamp of the record: on the way from the public entry points to
    `Record::create` / `Record::deleted` it is only converted (`into`), never combined with another value (`min(now)`, a clamp,
    a default).  A deletion stamped differently from what the client said ranks differently against the puts of the key: a put
    with a timestamp between the stamped and the requested one outranks a marker that should shadow it"""
    prog = ctx.prog
    n = 0
    for f in prog.fns.values():
        if not (f.file.startswith('src/storage/') or f.file.startswith('src/blob/')):
            continue
        for c in f.calls:
            if c.bb not in f.reachable() or c.name not in ('create', 'deleted') or not any(t.startswith('record::record::Record') for t in prog.resolve(c)) or len(c.args) < 2:
                continue
            n += 1
            key = 'client-timestamp-unchanged|%s|%s' % (prog.fns[f.id].root, c.name)
            ogs = core.origins_ip(prog, f, c.args[1], depth=6)
            odd = [o for o in ogs if o.kind not in ('arg', 'upvar')]
            if odd:
                what = odd[0].data.full[:60] if odd[0].kind == 'call' else odd[0].kind
                ctx.bad(rid, key, c.where(), 'the timestamp of the record is not the one the client passed: it is computed through `%s`' % what)
            else:
                ctx.ok(rid, key, c.where(), 'the record is stamped with the value handed in by the caller')
    if n < 2:
        raise core.AnchorLost('record constructions in the storage / blob code: %d' % n)


RULES = [
    Rule('C01.R1', 'equal timestamps: the in-memory insertion position is behind every record with the same timestamp (C02.U10 instance)', r1, 1),
    Rule('C01.R2', 'the point lookup consults every candidate blob before it returns Ok (C02.U6 instance)', r2, 1),
    Rule('C01.R3', 'the cross-blob merge replaces the accumulated result only on a strictly greater timestamp (first-seen wins ties)', r3, 2),
    Rule('C01.R4', 'the merge sees the active blob first, then the closed blobs newest to oldest through an order-preserving stream', r4, 1),
    Rule('C01.R6', 'opened blobs are ordered by their numeric id and nothing else', r6, 1),
    Rule('C01.R7', 'a leaf of the on-disk index starts at the newest header of a key (C09.P12 instance)', r7, 1),
    Rule('C01.R8', 'a record is stamped with the timestamp the client passed, unchanged', r8, 2),
    Rule('C01.R5', 'the in-memory latest-version lookup takes the last element of the ascending per-key vector', r5, 1),
]
