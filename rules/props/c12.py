"""C12 Sync discipline - ordering content (DESIGN 6/C12)."""
import core
import prims
from core import op_local, Summ
from engine import Rule

EXPLANATION = (
    "Static ordering rules over the MIR CFG of every body: must-pass-through (dominance) of a completed, `?`-checked file sync "
    "before (S1) every ok-return of the blob constructor, (S2) every index-dump call, (S3) the hand-over of the retired active blob "
    "to the closed list, (S4) every ok-return of the public fsyncdata on the path where an active blob exists; (S5) the dirty-byte "
    "trigger after every append in the write/delete paths and its route to a sync in the worker; (S6) the only writer of the synced "
    "counter is a fetch_max after an ok sync_all with a size captured before the sync; (S7) inside index construction the "
    "written-flag rewrite follows the body append and is followed by a sync. Sync wrappers are not tabled: they are recognised by a "
    "must-on-ok summary that bottoms out at std::fs::File::sync_all/sync_data and crosses spawn_blocking/block_in_place runners. "
    "Decides this ordering structure, not the runtime bound on un-synced bytes.")
EXPLANATION += (" " + "S9 = C13.L9 instances; S10 the only way around tokio::spawn in the worker's try_run_* functions is a branch decided by JoinHandle::is_finished.")
EXPLANATION += (" " + 'S11 decision leaves (data and branch operands, through helpers) of should_try_fsync are one scalar argument fed by dirty_bytes at every call site, the configured limit and the fsync_in_progress load.')
ASSUMPTIONS = ["std::fs::File::sync_all / sync_data are the only durability primitives (checked: no other fsync-like call in the call-site survey)"]


def sync_summ(prog, excuse=None):
    return Summ(prog, prims.is_raw_sync, excuse=excuse)


def none_edges_of_field(fn, field):
    """blocks entered on the `None` edge of a test of an Option whose value is (a reference to / as_ref() of) a place
    ending in `.field`"""
    out = []
    for i, b in enumerate(fn.blocks):
        if b['c']:
            continue
        t = b['t']
        if t['k'] != 'switch':
            continue
        l = op_local(t['o'])
        if l is None:
            continue
        for (bb, si, kind, r) in fn.defs().get(l, []):
            if not (kind == 'assign' and r['k'] == 'discr'):
                continue
            ty = core.place_type_str(fn, r['p']) or ''
            if not ty.startswith('std::option::Option'):
                continue
            ogs = core.origins(fn, {'c': r['p']}, stop_fields=True)
            if not any(o.kind == 'field' and o.data[1] == field for o in ogs):
                continue
            hit = False
            for v, tgt in t['vals']:
                if v == 0:
                    out.append(tgt)
                    hit = True
            if not hit and all(v == 1 for v, _ in t['vals']):
                out.append(t['otherwise'])
    return out


def s1(ctx, rid):
    prog = ctx.prog
    S = sync_summ(prog)
    ctor = 'blob::core::Blob::<K>::open_new'
    fn = prog.one(ctor)
    ok = S.must(ctor)
    ctx.ok(rid, 'must-sync|' + ctor, fn.where(), 'every ok-return preceded by an ok sync', queries=S.queries) if ok else \
        ctx.bad(rid, 'must-sync|' + ctor, fn.where(), 'an ok-return of the blob constructor is reachable without a completed file sync')
    # after every append in the constructor's call tree, a sync follows before the ok exit of that body
    FW = prims.FileWrappers(prog)
    appenders = set(FW.append_wrappers())
    L, E = prog.may_reach()
    tree = [ctor] + sorted(x for x in L.get(ctor, ()) if prog.fns[x].root == x or True)
    n = 0
    for fid in tree:
        f = prog.fns[fid]
        if f.root in appenders:
            continue
        for c in f.calls:
            if any(t in appenders for t in prog.resolve(c)) and c.bb in f.reachable():
                n += 1
                cb = core.completion_block(f, c)
                ev = S.events(f)
                exits = [bb for (bb, k, _) in core.exit_defs(f) if k in ('ok', 'fwd', 'val') and bb in f.reachable()]
                reach = f.reach_from([cb], avoid_enter=ev) if cb is not None else set()
                badx = [e for e in exits if e in reach]
                key = 'append-then-sync|%s|%s' % (f.id, c.name)
                if badx:
                    ctx.bad(rid, key, c.where(), 'header append not followed by a sync before the ok-return',
                            witness=['bb%d %s' % (b, f.where(b)) for b in (f.path([cb], badx, avoid_enter=ev) or [])])
                else:
                    ctx.ok(rid, key, c.where(), 'append followed by ok sync on every path to the ok-return')
    if n == 0:
        raise core.AnchorLost('no append call in the call tree of the blob constructor')


def dominated_up(prog, S, fn, bb, depth=5, seen=None):
    """the block bb of fn is entered only after a sync event, in fn or (recursively) in every caller before the call.
    Returns (ok, witness)"""
    if seen is None:
        seen = set()
    ev = S.events(fn)
    reach = fn.reach_from([0], avoid_enter=ev)
    if bb not in reach:
        return True, []
    if depth == 0 or fn.id in seen:
        return False, ['%s: reachable without sync (depth limit)' % fn.id]
    seen = seen | {fn.id}
    # callers of this body (for a coroutine: call sites of its stub)
    target = fn.parent if (fn.is_coroutine and fn.parent in prog.fns) else fn.id
    cs = core.call_sites_of(prog, target)
    cs = [c for c in cs if c.name != 'poll']
    if not cs:
        p = fn.path([0], [bb], avoid_enter=ev) or []
        return False, ['%s has no callers; path without sync: %s' % (fn.id, ' '.join('bb%d' % x for x in p[:12]))]
    for c in cs:
        ok, w = dominated_up(prog, S, c.fn, c.bb, depth - 1, seen)
        if not ok:
            return False, ['%s called from %s' % (fn.id, c.where())] + w
    return True, []


def s2(ctx, rid):
    prog = ctx.prog
    S = sync_summ(prog)
    # universal over call sites of the index dump and of index-file construction
    n = 0
    for f in prog.fns.values():
        for c in f.calls:
            tg = prog.resolve(c)
            is_dump = c.path == 'blob::index::IndexTrait::dump' or any(t.endswith('as blob::index::IndexTrait<K>>::dump') for t in tg)
            is_build = c.path == 'blob::index::core::FileIndexTrait::from_records' or c.path.endswith('::dump_in_memory')
            if not (is_dump or is_build) or c.bb not in f.reachable():
                continue
            n += 1
            ok, w = dominated_up(prog, S, f, c.bb)
            key = 'sync-before|%s|%s' % (f.id, c.name)
            if ok:
                ctx.ok(rid, key, c.where(), 'dominated by an ok blob-file sync (here or in every caller)')
            else:
                ctx.bad(rid, key, c.where(), 'index dump / construction reachable without a preceding ok sync of the blob file', witness=w)
    if n == 0:
        raise core.AnchorLost('no index dump call sites')


def s3(ctx, rid):
    prog = ctx.prog
    # a helper that syncs `if let Some(active_blob)` counts: the None edge means there is no blob to retire
    S = sync_summ(prog, excuse=lambda fn: none_edges_of_field(fn, 'active_blob'))
    n = 0
    # take() of Safe.active_blob whose payload reaches the closed-list push: sync in between
    for f in prog.fns.values():
        for c in f.calls:
            if c.name == 'take' and c.path.startswith('std::option::Option') and prims.receiver_field(f, c) == 'active_blob' and c.bb in f.reachable():
                carry = core.flows_forward(f, c.dest[0], transparent=core.fwd_transparent)
                pushes = [p for p in f.calls if p.path.endswith('HierarchicalFilters::<Key, Filter, Child>::push') and any(op_local(a) in carry for a in p.args)]
                for p in pushes:
                    n += 1
                    # a path through the None edge of an `active_blob` test has no blob to sync or retire
                    ev = S.events(f) + none_edges_of_field(f, 'active_blob')
                    reach = f.reach_from([0], avoid_enter=ev)
                    key = 'sync-before-retire|%s' % f.id
                    if p.bb in reach:
                        ctx.bad(rid, key, p.where(), 'the retired active blob reaches the closed list without an ok sync of its file',
                                witness=['bb%d %s' % (b, f.where(b)) for b in (f.path([0], [p.bb], avoid_enter=ev) or [])])
                    else:
                        ctx.ok(rid, key, p.where(), 'the push of the blob taken out of the active slot is dominated by an ok sync of the active blob file')
    if n == 0:
        raise core.AnchorLost('no take()->push flow of the active blob')


def s3b(ctx, rid):
    """no append can slip in between the sync and the retirement of the active blob: at the sync the exclusive storage guard is
    held and the same guard is still live at the take()"""
    prog = ctx.prog
    S = sync_summ(prog, excuse=lambda fn: none_edges_of_field(fn, 'active_blob'))
    n = 0
    for f in prog.fns.values():
        for c in f.calls:
            if not (c.name == 'take' and c.path.startswith('std::option::Option') and prims.receiver_field(f, c) == 'active_blob' and c.bb in f.reachable()):
                continue
            carry = core.flows_forward(f, c.dest[0], transparent=core.fwd_transparent)
            pushes = [p for p in f.calls if p.path.endswith('HierarchicalFilters::<Key, Filter, Child>::push') and any(op_local(a) in carry for a in p.args)]
            if not pushes:
                continue
            n += 1
            key = 'sync-and-retire-one-guard|%s' % f.id
            IN, at, guards = core.held_guards(f)
            excl = {g for g, gc in guards.items() if gc[2] == 'storage::core::Safe' and gc[1] == 'W'}
            held_at_take = excl & set(at(c.bb))
            # sync event sites: calls (START) whose completion is an event
            ev_calls = [x for x in f.calls if x.bb in f.reachable() and (prims.is_raw_sync(x) or any(t in prog.fns and not prog.fns[t].is_coroutine and t != f.id and S.must(t) for t in prog.resolve(x)))]
            if not ev_calls:
                ctx.bad(rid, key, c.where(), 'no sync before the retirement')
                continue
            bad = [x for x in ev_calls if not (held_at_take & set(at(x.bb)))]
            if not held_at_take:
                ctx.bad(rid, key, c.where(), 'the active blob is taken out without the exclusive storage guard')
            elif bad:
                ctx.bad(rid, key, bad[0].where(), 'the sync of the active blob runs under a different (shared) storage guard than its retirement: writers, which only need the shared lock, can append between the sync and the take(), and a successful close leaves un-synced bytes')
            else:
                ctx.ok(rid, key, c.where(), 'the sync and the take() happen under the same live exclusive storage guard')
    if n < 1:
        raise core.AnchorLost('no take()->push flow of the active blob')


def s4(ctx, rid):
    prog = ctx.prog
    S = sync_summ(prog, excuse=lambda fn: none_edges_of_field(fn, 'active_blob'))
    api = 'storage::core::Storage::<K>::fsyncdata'
    fn = prog.one(api)
    if not fn.is_pub:
        raise core.AnchorLost('Storage::fsyncdata is not public')
    ok = S.must(api)
    key = 'must-sync-when-active|' + api
    if ok:
        ctx.ok(rid, key, fn.where(), 'every ok-return on which an active blob exists is preceded by an ok sync', queries=S.queries)
    else:
        # witness: deepest function on the chain that fails
        chain = []
        cur = api
        for _ in range(6):
            b = prog.body_of(cur)
            chain.append(cur)
            nxt = None
            for c in b.calls:
                for t in prog.resolve(c):
                    if t in prog.fns and not prog.fns[t].is_coroutine and 'fsync' in t and t != cur and not S.must(t):
                        nxt = t
            if not nxt:
                break
            cur = nxt
        b = prog.body_of(cur)
        ev = S.events(b) + none_edges_of_field(b, 'active_blob')
        exits = [bb for (bb, k, _) in core.exit_defs(b) if k in ('ok', 'fwd', 'val')]
        p = b.path([0], exits, avoid_enter=ev) or []
        ctx.bad(rid, key, fn.where(), 'an explicit fsyncdata can return Ok without syncing although an active blob exists',
                witness=['call chain: ' + ' -> '.join(chain)] + ['%s bb%d %s' % (cur, x, b.where(x)) for x in p])


def true_target(sw_term):
    """target of the `true` (non-zero) edge of a switch on a bool"""
    for v, tg in sw_term['vals']:
        if v != 0:
            return tg
    if all(v == 0 for v, _ in sw_term['vals']):
        return sw_term['otherwise']
    return None


def s5(ctx, rid):
    prog = ctx.prog
    trig = 'storage::core::Inner::<K>::should_try_fsync'
    req = 'storage::observer::Observer::<K>::try_fsync_data'
    prog.one(trig)
    prog.one(req)
    # (1) every append to the active blob in the storage layer feeds a dirty-byte check
    trig_calls = [c for f in prog.fns.values() for c in f.calls if trig in prog.resolve(c)]
    n = 0
    for f in prog.fns.values():
        if not f.file.startswith('src/storage/'):
            continue
        for c in f.calls:
            tg = prog.resolve(c)
            is_write = 'blob::core::Blob::<K>::write' in tg
            is_del = 'storage::core::Storage::<K>::delete_in_active' in tg
            if not (is_write or is_del) or c.bb not in f.reachable():
                continue
            n += 1
            key = 'trigger-after|%s|%s' % (prog.fns[f.id].root, c.name)
            fed = [t for t in trig_calls if t.fn.id == f.id and any(o.kind == 'call' and o.data.bb == c.bb and o.fn.id == f.id for o in core.origins(f, t.args[1]))]
            if not fed:
                ctx.bad(rid, key, c.where(), 'no dirty-byte check uses the result of this append')
                continue
            if is_write:
                ob = core.ok_block(f, c) or core.completion_block(f, c)
                exits = [bb for (bb, k, _) in core.exit_defs(f) if k in ('ok', 'fwd', 'val') and bb in f.reachable()]
                reach = f.reach_from([ob], avoid_exit=[t.bb for t in fed])
                badx = [e for e in exits if e in reach]
                if badx:
                    ctx.bad(rid, key, c.where(), 'an ok-return is reachable after the append without the dirty-byte check',
                            witness=['bb%d %s' % (b, f.where(b)) for b in (f.path([ob], badx, avoid_exit=[t.bb for t in fed]) or [])])
                    continue
            ctx.ok(rid, key, c.where(), 'the dirty-byte check consumes the append result%s' % (' on every path to the ok-return' if is_write else ' (conditional on a deletion in the active blob)'))
    if n < 2:
        raise core.AnchorLost('append sites in storage write/delete paths: %d' % n)
    # (2) every dirty-byte check controls a sync request: some request call is dominated by the true edge of a switch whose
    #     condition originates in the check, and from that edge every path to an ok-return issues the request
    served = set()
    reqs = [c for f in prog.fns.values() for c in f.calls if req in prog.resolve(c) and c.name != 'poll']
    for r in reqs:
        f = r.fn
        exits = [bb for (bb, k, _) in core.exit_defs(f) if k in ('ok', 'fwd', 'val') and bb in f.reachable()]
        rb = core.completion_block(f, r)
        for i, b in enumerate(f.blocks):
            if b['c'] or b['t']['k'] != 'switch' or i not in f.reachable():
                continue
            tt = true_target(b['t'])
            if tt is None or not f.dominates(tt, r.bb):
                continue
            if r.bb in f.reach_from([0], avoid_enter=[tt]):
                continue
            ogs = core.origins_deep(prog, f, b['t']['o'], depth=3)
            ts = [o.data for o in ogs if o.kind == 'call' and trig in prog.resolve(o.data)]
            if not ts:
                continue
            reach = f.reach_from([tt], avoid_enter=[rb] if rb is not None else [])
            if any(e in reach for e in exits):
                continue
            for t in ts:
                served.add((t.fn.id, t.bb))
    for t in trig_calls:
        key = 'check-issues-request|%s' % prog.fns[t.fn.id].root
        if (t.fn.id, t.bb) in served:
            ctx.ok(rid, key, t.where(), 'a sync request is issued on the true edge of this check on every path to the ok-return')
        else:
            ctx.bad(rid, key, t.where(), 'no sync request is controlled by the result of this dirty-byte check')
    # (3) worker side: the request message reaches a raw sync
    pm = 'storage::observer_worker::ObserverWorker::<K>::process_msg'
    prog.one(pm)
    L, E = prog.may_reach()
    reach_sync = any(e in prims.RAW_SYNC for e in E.get(pm, ()))
    if reach_sync:
        ctx.ok(rid, 'worker-reaches-sync|' + pm, prog.fns[pm].where(), 'message handler may reach std::fs::File::sync_*')
    else:
        ctx.bad(rid, 'worker-reaches-sync|' + pm, prog.fns[pm].where(), 'no path in the call graph from the worker message handler to a file sync')


def s6(ctx, rid):
    prog = ctx.prog
    SY = core.Summ(prog, prims.is_raw_sync)
    n = 0
    for f in prog.fns.values():
        for c in f.calls:
            if c.crate != 'core' or not c.path.startswith('std::sync::atomic::Atomic'):
                continue
            if prims.receiver_field(f, c) != 'synced_size':
                continue
            rt = prims.field_of_receiver(f, c)
            n += 1
            key = 'synced_size.%s|%s' % (c.name, f.id)
            if c.name == 'load':
                ctx.ok(rid, key, c.where(), 'read only', nontrivial=False)
                continue
            if c.name != 'fetch_max':
                ctx.bad(rid, key, c.where(), 'synced_size modified by `%s` (only fetch_max after an ok sync is allowed)' % c.name)
                continue
            def unsynced(g, bb):
                """`bb` of body `g` is reachable without a completed ok sync (a raw sync_*, or a helper that must perform one)"""
                obs = []
                for s2 in g.calls:
                    if prims.is_raw_sync(s2) or any(t in prog.fns and SY.must(t) for t in prog.resolve(s2)):
                        ob = core.ok_block(g, s2)
                        if ob is not None:
                            obs.append(ob)
                return not obs or bb in g.reach_from([0], avoid_enter=obs)
            sync_bodies = [f]
            if unsynced(f, c.bb):
                # a thin helper around the update (`fn note_synced(&self, size)`): the obligation moves to each of its call sites
                sites = core.call_sites_of(prog, f.id) if f.kind != 'Closure' and not f.is_coroutine else []
                if not sites or any(unsynced(cc.fn, cc.bb) for cc in sites):
                    ctx.bad(rid, key, c.where(), 'synced_size advanced on a path without a completed ok sync_all')
                    continue
                sync_bodies = [cc.fn for cc in sites]
            ogs = core.origins_ip(prog, f, c.args[1], depth=1)
            late = [o for o in ogs if o.fn.id in {g.id for g in sync_bodies} and o.kind == 'call']
            if late:
                ctx.bad(rid, key, c.where(), 'the size recorded as synced is computed inside the sync closure (%s), not captured before the sync started' % late[0])
                continue
            srcs = [o for o in ogs if o.kind == 'call']
            def is_counter_read(o):
                if o.data.name == 'load' and o.data.path.startswith('std::sync::atomic::Atomic'):
                    return True
                # an accessor of the file that does nothing but load one of its counters (`size()`, `written_size()`)
                for t in prog.resolve(o.data):
                    h = prog.body_of(t) if t in prog.fns else None
                    if h is None or h.is_coroutine:
                        return False
                    ret = [x for x in core.origins(h, 0)]
                    if not ret or not all(x.kind == 'call' and x.data.name == 'load' and x.data.path.startswith('std::sync::atomic::Atomic') for x in ret):
                        return False
                return True
            if not srcs or not all(is_counter_read(o) for o in srcs):
                ctx.bad(rid, key, c.where(), 'unexpected origin of the synced size: %s' % ogs)
                continue
            ctx.ok(rid, key, c.where(), 'fetch_max after ok sync_all; operand captured before the sync (origins: %s)' % ', '.join(o.data.full for o in srcs))
    if n == 0:
        raise core.AnchorLost('no access to FileInner.synced_size')


def s7(ctx, rid):
    prog = ctx.prog
    FW = prims.FileWrappers(prog)
    pos = set(FW.positional_wrappers())
    app = set(FW.append_wrappers())
    S = sync_summ(prog)
    n = 0
    for f in prog.fns.values():
        if not (f.is_coroutine and f.parent and prog.fns[f.parent].trait_item == 'blob::index::core::FileIndexTrait::from_records'):
            continue
        def reaches_positional(t, depth=2):
            if t in pos:
                return True
            g = prog.fns.get(t)
            if g is None or depth <= 0 or t in app or not g.file.startswith('src/blob/index/'):
                return False
            return any(x.name != 'poll' and any(reaches_positional(t2, depth - 1) for t2 in prog.resolve(x)) for gid in prog.family(t) for x in prog.fns[gid].calls)
        pcalls = [c for c in f.calls if c.name != 'poll' and any(reaches_positional(t) for t in prog.resolve(c))]
        acalls = [c for c in f.calls if any(t in app for t in prog.resolve(c))]
        for pc in pcalls:
            n += 1
            key = 'flag-after-body|%s' % f.id
            aob = [core.ok_block(f, a) for a in acalls]
            aob = [x for x in aob if x is not None]
            if not aob or pc.bb in f.reach_from([0], avoid_enter=aob):
                ctx.bad(rid, key, pc.where(), 'the header rewrite (written flag) is reachable before the body append completed')
                continue
            # after the rewrite a sync precedes the ok-return
            ev = S.events(f)
            start = core.completion_block(f, pc)
            exits = [bb for (bb, k, _) in core.exit_defs(f) if k in ('ok', 'fwd', 'val') and bb in f.reachable()]
            reach = f.reach_from([start], avoid_enter=ev)
            if any(e in reach for e in exits):
                ctx.bad(rid, key, pc.where(), 'no sync of the index file between the written-flag rewrite and the ok-return')
                continue
            ctx.ok(rid, key, pc.where(), 'body append ok -> flag rewrite -> ok sync -> return')
    if n < 1:
        raise core.AnchorLost('no positional header rewrite in FileIndexTrait::from_records impls')


def s8(ctx, rid, only_sync=True):
    import flags
    prog = ctx.prog
    sites = flags.bool_flag_sites(prog)
    guards = flags.drop_guards_for(prog, sites)
    L, E = prog.may_reach()
    n = 0
    for field, st in sorted(sites.items()):
        if not st['set']:
            continue
        if only_sync:
            # flags guarding a sync: a function that sets the flag can reach a raw file sync
            if not any(any(e in prims.RAW_SYNC for e in E.get(prog.fns[f.id].root, ())) or any(e in prims.RAW_SYNC for e in E.get(f.id, ())) for (f, c) in st['set']):
                continue
        for r in flags.check_pairing(prog, field, st, guards):
            ok, key, where, detail = r[0], r[1], r[2], r[3]
            n += 1
            if ok is None:
                ctx.ok(rid, key, where, detail, nontrivial=False)
            elif ok:
                ctx.ok(rid, key, where, detail)
            else:
                ctx.bad(rid, key, where, detail, witness=r[4] if len(r) > 4 else None)
    if not any(f == 'fsync_in_progress' for f in sites):
        raise core.AnchorLost('fsync_in_progress flag')


def s9(ctx, rid):
    import props.c13 as c13
    c13.l9(ctx, rid)


def _mentions_is_finished(prog, f, operand, depth=6):
    """does the tested value depend on JoinHandle::is_finished (directly, or inside a closure handed to map_or / is_some_and ..)"""
    l = op_local(operand)
    seen = set()
    work = [l]
    while work and depth > 0:
        l = work.pop()
        if l is None or l in seen:
            continue
        seen.add(l)
        for (bb, si, kind, payload) in f.defs().get(l, []):
            if kind == 'call':
                c = payload
                if c.name == 'is_finished' and 'JoinHandle' in c.path:
                    return True
                # a helper of this crate that answers from is_finished (e.g. `fn is_task_in_progress(&Option<JoinHandle>)`)
                for t in prog.resolve(c):
                    if t in prog.fns and f.locals[c.dest[0]]['s'] == 'bool':
                        for gid in prog.family(t):
                            g = prog.fns[gid]
                            if any(x.name == 'is_finished' and 'JoinHandle' in x.path for x in g.calls):
                                return True
                for a in c.args:
                    la = op_local(a)
                    if la is None:
                        continue
                    if f.locals[la].get('h') == 'closure':
                        g = prog.fns.get(f.locals[la]['a'][0])
                        if g is not None and any(x.name == 'is_finished' and 'JoinHandle' in x.path for x in g.calls):
                            return True
                    elif f.locals[la]['s'] == 'bool':
                        work.append(la)
            elif kind == 'assign':
                places = core.rvalue_places(payload)
                for p in places:
                    work.append(p[0])
                if not places and depth > 1:
                    # a constant (`return false` of an inlined helper): the value is decided by what decides that assignment
                    for sw in core.deciding_switches(f, bb):
                        if _mentions_is_finished(prog, f, f.blocks[sw]['t']['o'], depth - 2):
                            return True
    return False


def s10(ctx, rid, only_sync=True):
    """a background task (tokio::spawn whose handle is kept in a worker field) is skipped only while a task is really running:
    the branch that leaves the function without spawning is decided by JoinHandle::is_finished.  A test of mere presence of the
    handle (`is_some()`) keeps refusing after the task has ended and before the loop reaped it: the request is dropped."""
    prog = ctx.prog
    n = 0
    for f in prog.fns.values():
        if not f.file.endswith('observer_worker.rs') or not f.is_coroutine:
            continue
        sps = [c for c in f.calls if c.name == 'spawn' and c.crate == 'tokio' and c.bb in f.reachable()]
        if not sps:
            continue
        L, E = prog.may_reach()
        if only_sync:
            # the spawned task reaches the file sync
            def reaches_sync(c):
                for a in c.args:
                    l = op_local(a)
                    if l is not None and f.locals[l].get('h') in ('coroutine', 'closure'):
                        cid = f.locals[l]['a'][0]
                        if any(x.endswith('::fsyncdata') or x.endswith('::sync_all') for x in L.get(cid, ())):
                            return True
                    # a named async fn handed to spawn: `tokio::spawn(fsync_data_task(inner))`
                    for o in (core.origins(f, a) if l is not None else []):
                        if o.kind == 'call':
                            for t in prog.resolve(o.data):
                                if t in prog.fns and any(x.endswith('::fsyncdata') or x.endswith('::sync_all') for x in set(L.get(t, ())) | set(L.get(t + '::{closure#0}', ()))):
                                    return True
                return False
            sps = [c for c in sps if reaches_sync(c)]
            if not sps:
                continue
        spb = [c.bb for c in sps]
        can = set()
        for i in f.reachable():
            if any(b in f.reach_from([i]) for b in spb):
                can.add(i)
        n += 1
        key = 'skip-only-while-running|%s' % prog.fns[f.id].root
        bad = None
        for i in sorted(can):
            t = f.blocks[i]['t']
            if t['k'] != 'switch':
                continue
            outs = [tg for _, tg in t['vals']] + [t['otherwise']]
            outs = [x for x in outs if x is not None and f.blocks[x]['t']['k'] != 'unreachable']
            if any(x not in can for x in outs) and any(x in can for x in outs):
                # deciding switch: skip the awaits' own Pending edges
                if any(a.switch_bb == i for a in f.awaits()):
                    continue
                if not _mentions_is_finished(prog, f, t['o']):
                    bad = i
                    break
        if bad is not None:
            ctx.bad(rid, key, f.where(bad), 'the background task is not started on a branch that is not decided by JoinHandle::is_finished(): a finished but not yet reaped handle makes the worker drop the request (for the sync task: dirty bytes stay un-synced until some later request)')
        else:
            ctx.ok(rid, key, f.where(spb[0]), 'the only way around tokio::spawn is the `!is_finished()` branch')
    if n < 1:
        raise core.AnchorLost('worker functions that spawn a background task: %d' % n)


def s11(ctx, rid):
    """the sync trigger is level-triggered: whether a sync is requested after an append depends only on the current dirty-byte
    count, the configured limit and the in-progress flag.  A trigger that also looks at how many bytes *this* operation added
    (edge-triggered: "only the operation that crosses the limit") never fires again once the blob is over the limit while a
    sync is in flight, and the un-synced bytes then grow without bound."""
    prog = ctx.prog
    trig = prog.fns.get('storage::core::Inner::<K>::should_try_fsync')
    if trig is None:
        raise core.AnchorLost('should_try_fsync')
    lv = core.decision_leaves(prog, trig)
    args = sorted(v for k, v in lv if k == 'arg')
    fields = {v for k, v in lv if k == 'field'}
    calls = {v for k, v in lv if k == 'call'}
    extra_f = fields - {'config', 'max_dirty_bytes_before_sync', 'fsync_in_progress', 'inner', 'blob'}
    extra_c = calls - {'load', 'max_dirty_bytes_before_sync', 'config'}
    key = 'level-triggered|%s' % trig.id
    if len(args) == 1 and not extra_f and not extra_c:
        ctx.ok(rid, key, trig.where(), 'the decision depends on {%s}, the configured limit and the in-progress flag only' % args[0])
    else:
        ctx.bad(rid, key, trig.where(), 'the decision whether to request a sync depends on %s besides the dirty-byte count, the limit and the in-progress flag: it is not a function of the current level, so being over the limit does not by itself lead to a sync' % sorted(set(args[1:]) | extra_f | extra_c))
    # every caller feeds the single scalar argument from the file's dirty-byte counter
    n = 0
    for c in core.call_sites_of(prog, trig.id):
        if c.name == 'poll':
            continue
        n += 1
        k2 = 'fed-by-dirty-bytes|%s' % prog.fns[c.fn.id].root
        ok = False
        for a in c.args[1:2]:
            names = core.field_leaf_names(c.fn, a)
            ogs = core.origins_deep(prog, c.fn, a, depth=2)
            if names == {'dirty_bytes'} or any(o.kind == 'call' and o.data.name == 'dirty_bytes' for o in ogs):
                ok = True
        (ctx.ok if ok else ctx.bad)(rid, k2, c.where(), 'argument is the dirty-byte count of the active blob file' if ok else 'the level handed to the sync trigger is not the dirty-byte count of the active blob file')
    if n < 2:
        raise core.AnchorLost('callers of should_try_fsync: %d' % n)


def s12(ctx, rid):
    """"whenever the un-synced bytes exceed the configured limit" - for every value of the limit: the builder forwards the limit
    to the configuration on every path and nothing resets it (C05.option_reaches_config instances)"""
    import props.c05 as c05
    c05.option_reaches_config(ctx, rid, 'max_dirty_bytes_before_sync', 'set_max_dirty_bytes_before_sync')


def _tested_calls(f, operand, depth=10, prog=None):
    """names of the calls the tested scalar comes from, following copies and *field-precise* tuple / struct projections
    (`let (a, b) = (f(), g())` then `if b`: only g; also when the pair is built by a helper of this crate and unwrapped by `?`)"""
    out = set()
    seen = set()

    def visit(o, d, pend, okpath=False):
        """pend: the innermost user-level field selection still to be applied (index or None)"""
        if d <= 0:
            return
        p = core.op_place(o) if isinstance(o, dict) else None
        if p is None:
            return
        l, proj = p[0], [e for e in p[1] if e != '*']
        flds = [e['f'] for e in proj if isinstance(e, dict) and 'f' in e]
        downcast = any(isinstance(e, dict) and 'v' in e for e in proj)
        if any(isinstance(e, dict) and 'v' in e and e.get('n') in ('Ok', 'Continue', 'Some') for e in proj):
            okpath = True      # the value is read out of an Ok: an Err built on the way (`?` of a helper that was inlined) is no source
        if flds and not downcast:
            pend = flds[-1] if pend is None else pend
        k = (l, pend, okpath)
        if k in seen:
            return
        seen.add(k)
        for (bb, si, kind, payload) in [x for x in f.defs().get(l, []) if x[2] in ('assign', 'call')]:
            if kind == 'call':
                c = payload
                ti = core.fwd_transparent(c)
                if okpath and c.name == 'from_residual':
                    continue
                if ti is not None and c.args:
                    for x in (ti if isinstance(ti, tuple) else (ti,)):
                        if x < len(c.args):
                            visit(c.args[x], d - 1, pend, okpath)
                    continue
                tg = [t for t in prog.resolve(c) if t in prog.fns] if prog is not None else []
                hit = False
                if tg and pend is not None and d > 3:
                    for t in tg:
                        for gid in prog.family(t):
                            g = prog.fns[gid]
                            for b in g.blocks:
                                for st in b['s']:
                                    if st['k'] == 'a' and st['r']['k'] == 'agg' and st['r'].get('ak') in ('tuple', 'adt') and len(st['r']['ops']) > pend and len(st['r']['ops']) >= 2 and st['r'].get('adt') not in ('std::result::Result', 'std::option::Option', 'std::task::Poll'):
                                        sub = _tested_calls(g, st['r']['ops'][pend], d - 3, prog)
                                        if sub:
                                            out.update(sub)
                                            hit = True
                if not hit:
                    out.add(c.name)
                continue
            r = payload
            if r['k'] in ('use', 'cast'):
                visit(r['o'], d - 1, pend, okpath)
            elif r['k'] == 'un':
                visit(r['o'], d - 1, pend, okpath)
            elif r['k'] == 'agg' and okpath and r.get('variant') in ('Err', 'Break', 'None'):
                continue
            elif r['k'] == 'agg':
                if pend is not None and r.get('ak') in ('tuple', 'adt') and len(r['ops']) >= 2 and pend < len(r['ops']) and r.get('adt') not in ('std::result::Result', 'std::option::Option', 'std::task::Poll'):
                    visit(r['ops'][pend], d - 1, None)
                else:
                    for op in r['ops']:
                        visit(op, d - 1, pend, okpath)
            elif r['k'] == 'ref':
                visit({'c': r['p']}, d - 1, pend, okpath)
    visit(operand, depth, None)
    return out


def _value_calls(f, ogs, depth=3):
    out = set()
    for o in ogs:
        if o.kind == 'call':
            out.add(o.data.name)
    return out


def s13(ctx, rid):
    """whether the sync request is posted after an append depends on the dirty-byte trigger alone: in the client paths the only
    decisions between the append and `try_fsync_data` are the trigger result and error propagation.  A request that is also
    conditional on something else (e.g. posted only when no rotation request was posted) is suppressed exactly when that other
    condition holds for a long time - the un-synced bytes then grow without bound."""
    prog = ctx.prog
    n = 0
    for f in prog.fns.values():
        if f.file != 'src/storage/core.rs' or not f.is_coroutine:
            continue
        sends = [c for c in f.calls if c.bb in f.reachable() and c.name == 'try_fsync_data' and c.name != 'poll']
        for sc in sends:
            n += 1
            key = 'sync-request-depends-on-trigger-only|%s' % prog.fns[f.id].root
            bad = None
            trig = [c for c in f.calls if c.name == 'should_try_fsync' and c.bb in f.reachable()]
            # only decisions taken after the trigger was evaluated (i.e. after the append) matter; when the trigger is evaluated
            # in a helper, every decision after the helper's call does
            after = set()
            for tcall in trig:
                after |= f.reach_from(f.after(tcall.bb))
            if not trig:
                for c in f.calls:
                    if c.bb in f.reachable() and c.name != 'poll' and any(t in prog.fns and any(x.name == 'should_try_fsync' for g in prog.family(t) for x in prog.fns[g].calls) for t in prog.resolve(c)):
                        after |= f.reach_from(f.after(c.bb))
            for i in core.deciding_switches(f, sc.bb):
                if i not in after:
                    continue
                kind, info = core.switch_kind(f, i)
                if kind in ('try', 'result'):
                    continue
                if kind == 'value':
                    names = _tested_calls(f, f.blocks[i]['t']['o'], 40, prog)
                    if names & {'should_try_fsync'} and not (names - {'should_try_fsync', 'poll', 'branch', 'into_future'}):
                        continue
                    # a field of the outcome struct computed by the trigger
                    if any(o.kind == 'field' and o.data[1] in ('try_fsync', 'need_fsync') for o in core.origins(f, f.blocks[i]['t']['o'], stop_fields=True)):
                        continue
                    bad = (i, sorted(names) or [repr(o)[:40] for o in info][:2])
                    break
                if kind in ('option', 'enum'):
                    bad = (i, [info[:60]])
                    break
            if bad:
                ctx.bad(rid, key, f.where(bad[0]), 'posting the sync request also depends on %s: while that condition holds the request is never sent although the dirty-byte limit is exceeded' % bad[1])
            else:
                ctx.ok(rid, key, sc.where(), 'only the dirty-byte trigger (and error propagation) decides')
    if n < 2:
        raise core.AnchorLost('sync request sites in the client paths: %d' % n)


def s14(ctx, rid):
    """the worker starts the sync task for every sync request it receives: between the TryFsyncData arm of process_msg and
    try_run_fsync_task only the message kind, the message predicate and error propagation decide (no debounce, no rate limit -
    a dropped request is never re-armed, so the bytes above the limit stay un-synced until some later client action)"""
    prog = ctx.prog
    n = 0
    for f in prog.fns.values():
        if not f.file.endswith('observer_worker.rs') or not f.is_coroutine or not f.root.endswith('::process_msg'):
            continue
        for c in f.calls:
            if c.bb not in f.reachable() or c.name != 'try_run_fsync_task':
                continue
            n += 1
            key = 'sync-request-always-served|%s' % f.root
            bad = None
            for i in core.deciding_switches(f, c.bb):
                kind, info = core.switch_kind(f, i)
                if kind in ('try', 'result'):
                    continue
                if kind == 'enum' and ('OperationType' in info or 'Msg' in info):
                    continue
                if kind == 'value':
                    names = _value_calls(f, info)
                    # the message's own predicate called in place (`predicate_wrapper` inlined): an indirect call of a value whose
                    # type is the client's predicate over the active-blob statistics
                    ind = [o for o in info if o.kind == 'call' and 'indirect' in o.data.f]
                    if ind and all('ActiveBlobStat' in (f.locals[op_local(o.data.f['indirect'])]['s'] if op_local(o.data.f['indirect']) is not None else '') for o in ind):
                        names = names - {''}
                        names = names | {'predicate_wrapper'}
                    if names and not (names - {'predicate_wrapper', 'poll', 'into_future', 'not', 'active_blob_stat'}):
                        continue
                bad = (i, info if isinstance(info, str) else sorted(_value_calls(f, info)))
                break
            if bad:
                ctx.bad(rid, key, f.where(bad[0]), 'a received sync request is served only if %s: requests that arrive while the condition is false are dropped and nothing re-arms them' % (bad[1],))
            else:
                ctx.ok(rid, key, c.where(), 'every TryFsyncData message reaches try_run_fsync_task')
    if n < 1:
        raise core.AnchorLost('try_run_fsync_task in process_msg: %d' % n)


def s15(ctx, rid):
    """`sync without further client action`: the dirty-byte level a write or delete reports to the storage (and on which the sync
    request is decided) is read *after* the record was appended.  In a blob-level body that appends and reports, no
    dirty_bytes() reading that reaches the result precedes the append - a stale level lets the operation that crosses the
    limit pass without a sync request"""
    prog = ctx.prog
    L, E = prog.may_reach()
    n = 0
    for f in prog.fns.values():
        if f.file != 'src/blob/core.rs' or not f.is_coroutine:
            continue
        reads = [c for c in f.calls if c.bb in f.reachable() and c.name == 'dirty_bytes']
        if not reads:
            continue
        def appends(c):
            if c.name == 'poll':
                return False
            for t in prog.resolve(c):
                if t in prog.fns and any('write_append' in x for x in [t] + sorted(L.get(t, ()))):
                    return True
            return False
        apps = [c for c in f.calls if c.bb in f.reachable() and appends(c)]
        if not apps:
            continue
        for d in reads:
            n += 1
            key = 'dirty-level-read-after-append|%s' % prog.fns[f.id].root
            carry = core.flows_forward(f, d.dest[0], transparent=core.fwd_transparent)
            later = [a for a in apps if a.bb in f.reach_from(f.after(d.bb))]
            if 0 in carry and later:
                ctx.bad(rid, key, d.where(), 'the dirty-byte level that is reported with the result is read before the record is appended (`%s` follows): the operation that crosses max_dirty_bytes_before_sync reports the old level and no sync is requested' % later[0].name)
            else:
                ctx.ok(rid, key, d.where(), 'read after the append (or on a path without one)')
    if n < 1:
        raise core.AnchorLost('dirty_bytes readings in appending blob bodies: %d' % n)


def s16(ctx, rid):
    """every notification of the maintenance worker is decided by its own condition: two notifications posted by one client
    operation (sync request, deferred index dump, blob switch) are never the two alternatives of one branch - `if sync {..} else
    if defer {..}` drops the deferred dump of a closed blob (the only thing that ever syncs a deletion record in it) whenever
    the sync is due as well"""
    prog = ctx.prog
    n = 0
    for f in prog.fns.values():
        if f.file != 'src/storage/core.rs' or not f.is_coroutine:
            continue
        notes = [c for c in f.calls if c.bb in f.reachable() and c.name != 'poll' and any('storage::observer::Observer' in t for t in prog.resolve(c))
                 and c.name not in ('run', 'shutdown', 'new', 'is_pending', 'is_running')]
        if len(notes) < 2:
            continue
        dec = {c.bb: set(core.deciding_switches(f, c.bb)) for c in notes}
        for i, x in enumerate(notes):
            for y in notes[i + 1:]:
                if x.name == y.name:
                    continue
                n += 1
                key = 'notifications-independent|%s|%s-%s' % (prog.fns[f.id].root, x.name, y.name)
                excl = None
                for sw in dec[x.bb] & dec[y.bb]:
                    t = f.blocks[sw]['t']
                    outs = [tg for _, tg in t['vals']] + [t['otherwise']]
                    rx = {o for o in outs if x.bb in f.reach_from([o], avoid_enter=[sw])}
                    ry = {o for o in outs if y.bb in f.reach_from([o], avoid_enter=[sw])}
                    if rx and ry and not (rx & ry):
                        excl = sw
                if excl is not None:
                    ctx.bad(rid, key, f.where(excl), '`%s` and `%s` are the two alternatives of one branch: when both are due only one request reaches the worker, the other is lost until some later operation happens to post it again' % (x.name, y.name))
                else:
                    ctx.ok(rid, key, x.where(), 'decided independently', nontrivial=False)
    if n < 1:
        raise core.AnchorLost('pairs of worker notifications in one storage operation: %d' % n)


def s17(ctx, rid):
    """the size recorded as synced counts written bytes only.  `FileInner.size` is advanced when an append RESERVES its range
    (fetch_add before the positional write); a sync that records a value loaded from that counter marks the ranges of appends
    still in flight as synced although their bytes reach the file after the fsync returned.  Unless the recording is made
    conditional on there being no append in flight (a test of another counter), this is finding F16"""
    prog = ctx.prog
    n_res = sum(1 for f in prog.fns.values() for c in f.calls if c.bb in f.reachable() and prims.is_reservation(prog, f, c))

    def loads_reservation_counter(g, c, depth=2):
        if c.path.startswith('std::sync::atomic::Atomic') and c.name == 'load':
            return prims.receiver_field(g, c) == 'size'
        if depth > 0:
            for t in prog.resolve(c):
                h = prog.body_of(t) if t in prog.fns else None
                if h is not None and not h.is_coroutine and len(h.calls) <= 6:
                    ret = [o for o in core.origins(h, 0) if o.kind == 'call']
                    if ret and all(loads_reservation_counter(h, o.data, depth - 1) for o in ret):
                        return True
        return False
    n = 0
    for f in prog.fns.values():
        for c in f.calls:
            if c.bb not in f.reachable() or not c.path.startswith('std::sync::atomic::Atomic') or c.name != 'fetch_max' or prims.receiver_field(f, c) != 'synced_size':
                continue
            n += 1
            key = 'synced-size-counts-written-bytes|%s' % prog.fns[f.id].root
            srcs = [o for o in core.origins_ip(prog, f, c.args[1], depth=2) if o.kind == 'call']
            from_res = [o for o in srcs if loads_reservation_counter(o.fn, o.data)]
            if not from_res or n_res == 0:
                ctx.ok(rid, key, c.where(), 'the recorded size does not come from the reservation counter')
                continue
            # guarded by a test of another atomic (an in-flight counter)?
            guarded = False
            for sw in core.deciding_switches(f, c.bb):
                for o in core.origins(f, f.blocks[sw]['t']['o']):
                    if o.kind == 'call' and o.data.path.startswith('std::sync::atomic::Atomic') and prims.receiver_field(f, o.data) not in ('size', 'synced_size', None):
                        guarded = True
            if guarded:
                ctx.ok(rid, key, c.where(), 'recorded only when a test of another counter allows it')
            else:
                ctx.bad(rid, key, c.where(), 'the size recorded as synced is loaded from the reservation counter (%s; %d reservation sites advance it before their write): the range of an append that is in flight while the sync runs is marked synced, its bytes are written after the fsync returned, and dirty_bytes() reports 0 for them' % (from_res[0].data.where(), n_res))
    if n < 1:
        raise core.AnchorLost('updates of synced_size: %d' % n)


def s18(ctx, rid):
    """dirty bytes are counted exactly: `File::dirty_bytes` is the difference of the written and the synced counter - no
    rounding, scaling or masking (division, multiplication, remainder, shift, bit-and).  Counted in blocks, up to a block of
    acknowledged bytes at the end of the blob is invisible to the trigger, and with a small limit nothing ever triggers"""
    prog = ctx.prog
    n = 0
    for f in prog.fns.values():
        if not f.file.startswith('src/io/') or prog.fns[f.id].root.rsplit('::', 1)[-1] != 'dirty_bytes' or f.kind == 'Closure':
            continue
        if not any(c.name in ('load', 'synced_size', 'written_size', 'size') for c in f.calls):
            continue      # a forwarding wrapper
        n += 1
        key = 'dirty-bytes-exact|%s' % f.id
        ops = set()
        seen = set()

        def walk(o, d=8):
            if d <= 0:
                return
            for og in core.origins(f, o, stop_fields=True):
                if og.kind in ('binop', 'unop'):
                    k = (og.bb, id(og.data))
                    if k in seen:
                        continue
                    seen.add(k)
                    ops.add(og.data.get('op', ''))
                    for side in ('a', 'b', 'o'):
                        if side in og.data:
                            walk(og.data[side], d - 1)
        walk(0)
        odd = sorted(x for x in ops if not x.startswith('Sub'))
        if odd:
            ctx.bad(rid, key, f.where(), 'the dirty-byte count is not the plain difference of the two counters (operations: %s): part of the acknowledged bytes is invisible to the sync trigger' % ', '.join(odd))
        else:
            ctx.ok(rid, key, f.where(), 'written - synced (operations: %s)' % (', '.join(sorted(ops)) or 'saturating_sub'))
    if n < 1:
        raise core.AnchorLost('File::dirty_bytes: %d' % n)


RULES = [
    Rule('C12.S1', 'every ok-return of the blob constructor is preceded by the header append and then a completed ok file sync', s1, 2),
    Rule('C12.S2', 'every index dump / index-file construction call is dominated by an ok sync of the blob file (in the function or in every caller)', s2, 2),
    Rule('C12.S3', 'where a blob taken (Option::take) out of the active slot is pushed to the closed list, that push is dominated by an ok sync of the active blob file', s3, 1),
    Rule('C12.S3b', 'the sync of the active blob and its retirement happen under the same live exclusive storage guard', s3b, 1),
    Rule('C12.S4', 'every ok-return of the public fsyncdata on which an active blob exists is preceded by an ok file sync', s4, 1),
    Rule('C12.S5', 'every append to the active blob feeds the dirty-byte check (on every path to the ok-return in the write path); every check controls a sync request on its true edge; the worker handler reaches a sync', s5, 5),
    Rule('C12.S17', 'the size recorded as synced counts written bytes only, not reservations of appends in flight', s17, 1),
    Rule('C12.S18', 'dirty bytes are the exact difference of the written and the synced counter', s18, 1),
    Rule('C12.S6', 'the synced-size counter is only advanced by fetch_max after an ok sync_all, with a size captured before the sync', s6, 2),
    Rule('C12.S7', 'in index construction the written-flag rewrite follows the ok body append and is followed by an ok sync', s7, 1),
    Rule('C12.S9', 'sync requests to the worker are sent with the waiting send, never dropped when the queue is full (C13.L9 instances)', s9, 1),
    Rule('C12.S10', 'the worker skips starting the sync task only while a sync task is really running (decided by JoinHandle::is_finished)', s10, 1),
    Rule('C12.S11', 'the sync trigger is a function of the current dirty-byte level, the limit and the in-progress flag only (level-triggered)', s11, 3),
    Rule('C12.S12', 'the configured dirty-byte limit reaches the configuration unchanged for every value', s12, 3),
    Rule('C12.S13', 'posting the sync request after an append depends on the dirty-byte trigger alone', s13, 2),
    Rule('C12.S15', 'the dirty-byte level reported by a write / delete is read after the append', s15, 1),
    Rule('C12.S16', 'two worker notifications of one operation are never the alternatives of one branch', s16, 1),
    Rule('C12.S14', 'the worker serves every sync request it receives (no debounce between the message arm and the task start)', s14, 1),
    Rule('C12.S8', 'every boolean in-progress / request-pending flag that was set is released on every exit (drop guard or explicit clear on all paths): the sync it guards is never suppressed for ever', s8, 1),
]
