"""C11 I/O fault containment."""
import re
import core
import prims
import moveout
from core import op_local, op_const
from engine import Rule

EXPLANATION = (
    "Error exits are CFG paths no healthy-machine test takes: every `?` (Try::branch Break edge + from_residual) and every explicit "
    "Err(..) return. X3: after a value is moved out of shared state (take/replace of Safe.active_blob, pop of the closed list, "
    "mem::take of the in-memory header map) no err-exit is reachable before it is handed back. L1: an Err from handling a worker "
    "message never ends the maintenance loop (same instances as C13.L1). F3: in storage/, blob/, record/, io/ no Result of a fallible "
    "in-crate or file-system call is dropped unobserved: its value must reach a `?`, a match/if-let/is_ok/is_err branch, a "
    "combinator that is itself observed, the function's return value, or a logging call; the enumerated deliberate exceptions carry "
    "a reason. F4: file appends use all-or-error primitives: a partial-write primitive (write_at / pwrite* / Write::write) must have "
    "its returned count compared. F5: every ok-return of the record append is preceded by the OS write of the whole record (the "
    "header is pushed into the index only on the ok edge of the append). Decides this error-path structure, not the outcome of "
    "every n-th failing operation.")
EXPLANATION += (" " + 'F8 after the ok edge of delete_in_active no fallible step whose callee can really return Err follows (closed-blob errors are logged inside delete_in_closed).')
ASSUMPTIONS = ["the err-exit of a body is every return reached through FromResidual::from_residual or an explicit Err(..) aggregate"]

FILES = ('src/storage/', 'src/blob/', 'src/record/', 'src/io/')


def x3(ctx, rid):
    prog = ctx.prog
    n = 0
    for (f, c, what) in moveout.moveouts(prog):
        n += 1
        key = 'restore-on-error|%s|%s' % (what, prog.fns[f.id].root)
        r = moveout.analyse(prog, f, c, what)
        if r['err']:
            bb, path = r['err'][0]
            ctx.bad(rid, key, f.where(bb), 'after `%s` moved the %s out of shared state an error return is reachable before it is handed back: the data it indexes is unreadable for the rest of the session' % (c.name, what),
                    witness=['bb%d %s' % (b, f.where(b)) for b in (path or [])])
        else:
            ctx.ok(rid, key, c.where(), 'no err-exit between the move-out and the hand-back (sinks: %s)' % r['sinks'])
    if n < 4:
        raise core.AnchorLost('move-out sites: %d' % n)


def l1(ctx, rid):
    import props.c13 as c13
    c13.l1(ctx, rid)


# F3 -------------------------------------------------------------------------------------------------------------

OBSERVERS = ('branch', 'is_ok', 'is_err', 'unwrap', 'expect', 'unwrap_or', 'unwrap_or_else', 'unwrap_or_default', 'ok', 'err',
             'map', 'map_err', 'and', 'and_then', 'or', 'or_else', 'with_context', 'context', 'into_future', 'poll', 'new_unchecked',
             'from_residual', 'map_or', 'map_or_else', 'unwrap_or_else', 'is_ok_and', 'is_err_and', 'transpose', 'flatten', 'fold',
             'into', 'from', 'push', 'extend', 'send', 'log', 'expect_err', 'unwrap_err', 'cloned', 'copied', 'as_ref', 'as_mut',
             'iter', 'into_iter', 'inspect_err')

EXCEPTIONS = {
    # (root fn, callee name) -> reason
    ('storage::core::Safe::<K>::try_dump_old_blob_indexes', 'acquire'):
        'let _ = dump_sem.acquire().await: throttling permit; a closed semaphore only removes throttling',
}


def is_fallible_call(prog, c):
    if c.name in ('poll', 'branch', 'from_residual', 'into_future', 'new_unchecked'):
        return False
    ty = c.fn.locals[c.dest[0]]
    s = ty.get('s', '')
    if ty.get('h') == 'std::result::Result' or 'Output = std::result::Result<' in s or 'Output = Result<' in s:
        return True
    if ty.get('h') in ('alias', 'std::pin::Pin'):
        return core.returns_result(prog, c)
    return False


def result_observed(prog, f, c):
    """is the (awaited) result of call c observed?  Follows the value forward: it is observed when some local carrying it is
    the operand of a switch/discriminant, flows into _0, or is passed to a call that is not a plain drop."""
    carry = core.result_flow(f, c)
    if 0 in carry:
        return True   # returned to the caller (tail expression / closure result)
    # the Ready/Pending discriminant of the poll loop is not an observation of the Result
    poll_discr = set()
    for b in f.blocks:
        if b['c']:
            continue
        for s in b['s']:
            if s['k'] == 'a' and s['r']['k'] == 'discr' and (core.place_type_str(f, s['r']['p']) or '').startswith('std::task::Poll'):
                poll_discr.add(s['d'][0])
    # any carrying local used as: discriminant read, operand of a non-transparent call, returned, stored into a place
    for i, b in enumerate(f.blocks):
        if b['c']:
            continue
        for s in b['s']:
            if s['k'] != 'a':
                continue
            r = s['r']
            if r['k'] == 'discr' and r['p'][0] in carry and not (core.place_type_str(f, r['p']) or '').startswith('std::task::Poll'):
                return True
            if s['d'][0] == 0 and any(p[0] in carry for p in core.rvalue_places(r)):
                return True
            # stored into a field of something else (struct literal, tuple): observed by the holder
            if r['k'] == 'agg' and r.get('ak') in ('adt', 'tuple', 'closure', 'coroutine') and r.get('adt') not in ('std::option::Option', 'std::result::Result', 'std::task::Poll'):
                if any(op_local(o) in carry for o in r['ops']):
                    return True
        t = b['t']
        if t['k'] == 'call':
            cc = f.call_at(i)
            if cc.bb == c.bb:
                continue
            if any(op_local(a) in carry for a in cc.args):
                if cc.name in ('branch', 'is_ok', 'is_err', 'unwrap', 'expect', 'unwrap_or', 'unwrap_or_else', 'unwrap_or_default',
                               'map_or', 'map_or_else', 'expect_err', 'unwrap_err', 'is_ok_and', 'is_err_and', 'log', 'push', 'extend',
                               'inspect_err', 'fold'):
                    return True
                if core.fwd_transparent(cc) is None and cc.path != 'std::mem::drop' and cc.name not in ('ok', 'err', 'drop'):
                    # handed to some other function (e.g. collected, joined, returned by a closure): observed there
                    return True
                if cc.dest[0] == 0:
                    return True
        elif t['k'] == 'switch' and op_local(t['o']) in carry and op_local(t['o']) not in poll_discr:
            return True
    return False


def f3(ctx, rid):
    prog = ctx.prog
    n = 0
    nbad = 0
    for f in prog.fns.values():
        if not f.file.startswith(FILES):
            continue
        for c in f.calls:
            if c.bb not in f.reachable() or c.from_expansion:
                continue
            if not is_fallible_call(prog, c):
                continue
            # only calls whose error is an I/O / storage error: in-crate callees, file system, bincode
            if not (c.decl_crate in ('pearl', 'std', 'tokio', 'bincode', 'nix', 'libc') or c.crate in ('pearl', 'std', 'tokio', 'bincode')):
                continue
            if c.decl_crate in ('std', 'core', 'alloc') and not re.search(r'fs::|io::|os::unix|File|sync::RwLock|sync::Mutex', c.path):
                continue
            if re.search(r'sync::RwLock|sync::Mutex|TryFrom|TryInto|try_into|try_from|str::from_utf8|parse', c.path):
                continue
            n += 1
            if result_observed(prog, f, c):
                continue
            if c.path.startswith('tokio::sync::Semaphore') and c.name.startswith('acquire'):
                continue    # a throttling permit: AcquireError means `semaphore closed`, never a storage error
            root = prog.fns[f.id].root
            key = 'dropped-result|%s|%s' % (root, c.name)
            ex = EXCEPTIONS.get((root, c.name))
            if ex:
                ctx.ok(rid, key, c.where(), 'exception: ' + ex, nontrivial=False)
                continue
            nbad += 1
            ctx.bad(rid, key, c.where(), 'the Result of `%s` is dropped without being checked, propagated or logged' % c.full[:120])
    ctx.ok(rid, 'scan', '', '%d fallible storage-layer call sites examined, %d unobserved' % (n, nbad), queries=n)
    if n < 150:
        raise core.AnchorLost('fallible call sites: %d' % n)


PARTIAL_WRITES = ('std::os::unix::fs::FileExt::write_at', 'std::io::Write::write', 'std::io::Write::write_vectored')


def f4(ctx, rid):
    prog = ctx.prog
    n = 0
    for f in prog.fns.values():
        if not f.file.startswith(FILES):
            continue
        for c in f.calls:
            part = prims.is_raw(c, PARTIAL_WRITES) or (c.crate in ('libc', 'nix') and re.match(r'^p?writev?(64)?$|^pwritev2$', c.name))
            full = prims.is_raw(c, ('std::os::unix::fs::FileExt::write_all_at', 'std::io::Write::write_all'))
            if not (part or full):
                continue
            if prims.is_raw(c, prims.RAW_STREAM_WRITE) and not prims.is_stream_write_to_file(c):
                continue
            n += 1
            key = 'all-or-error|%s|%s' % (prog.fns[f.id].root, c.name)
            if full:
                ctx.ok(rid, key, c.where(), 'all-or-error primitive', nontrivial=False)
                continue
            # the returned count must be compared with the requested length somewhere
            carry = core.flows_forward(f, c.dest[0], transparent=core.fwd_transparent)
            cmp_ok = False
            for b in f.blocks:
                if b['c']:
                    continue
                for s in b['s']:
                    if s['k'] == 'a' and s['r']['k'] == 'bin' and s['r']['op'] in ('Eq', 'Ne', 'Lt', 'Le', 'Gt', 'Ge', 'Sub', 'SubWithOverflow', 'AddWithOverflow', 'Add'):
                        if any(op_local(o) in carry for o in (s['r']['a'], s['r']['b'])):
                            ogs = core.origins(f, s['r']['a']) + core.origins(f, s['r']['b'])
                            if any(o.kind == 'call' and o.data.name in ('len', 'remaining') for o in ogs) or any(o.kind in ('arg', 'upvar') for o in ogs):
                                cmp_ok = True
            if cmp_ok:
                ctx.ok(rid, key, c.where(), 'partial-write primitive whose returned count is compared with the requested length')
            else:
                ctx.bad(rid, key, c.where(), 'a partial-write primitive (`%s`) is used for file data and its returned byte count is never compared with the requested length: a short write is acknowledged as success' % prims.base(c.target))
    if n < 5:
        raise core.AnchorLost('file write sites: %d' % n)


def f5(ctx, rid):
    """index insertion only on the ok edge of the append (an operation that returned an error is never served later)"""
    prog = ctx.prog
    FW = prims.FileWrappers(prog)
    appenders = set(FW.append_wrappers())
    rec_append = {a for a in appenders if 'writable_data' in a}
    lvl = set()
    for f in prog.fns.values():
        for c in f.calls:
            if any(t in rec_append for t in prog.resolve(c)) and prog.fns[f.id].root not in appenders and not prog.fns[f.id].root.startswith('<io::'):
                lvl.add(prog.fns[f.id].root)
    n = 0
    for f in prog.fns.values():
        if not f.file.startswith('src/blob/') or not f.is_coroutine:
            continue
        for c in f.calls:
            if c.name == 'poll' or not any(t in lvl for t in prog.resolve(c)):
                continue
            pushes = prims.index_push_sites(prog, f)
            for p in pushes:
                n += 1
                key = 'push-only-after-ok-append|%s' % prog.fns[f.id].root
                ob = core.ok_block(f, c)
                if ob is None or p.bb in f.reach_from([0], avoid_enter=[ob]):
                    ctx.bad(rid, key, p.where(), 'the record header can be pushed into the index on a path where the append did not complete successfully: a failed write would be served later')
                else:
                    ctx.ok(rid, key, p.where(), 'index push dominated by the ok edge of the append')
    if n < 2:
        raise core.AnchorLost('append->push bodies: %d' % n)


def f6(ctx, rid):
    """an index dump interrupted by an I/O fault must not leave a file that is trusted: two-phase written flag + extent gate
    (C03.I8 / C03.I5 instances)"""
    import props.c03 as c03
    c03.i8(ctx, rid)
    c03.i5(ctx, rid)


def f7(ctx, rid):
    """once the fault clears the storage keeps rotating / syncing: request-pending and in-progress flags are released on every
    path, including the error exits of their handlers (C12.S8 / C13.L8 instances)"""
    import props.c12 as c12
    c12.s8(ctx, rid, only_sync=False)


def never_err(prog, fid, _seen=None):
    """the async fn / fn `fid` cannot return Err: every definition of its return value is an Ok(..) aggregate"""
    b = prog.body_of(fid)
    if b is None:
        return False
    eds = [(bb, k) for (bb, k, _) in core.exit_defs(b) if bb in b.reachable()]
    return bool(eds) and all(k == 'ok' for _, k in eds)


def f8(ctx, rid):
    """a multi-blob delete that already wrote its tombstone into the active blob is not reported as failed: after the ok edge of
    delete_in_active no error return of the operation is reachable (errors of the closed blobs are logged and counted as 0)"""
    prog = ctx.prog
    n = 0
    for f in prog.fns.values():
        for c in f.calls:
            if c.name == 'poll' or not any(t.endswith('::delete_in_active') or t.endswith('::delete_in_closed') for t in prog.resolve(c)):
                continue
            ob = core.ok_block(f, c)
            if ob is None:
                continue
            n += 1
            key = 'no-error-after-tombstone|%s|%s' % (prog.fns[f.id].root, c.name)
            bad = None
            reach = f.reach_from([ob])
            for c2 in f.calls:
                if c2.bb not in reach or c2.name in ('poll', 'branch', 'from_residual', 'into_future', 'new_unchecked') or not is_fallible_call(prog, c2):
                    continue
                eb = core.err_block(f, c2)
                if eb is None:
                    continue
                tg = [t for t in prog.resolve(c2) if t in prog.fns]
                if tg and all(never_err(prog, t) for t in tg):
                    continue
                bad = c2
                break
            if bad is not None:
                ctx.bad(rid, key, bad.where(), 'after deletion records were appended (ok edge of `%s`) a failure of `%s` makes the whole delete return Err: the key is served as deleted from then on although the operation reported an error' % (c.name, bad.name))
            else:
                ctx.ok(rid, key, c.where(), 'no fallible step that can really fail follows the tombstone (closed-blob errors are logged inside delete_in_closed)')
    if n < 1:
        raise core.AnchorLost('delete_in_active call with an ok edge: %d' % n)


def f9(ctx, rid):
    """the position a record is written at is the position its index entry records: appends reserve their offset from the
    in-memory size counter (advanced before the write, never rolled back) and write positionally, so no file of the io layer may be
    opened with O_APPEND - on such a descriptor pwrite ignores the offset and appends at the real end of file, and after one failed
    or short append every later acknowledged record of that file lies elsewhere than its index entry says"""
    prog = ctx.prog
    n = 0
    bad = 0
    for f in prog.fns.values():
        if not f.file.startswith('src/io/'):
            continue
        for c in f.calls:
            if 'OpenOptions' not in c.path or c.bb not in f.reachable():
                continue
            if c.name in ('read', 'write', 'create', 'truncate', 'create_new', 'append'):
                n += 1
            if c.name == 'append':
                k = core.op_const(c.args[1]) if len(c.args) > 1 else None
                val = None
                if k is not None:
                    val = k.get('int', k.get('bool'))
                if k is not None and val in (0, False, 'false'):
                    continue
                bad += 1
                ctx.bad(rid, 'no-o-append|%s' % prog.fns[f.id].root, c.where(), 'a file of the io layer is opened with append(true): positional writes at reserved offsets are silently turned into appends at the real end of file; after one failed / short append to a re-opened blob every later acknowledged record is written at another position than its index entry points to and cannot be read back')
    if n < 2:
        raise core.AnchorLost('OpenOptions configuration calls in src/io: %d' % n)
    if not bad:
        ctx.ok(rid, 'no-o-append|scan', '', '%d OpenOptions configuration calls in src/io, none sets O_APPEND' % n, queries=n)


def f10(ctx, rid):
    """after a failed index dump and a restart the stale index file is rejected (C03.I2 instances: blob size by equality)"""
    import props.c03 as c03
    c03.i2(ctx, rid)


def f11(ctx, rid):
    """a quarantined blob is never overwritten by a later quarantine: blob ids are not reused (C07.H6 instances)"""
    import props.c07 as c07
    c07.h6(ctx, rid)


def f12(ctx, rid):
    """the blob size an index file is stamped with when it is dumped and the size it is validated against when it is loaded in
    the same session are the same quantity (today: the size counter of the blob file). After a failed append the counter and
    the length on disk differ; if only one side moved to another notion of size, every later load of that blob's index would
    be rejected, the regeneration scan would run past the data and the acknowledged records of the blob would be lost for
    the session"""
    prog = ctx.prog
    sides = {'dump': [], 'load': []}
    for f in prog.fns.values():
        if f.file != 'src/blob/core.rs':
            continue
        for c in f.calls:
            if c.bb in f.reachable() and c.name in sides and 'IndexTrait' in c.path and len(c.args) > 1:
                sites = []
                lv = core.scalar_leaves(prog, f, c.args[1], depth=4, sites=sites)
                sides[c.name].append((f, c, frozenset(x for x in lv if x[0] in ('call', 'field')), frozenset()))
    if not sides['dump'] or not sides['load']:
        raise core.AnchorLost('Blob -> IndexTrait::dump/load call sites: %d/%d' % (len(sides['dump']), len(sides['load'])))
    ref = sides['load'][0]
    for kind in ('load', 'dump'):
        for (f, c, lv, st) in sides[kind]:
            key = 'index-size-one-notion|%s|%s' % (prog.fns[f.id].root, kind)
            # .. and it is the size of the blob *now*: a size read before an append of this body and used after it is another
            # quantity (`let size = file_size(); write(..); index.load(size)`)
            L12, _E12 = prog.may_reach()
            stale = None
            for o in core.origins(f, c.args[1]):
                if o.kind != 'call' or o.fn.id != f.id:
                    continue
                for a in f.calls:
                    if a.bb in f.reachable() and a.name != 'poll' and a.bb in f.reach_from(f.after(o.data.bb)) and c.bb in f.reach_from(f.after(a.bb)) \
                       and any(t in prog.fns and any('write_append' in x for x in [t] + sorted(L12.get(t, ()))) for t in prog.resolve(a)):
                        stale = (o.data, a)
            if stale:
                ctx.bad(rid, key, c.where(), 'the blob size given to the index %s was read (%s) before an append of this body (%s): the index is validated against a size the blob no longer has' % (kind, stale[0].where(), stale[1].where()))
                continue
            if (lv, st) == (ref[2], ref[3]):
                ctx.ok(rid, key, c.where(), 'size operand computed from %s' % sorted(lv))
            else:
                ctx.bad(rid, key, c.where(), 'the blob size given to the index %s is computed from %s, the one the index is loaded and validated '
                        'against from %s: after any divergence of the two (failed append) the index of a closed blob is rejected in-session '
                        'and its records are lost' % (kind, sorted('%s %s' % x for x in lv if x[0] in ('call', 'field')), sorted('%s %s' % x for x in ref[2] if x[0] in ('call', 'field'))))


def f13(ctx, rid):
    """`once the fault clears the storage accepts further operations`: an element registered in a shared collection for the
    duration of an operation (an in-flight marker) is removed on every exit, error exits included - a `?` between the
    registration and the plain removal statement leaves the marker behind after an I/O fault, and every retry of that key is
    acknowledged as `already being written` without ever being stored"""
    import props.c14 as c14
    prog = ctx.prog
    eff = c14.collection_effects(prog)
    n = 0
    bad = 0
    for f in prog.fns.values():
        if not f.is_coroutine or not (f.file.startswith('src/storage/') or f.file.startswith('src/blob/')):
            continue
        adds, rems = c14.collection_sites(prog, f, eff)
        for (a, fa) in adds:
            mine = [r.bb for (r, fr) in rems if fr == fa and r is not a and r.bb in f.reach_from(f.after(a.bb))]
            if not mine:
                continue    # a lasting registration (closed-blob list, ..), not a marker of this operation
            n += 1
            key = 'registration-released-on-error|%s|%s' % (f.root, fa)
            free = f.reach_from(f.after(a.bb), avoid_exit=mine)
            errs = [bb for (bb, k, _) in core.exit_defs(f) if k == 'err' and bb in free]
            if errs:
                bad += 1
                ctx.bad(rid, key, a.where(), '`%s` registers an element in `%s` for the duration of the operation, but an error exit (%s) is reachable without the removal: after a failed operation the marker stays and later operations on that element are refused or acknowledged without effect' % (a.name, fa, f.where(errs[0])))
            else:
                ctx.ok(rid, key, a.where(), 'removed on every exit', nontrivial=False)
    ctx.ok(rid, 'scan', '', '%d per-operation registrations in shared collections, %d not released on an error exit' % (n, bad), nontrivial=False, queries=max(1, n))


def f14(ctx, rid):
    """C05.V9 instances: the configured data-validation flag reaches the blob config of every blob opened at start-up - a failed
    (half-written) overwrite in any blob, not only the newest, is found by the audit and the blob is quarantined"""
    import props.c05 as c05
    c05.v9(ctx, rid)


def f15(ctx, rid):
    """`once the fault clears the storage accepts further operations`: the leftover of a failed index dump is replaced by the
    next dump because the index is built with the configured `recreate_index_file` permission.  Wherever index parameters are
    constructed, the `recreate` parameter receives that configuration field (and nothing else does) - two positional bools
    swapped make the permission follow `bloom filter configured`, and without a bloom filter a torn index file blocks every
    later dump and every later start"""
    prog = ctx.prog
    n = 0
    for f in prog.fns.values():
        for c in f.calls:
            if c.bb not in f.reachable() or c.name != 'new' or not any(t.endswith('IndexParams::new') for t in prog.resolve(c) if t in prog.fns):
                continue
            callee = [prog.fns[t] for t in prog.resolve(c) if t in prog.fns][0]
            for i, a in enumerate(c.args):
                pname = callee.debug_name(i + 1) or ''
                lv = core.scalar_leaves(prog, f, a, depth=0)
                has_cfg = ('field', 'recreate_index_file') in lv
                if 'recreate' not in pname and not has_cfg:
                    continue
                n += 1
                key = 'recreate-permission-is-the-configured-one|%s|%s' % (prog.fns[f.id].root, pname)
                if 'recreate' in pname and has_cfg:
                    ctx.ok(rid, key, c.where(), 'parameter `%s` receives config.recreate_index_file' % pname)
                elif 'recreate' in pname:
                    ctx.bad(rid, key, c.where(), 'the `%s` parameter of the index parameters is given %s instead of the configured recreate_index_file: an existing (torn) index file can not be replaced, every later dump of that blob and every later start fails' % (pname, sorted(str(x) for x in lv)[:3]))
                else:
                    ctx.bad(rid, key, c.where(), 'config.recreate_index_file is handed to the parameter `%s` of the index parameters (positional arguments swapped?)' % pname)
    if n < 1:
        raise core.AnchorLost('constructions of IndexParams with a recreate parameter: %d' % n)


def f16(ctx, rid):
    """the fault of one file is contained in the maintenance pass: where the index dump of the closed blobs runs in a loop, the
    failure of one blob's dump does not leave the loop (it is logged or accumulated and the next blob is tried).  With `?` on
    the per-blob dump the first blob whose index file cannot be written ends every pass, and no later blob ever gets its index
    on disk while that fault lasts"""
    prog = ctx.prog
    n = 0
    for f in prog.fns.values():
        if not f.file.startswith('src/storage/') or not f.is_coroutine:
            continue
        for c in f.calls:
            if c.bb not in f.reachable() or c.name != 'dump' or not any(t.startswith('blob::core::Blob') for t in prog.resolve(c)):
                continue
            heads = core.loop_headers_of(f, c.bb)
            # the poll loop of the await itself is not the iteration over the blobs: keep loops that contain an iterator step
            heads = [h for h in heads if any(x.name == 'next' and x.bb in [bb for (hh, body) in f._loops if hh == h for bb in body] for x in f.calls)]
            if not heads:
                continue
            if '::init' in prog.fns[f.id].root:
                continue      # start-up: a failure is reported to the caller of init, nothing is running yet
            n += 1
            key = 'dump-failure-contained|%s' % prog.fns[f.id].root
            errs = core.err_edge(f, c)
            rets = [i for i in f.reachable() if f.blocks[i]['t']['k'] == 'return']
            leave = [r for r in rets if errs and r in f.reach_from(errs, avoid_enter=heads)]
            if leave:
                ctx.bad(rid, key, c.where(), 'a failed index dump of one closed blob leaves the loop over the closed blobs (the error is propagated): while that one file cannot be written no later blob gets its index dumped')
            else:
                ctx.ok(rid, key, c.where(), 'the failure of one dump is handled inside the loop')
    if n < 2:
        raise core.AnchorLost('index dumps inside a loop over the closed blobs: %d' % n)


RULES = [
    Rule('C11.X3', 'no err-exit is reachable between a move-out of shared state and its hand-back', x3, 4),
    Rule('C11.L1', 'an error while handling a worker message never ends the maintenance loop (C13.L1 instances)', l1, 4),
    Rule('C11.F3', 'no Result of a fallible storage-layer call is dropped unobserved', f3, 1),
    Rule('C11.F4', 'file data is written with all-or-error primitives, or the returned byte count is compared', f4, 5),
    Rule('C11.F5', 'a record header reaches the index only on the ok edge of its append', f5, 2),
    Rule('C11.F7', 'boolean request-pending / in-progress flags are released on every path including error exits (C12.S8 instances)', f7, 1),
    Rule('C11.F8', 'once the tombstone is in the active blob the delete cannot be reported as failed', f8, 1),
    Rule('C11.F16', 'a failed index dump of one closed blob does not end the pass over the closed blobs', f16, 2),
    Rule('C11.F9', 'no file of the io layer is opened with O_APPEND (positional writes at reserved offsets must be honoured)', f9, 1),
    Rule('C11.F10', 'a stale index left behind by a failed dump is rejected at the next start (C03.I2 instances)', f10, 2),
    Rule('C11.F11', 'blob ids in use in the work dir or the quarantine dir are never handed out again (C07.H6 instances)', f11, 3),
    Rule('C11.F12', 'an index is dumped with the same notion of blob size it is later loaded and validated against', f12, 2),
    Rule('C11.F13', 'a per-operation registration in a shared collection is removed on every exit, error exits included', f13, 1),
    Rule('C11.F14', 'the configured data-validation flag reaches every blob opened at start-up (C05.V9 instances)', f14, 3),
    Rule('C11.F15', 'the recreate permission of the index parameters is the configured recreate_index_file', f15, 1),
    Rule('C11.F6', 'an index file cut short by a failed dump is never trusted: written flag set in a second phase, extent checked at open (C03.I8/I5 instances)', f6, 2),
]
