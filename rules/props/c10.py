"""C10 Filters never give a false negative - structural clauses."""
import core
import prims
from core import op_local, op_const
from engine import Rule

EXPLANATION = (
    "B1: who may say `definitely absent` and under which guard - every construction of FilterResult::NotContains that flows into a "
    "returned filter answer lies in its table owner and is dominated by a branch on that owner's justifying test (a clear bit in "
    "memory / on file, key outside [min,max], exact miss in the in-memory header map, no active blob, no candidate child, both "
    "operands absent); Default and the Option<T> impl yield NeedAdditionalCheck. B2: every insertion into the in-memory header map is "
    "dominated by filter.add(key). B3: CombinedFilter::{add, checked_add_assign, clear_filter} reach the operation on every filter "
    "component (fields from the ADT table). B4: add_child merges the pushed child's filter into the node and, in a loop that follows "
    "InnerNode.parent, into every ancestor; the overwrite-style initialisation happens only for a node without children; a new root "
    "inherits the old root's filter. B5: merge_filters leaves a filter in place only when checked_add_assign returned true. B6: the "
    "bloom buffer is only off-loaded from an on-disk index. B7: every transition to OnDisk comes with a known bloom offset. B8: a "
    "transition back to InMemory re-initialises the filter (C04.T5). B9: the range merge can extend both bounds in one call. "
    "Decides these conservative-default / coverage structures, not the numeric agreement of the hash->bit mappings.")
EXPLANATION += (" " + 'B11 at every construction of Bloom and every store into Bloom.inner the bit-vector length and bits_count have the same provenance (the on-disk probe and clear() use bits_count, add/contains use the vector length).')
EXPLANATION += (" " + 'B10 also: every `true` result of checked_add_assign is preceded by or_with. B12 Bloom::new / new_from_shared_config / RangeFilter::new are called in src/blob only by the constructor of an empty in-memory index.')
ASSUMPTIONS = []

FR = 'filter::FilterResult'

# owner root fn -> (justifier description, predicate on origin calls of the dominating switch operand)
OWNERS = {
    '<blob::core::Blob<K> as filter::traits::BloomProvider<K>>::check_filter': ('exact miss in the in-memory header map', ('contains_key_fast',)),
    '<blob::core::Blob<K> as filter::traits::BloomProvider<K>>::check_filter_fast': ('exact miss in the in-memory header map', ('contains_key_fast',)),
    'storage::core::Storage::<K>::check_filters': ('no active blob', ('@field:active_blob',)),
    'filter::bloom::Bloom::contains_in_memory': ('clear bit in the in-memory bit vector', ('get',)),
    'filter::bloom::Bloom::contains_in_file': ('clear bit read from the index file', ('get_bit_u8', 'read_byte')),
    '<filter::hierarchical::HierarchicalFilters<Key, Filter, Child> as filter::traits::BloomProvider<Key>>::check_filter': ('neutral element of the fold over candidate children', ('@fold-init',)),
    '<filter::hierarchical::HierarchicalFilters<Key, Filter, Child> as filter::traits::BloomProvider<Key>>::check_filter_fast': ('no candidate child', ('is_some', 'next')),
    '<filter::range::RangeFilter<K> as filter::traits::FilterTrait<K>>::contains_fast': ('key outside [min,max]', ('contains',)),
    '<filter::FilterResult as std::ops::Add>::add': ('both operands are NotContains', ('@args',)),
}


def result_constructions(prog, variant):
    out = []
    for f in prog.fns.values():
        for i, b in enumerate(f.blocks):
            if b['c'] or i not in f.reachable():
                continue
            for s in b['s']:
                if s['k'] == 'a' and s['r']['k'] == 'agg' and s['r'].get('adt') == FR and s['r'].get('variant') == variant:
                    out.append((f, i, s))
    return out


def flows_to_result(prog, f, s):
    """does the constructed value flow into the function's return value (possibly wrapped in Some/Ok) or a fold initial value"""
    carry = core.flows_forward(f, s['d'][0], transparent=core.fwd_transparent)
    # wrapped
    changed = True
    while changed:
        changed = False
        for b in f.blocks:
            if b['c']:
                continue
            for st in b['s']:
                if st['k'] == 'a' and st['r']['k'] == 'agg' and st['r'].get('adt') in ('std::option::Option', 'std::result::Result') and any(op_local(o) in carry for o in st['r']['ops']):
                    if st['d'][0] not in carry:
                        carry.add(st['d'][0])
                        changed = True
    if 0 in carry:
        return True, carry
    for c in f.calls:
        if c.name in ('fold',) and any(op_local(a) in carry for a in c.args[1:]):
            return True, carry
    return False, carry


def _restates_absent(prog, f, i):
    """block i lies on the NotContains arm of a match over a FilterResult that a call returned (`NotContains => NotContains`)"""
    adt = prog.adts.get(FR)
    if not adt:
        return False
    names = [v['name'] for v in adt['variants']]
    idx = names.index('NotContains') if 'NotContains' in names else None
    if idx is None:
        return False
    for j in f.reachable():
        t = f.blocks[j]['t']
        if t['k'] != 'switch' or j == i:
            continue
        for (bb, si, kind, r) in f.defs().get(op_local(t['o']), []):
            if kind != 'assign' or r['k'] != 'discr':
                continue
            ty = (core.place_type_str(f, r['p']) or f.locals[r['p'][0]]['s']).lstrip('&')
            if not ty.startswith(FR):
                continue
            ogs = core.origins(f, {'c': r['p']})
            if not ogs or not all(o.kind == 'call' for o in ogs):
                continue
            vals = dict(t['vals'])
            if idx in vals:
                edge = vals[idx]
            elif len(vals) == len(names) - 1:
                edge = t['otherwise']
            else:
                continue
            if edge == i or f.dominates(edge, i):
                return True
    return False


def b1(ctx, rid):
    prog = ctx.prog
    n = 0
    for (f, i, s) in result_constructions(prog, 'NotContains'):
        is_res, carry = flows_to_result(prog, f, s)
        if not is_res:
            continue   # comparison constant (x == FilterResult::NotContains)
        n += 1
        root = prog.fns[f.id].root
        key = 'absent|%s' % root
        own = OWNERS.get(root)
        if not own and _restates_absent(prog, f, i):
            ctx.ok(rid, key, f.where(i), 're-states the `absent` answer of another filter on the NotContains arm of a match over it', nontrivial=False)
            continue
        if not own:
            ctx.bad(rid, key, f.where(i), 'a new place answers `definitely absent` (FilterResult::NotContains): every such answer needs a justifying test')
            continue
        desc, justs = own
        ok = False
        if '@fold-init' in justs:
            ok = any(c.name == 'fold' and any(op_local(a) in carry for a in c.args[1:]) for c in f.calls)
        elif '@args' in justs:
            # dominated by switches on both parameters
            doms = set()
            for j in f.reachable():
                t = f.blocks[j]['t']
                if t['k'] == 'switch' and f.dominates(j, i):
                    for o in core.origins(f, t['o']):
                        if o.kind == 'discr':
                            for o2 in core.origins(f, {'c': o.data['p']}):
                                if o2.kind == 'arg':
                                    doms.add(o2.data)
                                if o2.kind == 'agg' and o2.data.get('ak') == 'tuple':
                                    for x in o2.data['ops']:
                                        for o3 in core.origins(f, x):
                                            if o3.kind == 'arg':
                                                doms.add(o3.data)
            ok = doms >= {1, 2}
        else:
            for j in f.reachable():
                t = f.blocks[j]['t']
                if t['k'] != 'switch' or not f.dominates(j, i) or j == i:
                    continue
                ogs = core.origins(f, t['o'], stop_fields=True)
                deep = list(ogs)
                for o in ogs:
                    if o.kind == 'discr':
                        deep += core.origins(f, {'c': o.data['p']}, stop_fields=True)
                    if o.kind == 'unop':
                        deep += core.origins(f, o.data['o'], stop_fields=True)
                for o in list(deep):
                    if o.kind == 'discr':
                        deep += core.origins(f, {'c': o.data['p']}, stop_fields=True)
                for o in deep:
                    if o.kind == 'call' and o.data.name in justs:
                        ok = True
                    # the justifying test may be wrapped in a helper of the same file (`read_bit_from_file(..)`)
                    if o.kind == 'call' and not ok:
                        for tt in prog.resolve(o.data):
                            hh = prog.fns.get(tt)
                            if hh is not None and hh.file == f.file and any(x.name in justs for gid in prog.family(prog.fns[tt].root) for x in prog.fns[gid].calls):
                                ok = True
                    if o.kind == 'field' and ('@field:' + o.data[1]) in justs:
                        ok = True
        if ok:
            ctx.ok(rid, key, f.where(i), 'justified by: ' + desc)
        else:
            ctx.bad(rid, key, f.where(i), '`definitely absent` is answered on a path that is not controlled by the justifying test (%s)' % desc)
    # conservative defaults
    d = prog.fns.get('<filter::FilterResult as std::default::Default>::default')
    if d is None:
        raise core.AnchorLost('FilterResult::default')
    vs = [s['r']['variant'] for b in d.blocks for s in b['s'] if s['k'] == 'a' and s['r']['k'] == 'agg' and s['r'].get('adt') == FR]
    if vs == ['NeedAdditionalCheck']:
        ctx.ok(rid, 'default', d.where(), 'Default = NeedAdditionalCheck')
    else:
        ctx.bad(rid, 'default', d.where(), 'FilterResult::default() is not NeedAdditionalCheck: every unknown/error path now answers `absent`')
    for fid in ('<std::option::Option<T> as filter::traits::FilterTrait<K>>::contains_fast', '<std::option::Option<T> as filter::traits::FilterTrait<K>>::contains'):
        g = prog.body_of(fid)
        if g is None:
            raise core.AnchorLost(fid)
        vs = [s['r']['variant'] for b in g.blocks for s in b['s'] if s['k'] == 'a' and s['r']['k'] == 'agg' and s['r'].get('adt') == FR]
        if 'NotContains' in vs:
            ctx.bad(rid, 'option-none|%s' % fid, g.where(), 'a missing (None) filter answers `absent`')
        else:
            ctx.ok(rid, 'option-none|%s' % fid, g.where(), 'missing filter => NeedAdditionalCheck')
    if n < 8:
        raise core.AnchorLost('NotContains result constructions: %d' % n)


def b2(ctx, rid):
    prog = ctx.prog
    pushes = [f for f in prog.fns.values() if f.id.endswith('IndexTrait<K>>::push') and 'IndexStruct' in f.id]
    if not pushes:
        raise core.AnchorLost('IndexStruct::push')
    for f in pushes:
        adds = [c.bb for c in f.calls if c.name == 'add' and prims.receiver_field(f, c) == 'filter']
        ins = prims.header_insert_sites(prog, f)
        if len(ins) < 2:
            raise core.AnchorLost('insert sites in push')
        reach = f.reach_from([0], avoid_exit=adds)
        for (c, kind) in ins:
            key = 'add-before-insert|%s|%s' % (f.id, kind)
            if c.bb in reach:
                ctx.bad(rid, key, c.where(), 'a header is inserted into the in-memory index without its key having been added to the blob filter')
            else:
                ctx.ok(rid, key, c.where(), 'filter.add(key) dominates the insertion')


def b3(ctx, rid):
    prog = ctx.prog
    adt = prog.adts.get('filter::combined::CombinedFilter')
    if not adt:
        raise core.AnchorLost('CombinedFilter ADT')
    comps = [fl['name'] for fl in adt['variants'][0]['fields']]
    if len(comps) < 2:
        raise core.AnchorLost('CombinedFilter fields')
    for m in ('add', 'checked_add_assign', 'clear_filter'):
        fid = '<filter::combined::CombinedFilter<K> as filter::traits::FilterTrait<K>>::%s' % m
        f = prog.fns.get(fid)
        if f is None:
            raise core.AnchorLost(fid)
        for comp in comps:
            key = 'component|%s|%s' % (m, comp)
            hit = [c for c in f.calls if c.name == m and comp in prims.field_of_receiver(f, c) and c.bb in f.reachable()]
            rets = [i for i in f.reachable() if f.blocks[i]['t']['k'] == 'return']
            skipped = m != 'checked_add_assign' and hit and any(r in f.reach_from([0], avoid_exit=[c.bb for c in hit]) for r in rets)
            if skipped:
                # a component may decline for itself (`if !self.bloom.is_offloaded() { self.bloom.add(..) }`): tolerated when every
                # decision in front of the call asks that same component
                own = True
                sws = [sw for c in hit for sw in core.deciding_switches(f, c.bb)]
                for sw in sws:
                    ogs = core.origins(f, f.blocks[sw]['t']['o'])
                    if not ogs or not all(o.kind == 'call' and comp in prims.field_of_receiver(f, o.data) for o in ogs):
                        own = False
                if sws and own:
                    skipped = False
            if skipped:
                ctx.bad(rid, key, hit[0].where(), 'CombinedFilter::%s can return without applying `%s` to its `%s` component (an early return): keys %s that component' % (m, m, comp, 'are missing from' if m != 'clear_filter' else 'stay in'))
            elif hit:
                ctx.ok(rid, key, hit[0].where(), '%s reaches the `%s` component%s' % (m, comp, ' on every path' if m != 'checked_add_assign' else ''))
            else:
                ctx.bad(rid, key, f.where(), 'CombinedFilter::%s does not apply `%s` to its `%s` component: keys %s that component' % (m, m, comp, 'are missing from' if m != 'clear_filter' else 'stay in'))
    # merge succeeds only if every component merged: the returned bool depends on all component results
    f = prog.fns['<filter::combined::CombinedFilter<K> as filter::traits::FilterTrait<K>>::checked_add_assign']
    calls = [c for c in f.calls if c.name == 'checked_add_assign']
    ret = core.origins(f, 0)
    used = {c.bb for c in calls if any(o.kind == 'call' and o.data.bb == c.bb for o in ret)}
    controls = set()
    for c in calls:
        carry = core.flows_forward(f, c.dest[0])
        for j in f.reachable():
            t = f.blocks[j]['t']
            if t['k'] == 'switch' and op_local(t['o']) in carry:
                controls.add(c.bb)
    # `merged` may only be reported after every component was merged: a return value other than the constant false that is
    # reachable around a component merge (e.g. `Some(bloom) if bloom.is_empty() => true`) leaves that component without the
    # other filter's keys while the range / bloom next to it already covers them
    skip_true = None
    for c in calls:
        free = f.reach_from([0], avoid_exit=[c.bb])
        for (bb, si, kind, r) in f.defs().get(0, []):
            if bb not in f.reachable() or bb not in free:
                continue
            if kind == 'assign' and r['k'] == 'use' and op_const(r['o']) is not None and not op_const(r['o']).get('int'):
                continue    # false
            if kind == 'call' and r.bb == c.bb:
                continue
            if kind == 'call' and r in calls and r.bb in free:
                # the other component's own result, computed without this one having been merged: fine only if it was false (short-circuit)
                continue
            skip_true = (c, bb)
    if skip_true is not None:
        ctx.bad(rid, 'merge-result-conjunction', f.where(skip_true[1]), 'CombinedFilter::checked_add_assign can report `merged` on a path that did not merge the `%s` component: the merged filter answers `absent` for the other filter\'s keys through that component' % (sorted(prims.field_of_receiver(f, skip_true[0])) or ['?'])[0])
    elif all(c.bb in used or c.bb in controls for c in calls):
        ctx.ok(rid, 'merge-result-conjunction', f.where(), 'the merge result depends on every component merge')
    else:
        ctx.bad(rid, 'merge-result-conjunction', f.where(), 'a component merge result is ignored: a failed component merge is reported as success')


def natural_loops(fn):
    import props.c13 as c13
    return c13.natural_loops(fn)


def b4(ctx, rid):
    prog = ctx.prog
    f = prog.body_of('filter::hierarchical::HierarchicalFilters::<Key, Filter, Child>::add_child')
    if f is None:
        raise core.AnchorLost('add_child')
    def mi(g):
        return ([c for c in g.calls if c.name in ('add_filter_from_cow', 'merge_filters')], [c for c in g.calls if c.name == 'init_filter_from_cow'])
    merges, inits = mi(f)
    if not merges or not inits:
        # the linking + merging part may be a helper of add_child (`link_leaf_and_merge_filter`)
        for c in f.calls:
            for t in prog.resolve(c):
                g = prog.body_of(t) if t in prog.fns else None
                if g is not None and g.file == f.file and g.id != f.id:
                    m2, i2 = mi(g)
                    if m2 and i2:
                        f, merges, inits = g, m2, i2
    if not merges or not inits:
        raise core.AnchorLost('merge / init calls in add_child')
    # (a) ancestor loop
    key = 'merge-into-every-ancestor'

    def ancestor_loop(g):
        gm = [c for c in g.calls if c.name in ('add_filter_from_cow', 'merge_filters')]
        for (h, body) in natural_loops(g):
            m_in = [c for c in gm if c.bb in body]
            if not m_in:
                continue
            reads_parent = False
            for b in body:
                for s in g.blocks[b]['s']:
                    if s['k'] == 'a':
                        for p in core.rvalue_places(s['r']):
                            if 'parent' in core.place_fields(p):
                                reads_parent = True
            # loop exit only on the None edge of an Option discriminant
            exits = [(b, s) for b in body for s in g.succ[b] if s not in body]
            exit_ok = True
            for (b, s) in exits:
                t = g.blocks[b]['t']
                if t['k'] != 'switch':
                    exit_ok = False
                    continue
                ogs = core.origins(g, t['o'])
                if not any(o.kind == 'discr' and (core.place_type_str(g, o.data['p']) or '').startswith('std::option::Option') for o in ogs):
                    exit_ok = False
            if reads_parent and exit_ok and exits:
                return True
        return False
    ok = ancestor_loop(f)
    if not ok:
        # the walk up the ancestors may be a helper (`add_filter_to_ancestors(parent, &filter)`) that every path of f calls
        rets = [i for i in f.reachable() if f.blocks[i]['t']['k'] == 'return']
        for c in f.calls:
            if c.bb not in f.reachable():
                continue
            for t in prog.resolve(c):
                g = prog.fns.get(t)
                if g is not None and g.file == f.file and not g.is_coroutine and g.id != f.id and ancestor_loop(g) \
                   and not any(r in f.reach_from([0], avoid_exit=[c.bb]) for r in rets):
                    ok = True
    if ok:
        ctx.ok(rid, key, merges[0].where(), 'the child filter is merged in a loop that follows `parent` until None')
    else:
        ctx.bad(rid, key, merges[0].where(), 'the pushed child\'s filter is not merged into every ancestor (no loop following InnerNode.parent until None): a group filter then answers `absent` for the new blob\'s keys')
    # (b) the node itself always receives the child's filter: init or merge on every path before the child is linked
    key = 'node-receives-child-filter'
    linked = [c for c in f.calls if c.name == 'push' and c.path.startswith('std::vec::Vec') and prims.receiver_field(f, c) == 'children' and 'usize' in c.full]
    ev = [c.bb for c in merges if not any(c.bb in body for (h, body) in natural_loops(f) if any(m.bb in body for m in merges) and len(body) > 3 and c.bb in body)] + [c.bb for c in inits]
    ev_all = [c.bb for c in merges] + [c.bb for c in inits]
    if linked and all(l.bb not in f.reach_from([0], avoid_exit=ev_all) for l in linked):
        ctx.ok(rid, key, linked[0].where(), 'init or merge of the node filter dominates linking the child')
    else:
        ctx.bad(rid, key, f.where(), 'a child can be linked to a node without its filter being merged into that node')
    # (c) overwrite-style init only for a node without children
    key = 'init-only-when-no-children'
    good = True
    for c in inits:
        doms = False
        for j in f.reachable():
            t = f.blocks[j]['t']
            if t['k'] != 'switch' or not f.dominates(j, c.bb):
                continue
            ogs = core.origins(f, t['o'], stop_fields=True)
            for o in ogs:
                if o.kind == 'call' and o.data.name == 'is_empty' and prims.receiver_field(f, o.data) == 'children':
                    # init must be on the true edge
                    tt = None
                    for v, tg in t['vals']:
                        if v != 0:
                            tt = tg
                    if tt is None and all(v == 0 for v, _ in t['vals']):
                        tt = t['otherwise']
                    if tt is not None and f.dominates(tt, c.bb):
                        doms = True
        if not doms:
            good = False
    if good:
        ctx.ok(rid, key, inits[0].where(), 'the node filter is overwritten only on the `children.is_empty()` edge')
    else:
        ctx.bad(rid, key, inits[0].where(), 'the node filter can be overwritten (re-initialised from one child) for a node that already has children: a filter that was dropped to None as `unknown` is replaced by one covering only the new blob')
    # (d) new root inherits the old root's filter: wherever a node is built in a body that also re-points `self.root`
    key = 'new-root-inherits-filter'
    found = None
    where = ''
    for p in prog.fns.values():
        if p.file != 'src/filter/hierarchical.rs':
            continue
        sets_root = any(st['k'] == 'a' and core.place_fields(st['d'])[-1:] == ['root'] for b in p.blocks if not b['c'] for st in b['s'])
        if not sets_root:
            continue
        for b in p.blocks:
            if b['c']:
                continue
            for s in b['s']:
                if s['k'] == 'a' and s['r']['k'] == 'agg' and s['r'].get('adt') == 'filter::hierarchical::InnerNode':
                    o = s['r']['ops'][s['r']['fields'].index('filter')]
                    ogs = core.origins(p, o, stop_fields=True)
                    ok = any(og.kind == 'field' and og.data[1] == 'filter' for og in ogs) or any(og.kind == 'call' and og.data.name == 'clone' for og in ogs)
                    found = ok if found is None else (found and ok)
                    where = p.where()
    if found is None:
        raise core.AnchorLost('construction of a new root node (InnerNode built where self.root is re-pointed)')
    if found:
        ctx.ok(rid, key, where, 'the new root node is built with a clone of the old root\'s filter')
    else:
        ctx.bad(rid, key, where, 'a new root node does not inherit the old root\'s filter')


def b5(ctx, rid):
    prog = ctx.prog
    f = prog.fns.get('filter::hierarchical::Inner::<Key, Filter>::merge_filters')
    if f is None:
        raise core.AnchorLost('merge_filters')
    key = 'failed-merge-degrades-to-unknown'
    stores = []
    for i, b in enumerate(f.blocks):
        if b['c']:
            continue
        for s in b['s']:
            if s['k'] == 'a' and s['d'][0] == 1 and s['d'][1] == ['*']:
                ogs = core.origins(f, s['r']['o']) if s['r']['k'] == 'use' else ([core.Origin('agg', f, i, s['r'])] if s['r']['k'] == 'agg' else [])
                if ogs and all(o.kind == 'agg' and o.data.get('variant') == 'None' for o in ogs):
                    stores.append(i)
    closure_ok = False
    for fid in prog.family(f.id):
        g = prog.fns[fid]
        if any(c.name == 'checked_add_assign' for c in g.calls):
            closure_ok = True      # in a closure handed to map(..), or called directly in a match arm
    good = False
    for j in f.reachable():
        t = f.blocks[j]['t']
        if t['k'] != 'switch':
            continue
        ogs = core.origins(f, t['o'])
        ogs2 = list(ogs)
        for o in ogs:
            if o.kind == 'unop':
                ogs2 += core.origins(f, o.data['o'])
        def decides_by_merge(o):
            if o.kind != 'call':
                return False
            c = o.data
            if c.name == 'checked_add_assign':
                return True
            for a in c.args:
                l = op_local(a)
                if l is not None and o.fn.locals[l].get('h') == 'closure':
                    g = prog.fns.get(o.fn.locals[l]['a'][0])
                    if g is not None and any(x.name == 'checked_add_assign' for x in g.calls):
                        return True
            return False
        if not any(decides_by_merge(o) for o in ogs2) and not any(o.kind == 'call' and o.data.name in ('unwrap_or', 'map', 'zip') for o in ogs2):
            continue
        # one edge must always pass a None store before returning, the other is the `merged ok` edge
        tg = [x for _, x in t['vals']] + [t['otherwise']]
        rets = [x for x in f.reachable() if f.blocks[x]['t']['k'] == 'return']
        always = [x for x in tg if not any(r in f.reach_from([x], avoid_exit=stores) for r in rets) or x in stores]
        if always and len(always) < len(tg):
            good = True
    if stores and closure_ok and good:
        ctx.ok(rid, key, f.where(), 'the destination filter stays Some only on the edge where checked_add_assign returned true; otherwise it is set to None')
    else:
        ctx.bad(rid, key, f.where(), 'merge_filters can keep a destination filter although the merge did not succeed: the kept filter does not cover the merged blob')


def b6(ctx, rid):
    prog = ctx.prog
    f = prog.fns.get('blob::index::core::IndexStruct::<FileIndex, K>::offload_filter')
    if f is None:
        raise core.AnchorLost('IndexStruct::offload_filter')
    key = 'offload-only-on-disk'
    off = [c for c in f.calls if c.name == 'offload_filter' and prims.receiver_field(f, c) == 'filter']
    ond = [c for c in f.calls if c.name == 'on_disk']
    ok = False
    for c in ond:
        carry = core.flows_forward(f, c.dest[0])
        for j in f.reachable():
            t = f.blocks[j]['t']
            if t['k'] == 'switch' and op_local(t['o']) in carry:
                tt = None
                for v, tg in t['vals']:
                    if v != 0:
                        tt = tg
                if tt is None and all(v == 0 for v, _ in t['vals']):
                    tt = t['otherwise']
                if tt is not None and off and all(f.dominates(tt, o.bb) for o in off):
                    ok = True
    if ok:
        ctx.ok(rid, key, off[0].where(), 'the bloom buffer is dropped only on the on_disk()==true edge')
    else:
        ctx.bad(rid, key, f.where(), 'the bloom buffer of an in-memory (active) index can be off-loaded: later adds are silently dropped and stored keys are filtered out')
    # all other callers of CombinedFilter::offload_filter on an index filter go through this method
    others = []
    for g in prog.fns.values():
        if g.file.startswith('src/blob/'):
            for c in g.calls:
                if c.name == 'offload_filter' and prims.receiver_field(g, c) == 'filter' and g.id != f.id:
                    others.append(c)
    if others:
        ctx.bad(rid, 'offload-single-entry', others[0].where(), 'the index filter is off-loaded outside IndexStruct::offload_filter (no on_disk() guard)')
    else:
        ctx.ok(rid, 'offload-single-entry', f.where(), 'single guarded entry point', nontrivial=False)


def b7(ctx, rid):
    prog = ctx.prog
    n = 0
    for (f, bb, o, how) in core.field_sources(prog, 'blob::index::core::IndexStruct', 'inner'):
        ogs = core.origins(f, o) if o is not None else []
        if not any(og.kind == 'agg' and og.data.get('variant') == 'OnDisk' for og in ogs):
            continue
        n += 1
        key = 'ondisk-has-bloom-offset|%s' % prog.fns[f.id].root
        if how == 'construct':
            # the same aggregate's bloom_offset operand
            ok = False
            for b in f.blocks:
                for s in b['s']:
                    if s['k'] == 'a' and s['r']['k'] == 'agg' and s['r'].get('adt') == 'blob::index::core::IndexStruct':
                        bo = s['r']['ops'][s['r']['fields'].index('bloom_offset')]
                        og2 = core.origins(f, bo)
                        ok = bool(og2) and not any(x.kind == 'agg' and x.data.get('variant') == 'None' for x in og2)
            (ctx.ok if ok else ctx.bad)(rid, key, f.where(bb), 'constructed with bloom_offset = Some(..)' if ok else 'an OnDisk index is constructed with bloom_offset = None: reading an off-loaded bloom panics / mis-addresses the file')
        else:
            stores = []
            for i, b in enumerate(f.blocks):
                if b['c']:
                    continue
                for s in b['s']:
                    if s['k'] == 'a' and core.place_fields(s['d'])[-1:] == ['bloom_offset']:
                        ogs2 = core.origins(f, s['r']['o']) if s['r']['k'] == 'use' else ([core.Origin('agg', f, i, s['r'])] if s['r']['k'] == 'agg' else [])
                        if ogs2 and not any(x.kind == 'agg' and x.data.get('variant') == 'None' for x in ogs2):
                            stores.append(i)
            if stores and bb not in f.reach_from([0], avoid_exit=[x for x in stores if x != bb]) or bb in stores:
                ctx.ok(rid, key, f.where(bb), 'bloom_offset = Some(..) stored on every path before the OnDisk transition')
            else:
                ctx.bad(rid, key, f.where(bb), 'the index becomes OnDisk on a path where bloom_offset was not set')
    if n < 2:
        raise core.AnchorLost('OnDisk transitions: %d' % n)


def b8(ctx, rid):
    import props.c04 as c04
    c04.t5(ctx, rid)


def b9(ctx, rid):
    prog = ctx.prog
    f = prog.fns.get('filter::range::RangeFilterInner::<K>::merge_with')
    if f is None:
        raise core.AnchorLost('RangeFilterInner::merge_with')
    key = 'merge-extends-both-bounds'
    st = {'min': [], 'max': []}
    for i, b in enumerate(f.blocks):
        if b['c'] or i not in f.reachable():
            continue
        for s in b['s']:
            if s['k'] == 'a':
                nm = core.place_fields(s['d'])
                if nm and nm[-1] in st and s['d'][0] == 1:
                    st[nm[-1]].append(i)
    # in the branch where both filters are initialised (stores that are not followed by `initialized = true`)
    init_st = []
    for i, b in enumerate(f.blocks):
        for s in b['s']:
            if s['k'] == 'a' and core.place_fields(s['d'])[-1:] == ['initialized'] and s['d'][0] == 1:
                init_st.append(i)
    both = False
    for a in st['min']:
        if any(x in f.reach_from(f.after(a) or [a]) or x == a for x in init_st):
            continue
        for b2 in st['max']:
            if b2 in f.reach_from(f.after(a) or [a]):
                both = True
    if not st['min'] or not st['max']:
        raise core.AnchorLost('min/max stores in merge_with')
    if both:
        ctx.ok(rid, key, f.where(), 'a path exists that extends min and then max in the same merge')
    else:
        ctx.bad(rid, key, f.where(), 'the two bound updates of the range merge exclude each other: merging a range that is wider on both sides extends only one bound, and keys beyond the other bound are answered `absent`')


def b10(ctx, rid):
    """two bloom filters are OR-ed only when they are compatible: the same number of hashers and the same bit length; any other
    pair must make the merge fail (so that the group filter degrades to `unknown`, B5)"""
    prog = ctx.prog
    f = prog.fns.get('filter::bloom::Bloom::checked_add_assign')
    if f is None:
        raise core.AnchorLost('Bloom::checked_add_assign')
    ors = [c for c in f.calls if c.name == 'or_with']
    if not ors:
        raise core.AnchorLost('or_with in Bloom::checked_add_assign')
    for what, fld in (('hashers', 'hashers'), ('bit-length', 'inner')):
        key = 'merge-guard|%s' % what
        guards = []
        for i, b in enumerate(f.blocks):
            if b['c'] or i not in f.reachable():
                continue
            for s in b['s']:
                if s['k'] == 'a' and s['r']['k'] == 'bin' and s['r']['op'] in ('Eq', 'Ne'):
                    sides = []
                    for o in (s['r']['a'], s['r']['b']):
                        ogs = core.origins(f, o, stop_fields=True)
                        lens = [x for x in ogs if x.kind == 'call' and x.data.name == 'len']
                        hit = False
                        for x in lens:
                            deep = core.origins(f, x.data.args[0], stop_fields=True) if x.data.args else []
                            if any(d.kind == 'field' and d.data[1] == fld for d in deep) or (fld == 'inner' and 'AtomicBitVec' in x.data.path):
                                hit = True
                        sides.append(hit)
                    if all(sides):
                        carry = core.flows_forward(f, s['d'][0])
                        for j in f.reachable():
                            t = f.blocks[j]['t']
                            if t['k'] == 'switch' and op_local(t['o']) in carry:
                                for v, tg in t['vals'] + [[None, t['otherwise']]]:
                                    is_true = (v is None and all(x == 0 for x, _ in t['vals'])) or (v is not None and v != 0)
                                    if (s['r']['op'] == 'Eq') == is_true:
                                        guards.append(tg)
        if guards and all(c.bb not in f.reach_from([0], avoid_enter=guards) for c in ors):
            ctx.ok(rid, key, ors[0].where(), 'or_with only on the edge where both filters have the same %s' % what)
        else:
            ctx.bad(rid, key, ors[0].where(), 'two bloom filters can be merged without their %s having been compared: a filter built with a different configuration is OR-ed in, the merged filter probes bits the other one never set and answers `absent` for its keys' % what)
    # "merged" is only reported when the bits were really OR-ed in: every `true` result passes or_with
    trues = []
    for (bb, kind, payload) in core.exit_defs(f):
        if bb in f.reachable() and isinstance(payload, dict) and payload.get('k') == 'use':
            k = op_const(payload['o'])
            if k is not None and k.get('int') in (1, True) or (k is not None and str(k.get('bool', '')).lower() == 'true'):
                trues.append(bb)
    if not trues:
        # find by origins of the return value
        for o in core.origins(f, 0):
            if o.kind == 'const' and (o.data.get('int') in (1, True) if isinstance(o.data, dict) else False):
                trues.append(o.bb)
    key = 'merged-means-ored'
    loose = [b for b in trues if b >= 0 and b in f.reach_from([0], avoid_exit=[c.bb for c in ors])]
    if not trues:
        ctx.bad(rid, key, f.where(), 'no `true` result found in checked_add_assign')
    elif loose:
        ctx.bad(rid, key, f.where(loose[0]), 'checked_add_assign reports the merge as done (`true`) on a path that never OR-ed the other filter\'s bits in: the group filter keeps answering `absent` for the keys of that child (an empty / off-loaded bloom is not "no keys")')
    else:
        ctx.ok(rid, key, f.where(trues[0]), 'every `true` result is preceded by or_with')


BLOOM = 'filter::bloom::Bloom'


def _len_keys(f, operand):
    return set(o.key() for o in core.origins(f, operand, stop_fields=True))


def _bitvec_len_operand(f, operand, prog=None, depth=2):
    """for a value that is (an Option of) a freshly built AtomicBitVec: (call, operand giving its length in bits), else (None,
    None); a helper of this crate that builds the vector from one of its parameters is looked through"""
    for o in core.origins(f, operand):
        if o.kind != 'call':
            continue
        c = o.data
        if 'AtomicBitVec' in c.path:
            if c.name == 'new' and c.args:
                return c, c.args[0]
            if c.name == 'from_raw_slice' and len(c.args) > 1:
                return c, c.args[1]
        if prog is not None and depth > 0:
            for t in prog.resolve(c):
                g = prog.fns.get(t)
                if g is None or g.is_coroutine:
                    continue
                c2, ln = _bitvec_len_operand(g, 0, prog, depth - 1)
                if c2 is None:
                    continue
                ogs = core.origins(g, ln)
                if len(ogs) == 1 and ogs[0].kind == 'arg' and isinstance(ogs[0].data, int) and 1 <= ogs[0].data <= len(c.args):
                    return c, c.args[ogs[0].data - 1]
    return None, None


def b11(ctx, rid):
    """`bits_count` (the modulus of the on-disk probe and of clear()) and the length of the in-memory bit vector (the modulus of
    add / contains) are one number: each constructor takes both from the same value, a later store into `inner` sizes the
    vector from self.bits_count, and bits_count is never stored outside the constructors"""
    prog = ctx.prog
    n = 0
    for (f, bb, o, how) in core.field_sources(prog, BLOOM, 'inner'):
        root = prog.fns[f.id].root
        if how == 'construct':
            agg = None
            for st in f.blocks[bb]['s']:
                if st['k'] == 'a' and st['r']['k'] == 'agg' and st['r'].get('adt') == BLOOM:
                    agg = st['r']
            if agg is None:
                continue
            bc = agg['ops'][agg['fields'].index('bits_count')]
            n += 1
            key = 'len-eq-bits_count|construct|%s' % root
            c, ln = _bitvec_len_operand(f, o, prog)
            if c is None:
                # copy of an existing filter (Clone): both fields must come from the same source object
                io = core.origins(f, o, stop_fields=True)
                bo = core.origins(f, bc, stop_fields=True)
                if all(x.kind in ('field', 'call') for x in io) and all(x.kind == 'field' and x.data[1] == 'bits_count' for x in bo) and bo:
                    ctx.ok(rid, key, f.where(bb), 'copy: inner and bits_count taken from the same filter', nontrivial=False)
                else:
                    ctx.bad(rid, key, f.where(bb), 'a Bloom is built from a bit vector of unknown length (origins %s) and bits_count from %s' % (io[:2], bo[:2]))
                continue
            if _len_keys(f, ln) == _len_keys(f, bc):
                ctx.ok(rid, key, f.where(bb), 'the bit vector length and bits_count are the same value')
            else:
                ctx.bad(rid, key, c.where(), 'the bit vector is built with a length from %s but bits_count is %s: the in-memory probe and the on-disk probe / clear() then use different moduli - keys added before are reported absent' % (sorted(_len_keys(f, ln))[:2], sorted(_len_keys(f, bc))[:2]))
        else:
            ogs = core.origins(f, o) if o is not None else []
            if ogs and all(og.kind == 'agg' and og.data.get('variant') == 'None' for og in ogs):
                continue
            n += 1
            key = 'len-eq-bits_count|store|%s' % root
            c, ln = _bitvec_len_operand(f, o, prog) if o is not None else (None, None)
            lo = core.origins(f, ln, stop_fields=True) if ln is not None else []
            if lo and all(x.kind == 'field' and x.data == (BLOOM, 'bits_count') for x in lo):
                ctx.ok(rid, key, f.where(bb), 'new bit vector sized from self.bits_count')
            else:
                ctx.bad(rid, key, f.where(bb), 'a bit vector whose length does not come from self.bits_count (%s) is stored into Bloom.inner: add / contains use its length as modulus, the on-disk probe and clear() use bits_count' % (lo[:2] or 'not a fresh AtomicBitVec'))
    for (f, bb, o, how) in core.field_sources(prog, BLOOM, 'bits_count'):
        if how != 'construct':
            n += 1
            ctx.bad(rid, 'bits_count-store|%s' % prog.fns[f.id].root, f.where(bb), 'bits_count is modified outside a constructor')
    if n < 4:
        raise core.AnchorLost('Bloom constructions / inner stores: %d' % n)


def b12(ctx, rid):
    """a fresh bloom / range filter (which answers `absent` for every key) is only ever attached to an index that has no records:
    in the blob / index code Bloom::new, Bloom::new_from_shared_config and RangeFilter::new are called only while constructing an
    empty in-memory index.  An index that already describes records gets the filter stored in its file (or none = `unknown`)."""
    prog = ctx.prog
    n = 0
    for f in prog.fns.values():
        if not f.file.startswith('src/blob/'):
            continue
        sites = []
        for c in f.calls:
            fresh = ('filter::bloom::Bloom' in c.path and c.name in ('new', 'new_from_shared_config')) or ('RangeFilter' in c.path and c.name in ('new', 'default'))
            if fresh and c.bb in f.reachable():
                sites.append((c.where(), c.path))
            # the constructor handed over as a function item: `.map(Bloom::new)`
            for a in c.args:
                k = op_const(a)
                if k and 'fn' in k and c.bb in f.reachable():
                    pth = k['fn'].get('res') or k['fn'].get('path') or ''
                    if ('filter::bloom::Bloom' in pth and pth.split('::')[-1] in ('new', 'new_from_shared_config')) or ('RangeFilter' in pth and pth.split('::')[-1] in ('new', 'default')):
                        sites.append((c.where(), pth))
        for (where, path) in sites:
            class _C:
                pass
            c = _C()
            c.path = path
            c.name = path.split('::')[-1]
            c.where = (lambda w=where: w)
            n += 1
            root = prog.fns[f.id].root
            key = 'fresh-filter-only-for-empty-index|%s|%s' % (root, c.path.split('::')[-2] if '::' in c.path else c.name)
            fam = prog.family(root)
            loads = [x for g in fam for x in prog.fns[g].calls if x.name in ('get_records_headers', 'from_file', 'deserialize_filters', 'read_meta')]
            builds_empty = False
            for g in fam:
                for b in prog.fns[g].blocks:
                    for st in b['s']:
                        if st['k'] == 'a' and st['r']['k'] == 'agg' and st['r'].get('adt') == 'blob::index::core::IndexStruct':
                            o = st['r']['ops'][st['r']['fields'].index('inner')]
                            ogs = core.origins(prog.fns[g], o)
                            if any(og.kind == 'agg' and og.data.get('variant') == 'InMemory' for og in ogs):
                                builds_empty = True
            if builds_empty and not loads:
                ctx.ok(rid, key, c.where(), 'constructor of an empty in-memory index')
            else:
                ctx.bad(rid, key, c.where(), 'a fresh (all-zero) filter is created in `%s`, which works on an index that already describes records (%s): the keys of those records were never added to it, so once it is dumped / merged into the group filter they are answered `absent`' % (root.split('::')[-1], ', '.join(sorted({x.name for x in loads})) or 'no empty index is built here'))
    if n < 2:
        raise core.AnchorLost('fresh filter constructions in src/blob: %d' % n)


def b13(ctx, rid):
    """the candidate iterator visits every live child: `Iterator::next` returning None ends the whole traversal, so a leaf whose
    child slot was vacated (pop / restore) must be skipped when the traversal reaches it - it may only be pushed on the stack
    after get_child(..) was seen to be Some.  Otherwise every blob behind the first vacated slot is never consulted and reads
    answer NotFound for stored keys."""
    prog = ctx.prog
    adt = prog.adts.get('filter::hierarchical::Inner')
    if adt is None:
        raise core.AnchorLost('filter::hierarchical::Inner')
    names = [v['name'] for v in adt['variants']]
    leaf_idx = names.index('Leaf')
    n = 0
    for f in prog.fns.values():
        if f.file != 'src/filter/hierarchical.rs' or not f.id.endswith('::next') or 'PossibleRevIter' not in f.id:
            continue
        pushes = [c for c in f.calls if c.name == 'push' and c.path.startswith('std::vec::Vec') and c.bb in f.reachable()]
        if not pushes:
            continue
        leaf_edges = []
        for i in f.reachable():
            t = f.blocks[i]['t']
            if t['k'] != 'switch':
                continue
            for (bb, si, kind, r) in f.defs().get(op_local(t['o']), []):
                if kind == 'assign' and r['k'] == 'discr' and (core.place_type_str(f, r['p']) or '').lstrip('&').startswith('filter::hierarchical::Inner<'):
                    vals = dict((v, tg) for v, tg in t['vals'])
                    if leaf_idx in vals:
                        leaf_edges.append(vals[leaf_idx])
                    else:
                        leaf_edges.append(t['otherwise'])
        checks = []
        for c in f.calls:
            if c.name in ('is_none', 'is_some') and c.path.startswith('std::option::Option') and c.bb in f.reachable():
                if not any(o.kind == 'call' and o.data.name == 'get_child' for o in core.origins(f, c.args[0])):
                    continue
                carry = core.flows_forward(f, c.dest[0])
                for j in f.reachable():
                    t = f.blocks[j]['t']
                    if t['k'] == 'switch' and op_local(t['o']) in carry:
                        for v, tg in t['vals']:
                            if (v == 0) == (c.name == 'is_none'):
                                checks.append(tg)
                        if c.name == 'is_some' and all(v == 0 for v, _ in t['vals']):
                            checks.append(t['otherwise'])
        # `if let Some(..) = get_child(..)` form
        for i in f.reachable():
            t = f.blocks[i]['t']
            if t['k'] != 'switch':
                continue
            for (bb, si, kind, r) in f.defs().get(op_local(t['o']), []):
                if kind == 'assign' and r['k'] == 'discr' and any(o.kind == 'call' and o.data.name == 'get_child' for o in core.origins(f, r['p'][0])):
                    checks += [tg for v, tg in t['vals'] if v == 1]
        # the guard may live in a predicate helper: `if !self.should_skip(inner) { push }` with should_skip's Leaf arm answering
        # get_child(..).is_none()
        helper_ok = False
        for p in pushes:
            for i in core.deciding_switches(f, p.bb):
                t = f.blocks[i]['t']
                ogs = core.origins(f, t['o'])
                neg = any(o.kind == 'unop' for o in ogs)
                calls = []
                for o in ogs:
                    if o.kind == 'call':
                        calls.append(o.data)
                    elif o.kind == 'unop':
                        calls += [x.data for x in core.origins(f, o.data['o']) if x.kind == 'call']
                for hc in calls:
                    for tgt in prog.resolve(hc):
                        h = prog.fns.get(tgt)
                        if h is None or h.file != f.file:
                            continue
                        hl = []
                        for j in h.reachable():
                            ht = h.blocks[j]['t']
                            if ht['k'] != 'switch':
                                continue
                            for (bb, si, kind, r) in h.defs().get(op_local(ht['o']), []):
                                if kind == 'assign' and r['k'] == 'discr' and (core.place_type_str(h, r['p']) or '').lstrip('&').startswith('filter::hierarchical::Inner<'):
                                    vals = dict((v, tg) for v, tg in ht['vals'])
                                    hl.append(vals.get(leaf_idx, ht['otherwise']))
                        if not hl:
                            continue
                        # on the Leaf arm the helper's result is is_none / is_some of get_child(..)
                        rets = [o for o in core.origins(h, 0) if o.kind == 'call' and o.data.name in ('is_none', 'is_some') and any(x.kind == 'call' and x.data.name == 'get_child' for x in core.origins(h, o.data.args[0])) and o.data.bb in h.reach_from(hl)]
                        if rets:
                            vacant_true = rets[0].data.name == 'is_none'
                        else:
                            # a match with guards answering constants: `Inner::Leaf(l) if get_child(l).is_none() => false`
                            vac = []
                            for cc in h.calls:
                                if cc.name in ('is_none', 'is_some') and cc.path.startswith('std::option::Option') and cc.bb in h.reach_from(hl) \
                                   and any(x.kind == 'call' and x.data.name == 'get_child' for x in core.origins(h, cc.args[0])):
                                    carry = core.flows_forward(h, cc.dest[0])
                                    for j in h.reachable():
                                        ht = h.blocks[j]['t']
                                        if ht['k'] == 'switch' and op_local(ht['o']) in carry:
                                            for v, tg in ht['vals']:
                                                if (v != 0) != (cc.name == 'is_none'):
                                                    pass
                                            nz = ht['otherwise']
                                            z = [tg for v, tg in ht['vals'] if v == 0]
                                            vac += [nz] if cc.name == 'is_none' else z
                            consts = set()
                            for (bb, si, kind, r) in h.defs().get(0, []):
                                if kind == 'assign' and r['k'] == 'use' and op_const(r['o']) is not None and bb in h.reach_from(vac):
                                    k = op_const(r['o'])
                                    consts.add(bool(k.get('int', 0)) if 'int' in k else str(k.get('bool', '')).lower() == 'true')
                            if not vac or len(consts) != 1:
                                continue
                            vacant_true = consts.pop()
                        # push must lie on the edge where the slot is occupied
                        want_zero = vacant_true != neg     # helper true = vacant: push on the 0 edge (unless negated)
                        edge = [tg for v, tg in t['vals'] if (v == 0) == want_zero] or ([t['otherwise']] if (not want_zero) and all(v == 0 for v, _ in t['vals']) else [])
                        other = [x for x in ([tg for _, tg in t['vals']] + [t['otherwise']]) if x not in edge]
                        if edge and p.bb in f.reach_from(edge, avoid_enter=[i]) and not any(p.bb in f.reach_from([x], avoid_enter=[i] + [c.bb for c in f.calls if c.name in ('last', 'get_inner')]) for x in other):
                            helper_ok = True
        for p in pushes:
            n += 1
            key = 'vacated-leaf-not-pushed|%s' % f.id
            if helper_ok:
                ctx.ok(rid, key, p.where(), 'the push is guarded by a predicate helper whose Leaf arm answers from get_child(..)')
                continue
            if not leaf_edges:
                ctx.bad(rid, key, p.where(), 'no distinction between node and leaf before the push on the traversal stack')
            elif p.bb in f.reach_from(leaf_edges, avoid_enter=checks + [c.bb for c in f.calls if c.name in ('last', 'get_inner') and c.bb in f.reachable()]):
                ctx.bad(rid, key, p.where(), 'a leaf can be pushed on the traversal stack without its child slot having been seen occupied: when the traversal pops a vacated leaf, get_child(..) is None, `next` returns None and the iteration ends - every blob behind the first vacated slot is never consulted (reads answer NotFound for stored keys)')
            else:
                ctx.ok(rid, key, p.where(), 'leafs are pushed only after get_child(..) was seen to be Some')
    if n < 1:
        raise core.AnchorLost('stack pushes in PossibleRevIter::next: %d' % n)


def b14(ctx, rid):
    """a filter is never narrowed by a stale decision: no check-then-act across two critical sections of a filter's lock
    (C08.D7 instances)"""
    import props.c08 as c08
    c08.d7(ctx, rid)


def b15(ctx, rid):
    """every child that enters the closed list is merged into its group filters: a `Leaf` (the slot content of the children
    vector) is only ever built in add_child, the function whose merge into the node and every ancestor C10.B4 verifies.  A
    re-inserted child that skips add_child is pruned by its group filter for every key written since its filter was last merged."""
    prog = ctx.prog
    n = 0
    for f in prog.fns.values():
        if f.file != 'src/filter/hierarchical.rs':
            continue
        for i, b in enumerate(f.blocks):
            if b['c'] or i not in f.reachable():
                continue
            for st in b['s']:
                if st['k'] == 'a' and st['r']['k'] == 'agg' and st['r'].get('adt') == 'filter::hierarchical::Leaf':
                    n += 1
                    root = prog.fns[f.id].root
                    key = 'child-enters-through-add_child|%s' % root
                    if root.endswith('::add_child'):
                        ctx.ok(rid, key, f.where(i), 'built in add_child')
                    else:
                        ctx.bad(rid, key, f.where(i), 'a child slot (`Leaf`) is filled in `%s`, not in add_child: the child\'s filter is not merged into its node and the ancestors, so the group filter answers `absent` for the keys only this child holds' % root.split('::')[-1])
    if n < 1:
        raise core.AnchorLost('Leaf constructions in src/filter/hierarchical.rs: %d' % n)


def b16(ctx, rid):
    """the offset at which an off-loaded bloom filter is probed in the index file is the offset at which its bytes lie: decided
    as an equality of affine forms (layout algebra, rules/affine.py) that holds for every size - reader: the offset returned by
    deserialize_filters equals the start of the slice it hands to Bloom::from_raw (sum of the split_at points before it);
    writer: the offset returned by serialize_filters equals the total length of what was appended to the buffer before the bloom
    bytes (a bincode u64 counts 8).  An offset that is short by the length prefix reads the bits 64 positions early: false
    negatives for every key once the filter is off-loaded."""
    import affine
    prog = ctx.prog
    rd = [f for f in prog.fns.values() if f.id.endswith('::deserialize_filters') and f.file == 'src/blob/index/core.rs']
    wr = [f for f in prog.fns.values() if f.id.endswith('::serialize_filters') and f.file == 'src/blob/index/core.rs']
    if not rd or not wr:
        raise core.AnchorLost('serialize_filters / deserialize_filters')
    # reader
    f = rd[0]
    ev = affine.Eval(prog, f)
    ev.ext[1] = (affine.const(0), affine.sym('len(buf)'))
    ev.run()
    start = None
    for c in f.calls:
        if c.name == 'from_raw' and 'filter::bloom::Bloom' in c.path and c.args:
            e = ev.extent(c.args[0])
            if e is not None:
                start = e[0]
    ret = None
    for b in f.blocks:
        for st in b['s']:
            if st['k'] == 'a' and st['r']['k'] == 'agg' and st['r'].get('ak') == 'tuple' and len(st['r']['ops']) == 3:
                ret = ev.scalar(st['r']['ops'][2])
    key = 'bloom-offset|reader'
    if start is None or ret is None:
        ctx.ok(rid, key, f.where(), 'not evaluated: the body is not in the straight-line split_at form the layout algebra understands (no verdict)', nontrivial=False)
        ctx.note('C10.B16 reader side could not be evaluated symbolically')
    elif affine.norm(start) == affine.norm(ret):
        ctx.ok(rid, key, f.where(), 'returned offset = start of the bloom slice = %s' % affine.show(ret))
    else:
        ctx.bad(rid, key, f.where(), 'deserialize_filters returns the bloom offset `%s` but splits the bloom bytes off at `%s`: the off-loaded filter is probed at the wrong position of the index file (false negatives for stored keys)' % (affine.show(ret), affine.show(start)))
    # writer
    f = wr[0]
    ev = affine.Eval(prog, f)
    ev.run()
    pos = affine.const(0)
    bloom_pos = None
    for c in sorted([c for c in f.calls if c.bb in f.reachable()], key=lambda c: c.bb):
        if c.name != 'extend_from_slice' or len(c.args) < 2:
            continue
        src = core.origins(f, c.args[1])
        is_bloom = any(o.kind == 'call' and o.data.name == 'to_raw' and 'bloom' in o.data.path.lower() for o in src)
        if is_bloom:
            bloom_pos = pos
        if any(o.kind == 'call' and o.data.name == 'serialize' and o.data.decl_crate == 'bincode' for o in src):
            ln = affine.const(8) if 'u64' in ' '.join(o.data.full for o in src if o.kind == 'call') else None
        else:
            root = core.access_root(f, op_local(c.args[1])) if op_local(c.args[1]) is not None else None
            ln = affine.sym('len(_%d)' % root) if root is not None else None
        if ln is None:
            bloom_pos = None if bloom_pos is None else bloom_pos
            pos = None
            break
        pos = affine.add(pos, ln)
    ret = None
    for b in f.blocks:
        for st in b['s']:
            if st['k'] == 'a' and st['r']['k'] == 'agg' and st['r'].get('ak') == 'tuple' and len(st['r']['ops']) == 2:
                ret = ev.scalar(st['r']['ops'][1])
    key = 'bloom-offset|writer'
    if bloom_pos is None or ret is None:
        ctx.ok(rid, key, f.where(), 'not evaluated: the body is not in the extend_from_slice form the layout algebra understands (no verdict)', nontrivial=False)
        ctx.note('C10.B16 writer side could not be evaluated symbolically')
    elif affine.norm(bloom_pos) == affine.norm(ret):
        ctx.ok(rid, key, f.where(), 'returned offset = bytes appended before the bloom bytes = %s' % affine.show(ret))
    else:
        ctx.bad(rid, key, f.where(), 'serialize_filters returns the bloom offset `%s` but appends `%s` bytes before the bloom bytes' % (affine.show(ret), affine.show(bloom_pos)))


def b17(ctx, rid):
    """the merged filter a storage reports for itself (BloomProvider::get_filter - what a HierarchicalFilters over storages prunes
    by) describes every blob or is None.  The root filter of the closed blobs is None both when there are no closed blobs and when
    a merge mismatch made it `unknown`; the answer may therefore only be None or be built from that root filter (with the active
    blob's filter merged in) - the active blob's filter alone is returned at most behind a test that the closed list is empty."""
    prog = ctx.prog
    n = 0
    for f in prog.fns.values():
        if not (f.is_coroutine and f.file == 'src/storage/core.rs' and 'BloomProvider' in f.id and prog.fns[f.id].root.endswith('::get_filter')):
            continue
        n += 1
        key = 'storage-filter-covers-closed-blobs|%s' % prog.fns[f.id].root
        bad = None
        ogs, work, seen = [], list(core.origins(f, 0)), set()
        while work:
            o = work.pop()
            if o.key() in seen:
                continue
            seen.add(o.key())
            if o.kind == 'agg' and o.data.get('ops'):
                for x in o.data['ops']:     # a tuple / Some(..) the answer is taken out of
                    work += core.origins(f, x)
            else:
                ogs.append(o)
        calls = [o.data for o in ogs if o.kind == 'call']
        root = [c for c in calls if any('HierarchicalFilters' in t for t in prog.resolve(c))]
        alone = [c for c in calls if not any('HierarchicalFilters' in t for t in prog.resolve(c))]
        for c in alone:
            # tolerated behind an emptiness test of the closed list
            guarded = False
            for (dbb, si, k, r) in f.defs().get(0, []):
                if dbb not in f.reachable():
                    continue
                for sw in core.deciding_switches(f, dbb):
                    lv = core.scalar_leaves(prog, f, f.blocks[sw]['t']['o'], depth=1)
                    if ('call', 'is_empty') in lv or ('call', 'len') in lv:
                        guarded = True
            if not guarded:
                bad = c
        if not root:
            ctx.bad(rid, key, f.where(), 'the storage-level filter is not built from the root filter of the closed blobs')
        elif bad is not None:
            ctx.bad(rid, key, bad.where(), 'the storage-level filter can be the result of `%s` alone, without the root filter of the closed blobs: when that root filter is None '
                    'because of a merge mismatch (not because there are no closed blobs), keys of the closed blobs are answered `definitely absent`' % bad.name)
        else:
            ctx.ok(rid, key, f.where(), 'None, or the closed-blob root filter (+ active filter merged in)')
    if n < 1:
        raise core.AnchorLost('Storage as BloomProvider::get_filter: %d' % n)


def b18(ctx, rid):
    """`a filter that is missing or unknown answers need-additional-check`: a range filter restored from index bytes is the
    deserialised one or the restore fails (and the index is regenerated).  An uninitialised RangeFilterInner answers
    NotContains for every key, so from_raw never substitutes a fresh one for bytes it could not read."""
    prog = ctx.prog
    n = 0
    for f in prog.fns.values():
        if f.file != 'src/filter/range.rs' or f.id != prog.fns[f.id].root or not f.id.endswith('::from_raw'):
            continue
        n += 1
        key = 'restored-range-is-the-stored-one|%s' % f.id
        fresh = [c for g in prog.family(f.id) for c in prog.fns[g].calls if c.bb in prog.fns[g].reachable()
                 and ((c.name in ('new', 'default') and (c.path.startswith('filter::range::') or any(t.startswith('filter::range::') or ('RangeFilter' in t and 'Default' in t) for t in prog.resolve(c)))) or (c.name in ('unwrap_or_default', 'unwrap_or_else', 'unwrap_or') and 'RangeFilter' in c.full))]
        if fresh:
            ctx.bad(rid, key, fresh[0].where(), 'from_raw can answer with a freshly constructed (uninitialised) range filter (`%s`): such a filter answers `definitely absent` for every key of the blob' % fresh[0].name)
        else:
            ctx.ok(rid, key, f.where(), 'the restored filter is built from the deserialised value only')
    if n < 1:
        raise core.AnchorLost('from_raw in src/filter/range.rs: %d' % n)


def b19(ctx, rid):
    """filters are added to concurrently through `&self`: a bit is set with an atomic read-modify-write (fetch_or / fetch_and) or
    with a compare_exchange that is retried in a loop.  A load + single compare_exchange whose failure is taken for success loses
    the bit whenever another thread changes a neighbouring bit of the same word - `add` succeeded, `contains` answers absent."""
    import props.c13 as c13
    prog = ctx.prog
    n = 0
    for f in prog.fns.values():
        if f.file != 'src/filter/atomic_bitvec.rs':
            continue
        for c in f.calls:
            if c.bb not in f.reachable() or not c.path.startswith('std::sync::atomic::Atomic'):
                continue
            if c.name in ('fetch_or', 'fetch_and', 'fetch_xor', 'fetch_update'):
                n += 1
                ctx.ok(rid, 'atomic-bit-update|%s|%s' % (prog.fns[f.id].root, c.name), c.where(), 'atomic read-modify-write', nontrivial=False)
            elif c.name in ('compare_exchange', 'compare_exchange_weak', 'compare_and_swap', 'store', 'swap'):
                n += 1
                key = 'atomic-bit-update|%s|%s' % (prog.fns[f.id].root, c.name)
                in_loop = any(c.bb in body for (h, body) in c13.natural_loops(f))
                shared = f.argc >= 1 and f.locals[1]['s'].startswith('&') and not f.locals[1]['s'].startswith('&mut')
                if c.name.startswith('compare_exchange') and in_loop:
                    ctx.ok(rid, key, c.where(), 'compare_exchange inside a retry loop')
                elif not shared:
                    ctx.ok(rid, key, c.where(), 'exclusive access (&mut self / construction)', nontrivial=False)
                else:
                    ctx.bad(rid, key, c.where(), 'a word of the shared bit vector is updated with `%s` outside a retry loop: a concurrent update of another bit of the same word is lost or makes this one be dropped (the key was added, the filter answers `definitely absent`)' % c.name)
    if n < 2:
        raise core.AnchorLost('atomic updates in src/filter/atomic_bitvec.rs: %d' % n)


def b20(ctx, rid):
    """merging two bit vectors ORs every word: a loop over the words of the filter code that steps in fixed-size groups
    (`chunks_exact`, `step_by`) also handles the remainder, or does not use such a stepping at all - a dropped last word loses
    the bits of every key that hashes into it"""
    prog = ctx.prog
    n = 0
    for f in prog.fns.values():
        if f.file not in ('src/filter/atomic_bitvec.rs', 'src/filter/bloom.rs'):
            continue
        n += 1
        fam = [prog.fns[x] for x in prog.family(prog.fns[f.id].root)] if f.id == prog.fns[f.id].root else []
        steps = [c for g in fam for c in g.calls if c.bb in g.reachable() and c.name in ('chunks_exact', 'chunks_exact_mut', 'step_by', 'array_chunks', 'as_chunks')]
        if not steps:
            continue
        rem = [c for g in fam for c in g.calls if c.bb in g.reachable() and c.name in ('remainder', 'into_remainder', 'as_rchunks')]
        key = 'grouped-walk-handles-remainder|%s' % f.id
        if rem:
            ctx.ok(rid, key, steps[0].where(), 'remainder handled')
        else:
            ctx.bad(rid, key, steps[0].where(), 'the words of the bit vector are walked in fixed-size groups (`%s`) and the remainder is never visited: with a word count that is not a multiple of the group size the last word(s) are not merged / not checked' % steps[0].name)
    if n < 10:
        raise core.AnchorLost('functions in the bit-vector / bloom code: %d' % n)
    ctx.ok(rid, 'scan', '', '%d functions of the bit-vector / bloom code scanned' % n, nontrivial=False, queries=n)


def b21(ctx, rid):
    """child ids are positions in the `children` vector, and pop / remove leave an empty slot behind (C04.T6): every decision of
    HierarchicalFilters::push that compares a child count with the group size counts *slots* (Vec::len), never occupied
    children (`self.len()`) - after one restore the two differ, the re-root is skipped and the next push panics in the worker"""
    prog = ctx.prog
    f = prog.body_of('filter::hierarchical::HierarchicalFilters::<Key, Filter, Child>::push')
    if f is None:
        raise core.AnchorLost('HierarchicalFilters::push')
    n = 0
    bad = None
    for i, b in enumerate(f.blocks):
        if b['c'] or i not in f.reachable():
            continue
        for st in b['s']:
            if st['k'] != 'a' or st['r']['k'] != 'bin' or st['r']['op'] not in ('Lt', 'Le', 'Gt', 'Ge', 'Eq', 'Ne'):
                continue
            sides = []
            for side in ('a', 'b'):
                sites = []
                lv = core.scalar_leaves(prog, f, st['r'][side], depth=0, sites=sites)
                sides.append((lv, sites))
            gs = [k for k, (lv, _) in enumerate(sides) if ('field', 'group_size') in lv]
            if len(gs) != 1:
                continue
            n += 1
            lv, sites = sides[1 - gs[0]]
            for (nm, fid, bb) in sites:
                c = prog.fns[fid].call_at(bb)
                if c is not None and nm == 'len' and not c.path.startswith('std::vec::Vec') and not c.path.startswith('alloc::vec::Vec'):
                    bad = c
    if n < 2:
        raise core.AnchorLost('comparisons with group_size in push: %d' % n)
    if bad:
        ctx.bad(rid, 'push-counts-slots', bad.where(), 'push compares `%s` (occupied children) with the group size where the other decisions count slots of the children vector: after a pop / restore the counts differ, a full root is not re-rooted and the next push treats a leaf as a node' % bad.path)
    else:
        ctx.ok(rid, 'push-counts-slots', f.where(), '%d comparisons with group_size, all on Vec::len of a children vector' % n)


def b22(ctx, rid):
    """`unknown answers need-additional-check`, for copies too: a clone of a bloom filter whose buffer is off-loaded stays
    off-loaded (it refuses merges and probes the file); Clone never gives it a fresh all-zero buffer, which would answer
    `definitely absent` for every key and merge happily into the storage-level filter"""
    prog = ctx.prog
    n = 0
    for f in prog.fns.values():
        if f.id != prog.fns[f.id].root or 'filter::bloom::Bloom as std::clone::Clone' not in f.id:
            continue
        n += 1
        key = 'clone-keeps-offloaded-state|%s' % f.id
        fresh = [c for g in prog.family(f.id) for c in prog.fns[g].calls if c.bb in prog.fns[g].reachable() and 'AtomicBitVec' in c.path and c.name in ('new', 'from_raw_slice', 'default')]
        if fresh:
            ctx.bad(rid, key, fresh[0].where(), 'Clone for Bloom creates a bit vector of its own (`%s`): the copy of an off-loaded filter is an all-zero in-memory filter that answers `definitely absent`' % fresh[0].name)
        else:
            ctx.ok(rid, key, f.where(), 'the buffer (or its absence) is copied as it is')
    if n < 1:
        raise core.AnchorLost('Clone impl of Bloom: %d' % n)


def b23(ctx, rid):
    """the filter of the whole tree is the filter of the node `self.root` points at: node 0 is the root only until the first group
    fills and push puts a new root above it.  get_filter / get_filter_fast of HierarchicalFilters read `self.root`."""
    prog = ctx.prog
    n = 0
    for f in prog.fns.values():
        root = prog.fns[f.id].root
        if f.id != root and not (f.is_coroutine and f.parent == root):
            continue
        if 'HierarchicalFilters' not in root or 'BloomProvider' not in root or root.split('::')[-1] not in ('get_filter', 'get_filter_fast'):
            continue
        if f.id == root and prog.body_of(root) is not None and prog.body_of(root).id != f.id:
            continue
        n += 1
        key = 'tree-filter-read-at-root|%s' % root
        bodies = [f]
        for c in f.calls:
            for t in prog.resolve(c):
                g = prog.fns.get(t)
                if g is not None and g.file == f.file and g not in bodies:
                    bodies.append(g)
        reads_root = False
        for g in bodies:
            for b in g.blocks:
                if b['c']:
                    continue
                for st in b['s']:
                    if st['k'] == 'a':
                        for p in core.rvalue_places(st['r']):
                            if 'root' in core.place_fields(p):
                                reads_root = True
        if reads_root:
            ctx.ok(rid, key, f.where(), 'the node is looked up through self.root')
        else:
            ctx.bad(rid, key, f.where(), 'the filter of the whole tree is not read from the node `self.root` points at (e.g. from the first node): after the first re-root it covers only the first group of blobs and answers `definitely absent` for keys of all later blobs')
    if n < 2:
        raise core.AnchorLost('get_filter / get_filter_fast of HierarchicalFilters: %d' % n)


def b24(ctx, rid):
    """a key reported with add_to_parents reaches the filter of every ancestor up to the root: the walk ends only where there is no
    parent (or no node), never on an answer of a filter.  `The node already reports the key` is not a reason to stop - an
    off-loaded or unknown filter answers NeedAdditionalCheck for every key while the in-memory root above it does not know it"""
    prog = ctx.prog
    n = 0
    for f in prog.fns.values():
        if f.file != 'src/filter/hierarchical.rs' or f.id != prog.fns[f.id].root or not f.id.endswith('::add_to_parents'):
            continue
        n += 1
        key = 'every-ancestor-gets-the-key|%s' % f.id
        bodies = [prog.fns[x] for x in prog.family(f.id)]
        for c in f.calls:
            for t in prog.resolve(c):
                g = prog.fns.get(t)
                if g is not None and g.file == f.file and g not in bodies:
                    bodies += [prog.fns[x] for x in prog.family(prog.fns[t].root)]
        asks = [c for g in bodies for c in g.calls if c.bb in g.reachable() and c.name in ('contains', 'contains_fast', 'check_filter', 'check_filter_fast')]
        adds = [c for g in bodies for c in g.calls if c.bb in g.reachable() and c.name in ('add', 'add_to_filter')]
        if not adds:
            ctx.bad(rid, key, f.where(), 'add_to_parents does not add the key to a filter')
        elif asks:
            ctx.bad(rid, key, asks[0].where(), 'add_to_parents asks a filter (`%s`) on its way up: the walk can end before the root although the upper filters do not contain the key (an unknown / off-loaded filter answers NeedAdditionalCheck for everything)' % asks[0].name)
        else:
            ctx.ok(rid, key, f.where(), 'the walk is decided by parent links only')
    if n < 1:
        raise core.AnchorLost('HierarchicalFilters::add_to_parents: %d' % n)


def b25(ctx, rid):
    """a missing filter (None) means `unknown`: merging unknown into a filter must fail (the group filter degrades to unknown,
    C10.B5), merging two unknowns succeeds.  In `<Option<T> as FilterTrait>::checked_add_assign` the constant answer `true` is
    given only where both operands were seen to be None - `None => true // nothing to merge` on the other operand alone keeps a
    bloom that lacks the keys of the filter-less child"""
    prog = ctx.prog
    n = 0
    for f in prog.fns.values():
        if f.id != prog.fns[f.id].root or 'std::option::Option<T> as filter::traits::FilterTrait' not in f.id or not f.id.endswith('::checked_add_assign'):
            continue
        n += 1
        key = 'merge-of-unknown-fails|%s' % f.id
        bad = None
        fam = [prog.fns[x] for x in prog.family(f.id)]
        for g in fam:
            for (bb, si, kind, r) in g.defs().get(0, []):
                if bb not in g.reachable() or kind != 'assign' or r['k'] != 'use':
                    continue
                k = op_const(r['o'])
                if not k or not k.get('int'):
                    continue
                if g.id != f.id:
                    bad = (g, bb, 'in a closure')
                    continue
                seen = set()
                for sw in core.deciding_switches(g, bb):
                    for o in core.origins(g, g.blocks[sw]['t']['o']):
                        if o.kind == 'discr':
                            for x in core.origins(g, {'c': o.data['p']}):
                                if x.kind == 'arg':
                                    seen.add(x.data)
                if not {1, 2} <= seen:
                    bad = (g, bb, 'decided on %s only' % (sorted('operand %d' % x for x in seen) or 'no operand'))
        if bad:
            ctx.bad(rid, key, bad[0].where(bad[1]), 'merging optional filters answers `merged` (%s) without both operands having been seen to be None: a filter-less (unknown) operand is treated as empty, the merged filter lacks its keys and answers `definitely absent` for them' % bad[2])
        else:
            ctx.ok(rid, key, f.where(), '`true` only for (None, None); otherwise the inner merge decides')
    if n < 1:
        raise core.AnchorLost('checked_add_assign of Option<T>: %d' % n)


def b28(ctx, rid):
    """a group node created under the root is linked to it: the node `new_inner_node` builds has `parent = Some(root)`.  The
    filter of a new child is merged along the `parent` links; a group node without a parent keeps the keys of its blobs out of
    the root filter, which then answers `absent` for them"""
    prog = ctx.prog
    f = prog.body_of('filter::hierarchical::HierarchicalFilters::<Key, Filter, Child>::new_inner_node')
    if f is None:
        raise core.AnchorLost('HierarchicalFilters::new_inner_node')
    n = 0
    for i in f.reachable():
        for st in f.blocks[i]['s']:
            r = st.get('r') or {}
            if st['k'] == 'a' and r.get('k') == 'agg' and str(r.get('adt', '')).endswith('hierarchical::InnerNode') and 'parent' in r.get('fields', []):
                n += 1
                op = r['ops'][r['fields'].index('parent')]
                # not variant-precise on purpose: what is stored, Some(..) or a default None
                somes = [d for d in _agg_defs(f, op) if d.get('variant') == 'Some']
                key = 'group-node-linked-to-root|filter::hierarchical::HierarchicalFilters::new_inner_node'
                if somes:
                    ctx.ok(rid, key, f.where(i), 'parent = Some(..)')
                else:
                    ctx.bad(rid, key, f.where(i), 'the group node is created without a parent link (default None): filters of blobs added below it never reach the root filter')
    if n < 1:
        raise core.AnchorLost('InnerNode constructions in new_inner_node: %d' % n)


def _agg_defs(f, operand, depth=5, seen=None):
    """aggregate rvalues an operand is copied from (through plain copies)"""
    if seen is None:
        seen = set()
    p = core.op_place(operand)
    if p is None or depth <= 0 or p[0] in seen:
        return []
    seen.add(p[0])
    out = []
    for (bb, si, kind, r) in f.defs().get(p[0], []):
        if kind == 'assign' and r['k'] == 'agg':
            out.append(r)
        elif kind == 'assign' and r['k'] == 'use':
            out += _agg_defs(f, r['o'], depth - 1, seen)
    return out


RULES = [
    Rule('C10.B1', 'every `definitely absent` answer lies in its owner and is controlled by that owner\'s justifying test; defaults are NeedAdditionalCheck', b1, 11),
    Rule('C10.B2', 'filter.add(key) dominates every insertion into the in-memory header map', b2, 2),
    Rule('C10.B3', 'CombinedFilter add / merge / clear reach every filter component; the merge result depends on all of them', b3, 7),
    Rule('C10.B28', 'a group node created under the root has a parent link', b28, 1),
    Rule('C10.B4', 'add_child merges into the node and every ancestor; overwrite-init only for a childless node; a new root inherits the filter', b4, 4),
    Rule('C10.B5', 'merge_filters keeps a destination filter only when checked_add_assign returned true', b5, 1),
    Rule('C10.B6', 'the bloom buffer is off-loaded only from an on-disk index, through one guarded entry point', b6, 2),
    Rule('C10.B7', 'every transition to OnDisk comes with bloom_offset = Some(..)', b7, 2),
    Rule('C10.B8', 'a transition back to InMemory re-initialises the filter (C04.T5 instances)', b8, 2),
    Rule('C10.B10', 'bloom filters are merged only when hasher count and bit length are equal', b10, 2),
    Rule('C10.B11', 'Bloom.bits_count and the length of the in-memory bit vector are the same value at every construction and store', b11, 4),
    Rule('C10.B12', 'a fresh bloom / range filter is only attached to an index without records', b12, 2),
    Rule('C10.B13', 'the candidate iterator never pushes a vacated leaf (its None would end the whole traversal)', b13, 1),
    Rule('C10.B14', 'no decision is carried from a released guard into a later write section of the same filter lock (C08.D7 instances)', b14, 1),
    Rule('C10.B15', 'a child slot of the closed list is only filled in add_child (whose filter merge B4 verifies)', b15, 1),
    Rule('C10.B16', 'the bloom offset reported by the filter (de)serializer equals the position of the bloom bytes (affine layout algebra)', b16, 2),
    Rule('C10.B17', 'the filter a storage reports for itself is None or built from the closed-blob root filter, never the active filter alone', b17, 1),
    Rule('C10.B18', 'a range filter restored from bytes is the deserialised one or an error, never a fresh (all-absent) filter', b18, 1),
    Rule('C10.B19', 'bits of the shared bit vector are updated by atomic read-modify-write operations (or a retried compare_exchange)', b19, 2),
    Rule('C10.B20', 'a grouped walk over the words of a bit vector handles the remainder', b20, 1),
    Rule('C10.B21', 'every comparison with the group size in push counts slots of the children vector', b21, 1),
    Rule('C10.B22', 'a clone of a bloom filter keeps its off-loaded state', b22, 1),
    Rule('C10.B23', 'the filter of the closed-blob tree is read at self.root', b23, 2),
    Rule('C10.B24', 'add_to_parents walks up by parent links only (no filter is asked on the way)', b24, 1),
    Rule('C10.B25', 'merging optional filters succeeds without an inner merge only for (None, None)', b25, 1),
    Rule('C10.B9', 'the range merge can extend both bounds in one call', b9, 1),
]
