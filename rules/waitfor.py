"""A6/A9: lock classes, held sets at call sites, may-wait summaries, wait-for graph."""
import re
from collections import defaultdict
import core
from core import op_local

ACQUIRE = {
    # path prefix -> (lock crate, {method: mode})
    'tokio::sync::RwLock': ('tokio', {'read': 'R', 'write': 'W', 'read_owned': 'R', 'write_owned': 'W'}),
    'async_lock::RwLock': ('async_lock', {'read': 'R', 'write': 'W', 'upgradable_read': 'U'}),
    'std::sync::RwLock': ('std', {'read': 'R', 'write': 'W'}),
    'std::sync::Mutex': ('std', {'lock': 'W'}),
    'tokio::sync::Mutex': ('tokio_mutex', {'lock': 'W'}),
    'tokio::sync::Semaphore': ('tokio_sem', {'acquire': 'P', 'acquire_owned': 'P', 'acquire_many': 'P'}),
}
NONBLOCKING = ('try_read', 'try_write', 'try_lock', 'try_acquire', 'try_upgradable_read', 'try_send')


def acquisition(c):
    """(crate, mode, class) if the call is a (possibly blocking / suspending) lock acquisition"""
    p = c.path
    m = re.match(r'^(.*)::<[A-Za-z]+>::([a-z_]+)$', p)
    if not m:
        m2 = re.match(r'^(.*)::([a-z_]+)$', p)
        if not m2:
            return None
        owner, meth = m2.group(1), m2.group(2)
    else:
        owner, meth = m.group(1), m.group(2)
    spec = ACQUIRE.get(owner)
    if not spec or meth not in spec[1]:
        return None
    args = [a for a in c.f.get('args', []) if not a.startswith("'")]
    prot = core.norm_ty(args[0]) if args else '()'
    if owner == 'tokio::sync::Semaphore':
        prot = 'Semaphore'
    return (spec[0], spec[1][meth], prot)


def is_send(c):
    return c.path.startswith('tokio::sync::mpsc::Sender') and c.name == 'send'


def is_recv(c):
    return c.path.startswith('tokio::sync::mpsc::Receiver') and c.name == 'recv'


def is_spawn(c):
    return c.crate == 'tokio' and c.name == 'spawn' and ('task' in c.path or c.path.startswith('tokio::spawn'))


class WaitFor:
    def __init__(self, prog):
        self.prog = prog
        self.spawned = {}          # fn id (stub or coroutine) -> spawn Call
        self._find_spawned()
        self.direct = defaultdict(list)   # fn id -> [(node, Call)]
        self._direct_waits()
        self.may = {}
        self._summaries()

    # -- spawned roots ----------------------------------------------------
    def _find_spawned(self):
        prog = self.prog
        for f in prog.fns.values():
            for c in f.calls:
                if not is_spawn(c):
                    continue
                for o in core.origins(f, c.args[0]):
                    if o.kind == 'agg' and o.data.get('ak') == 'coroutine':
                        self.spawned[o.data['def']] = c
                    elif o.kind == 'call':
                        for t in prog.resolve(o.data):
                            if t in prog.fns:
                                self.spawned[t] = c

    def join_name(self, f, a):
        """name of the JOIN node for an await of a JoinHandle in f"""
        return 'JOIN(%s)' % ('worker' if 'Observer' in f.id and 'shutdown' in f.id else 'bg-task')

    def is_blocking_join(self, a):
        """await of the JoinHandle of a spawn_blocking closure: that closure runs plain file I/O on the blocking pool"""
        return a.start is not None and a.start.name == 'spawn_blocking' and a.start.crate == 'tokio'

    def _direct_waits(self):
        prog = self.prog
        for f in prog.fns.values():
            for c in f.calls:
                acq = acquisition(c)
                if acq:
                    self.direct[f.id].append((('LOCK', acq[0], acq[2], acq[1]), c))
                elif is_send(c):
                    self.direct[f.id].append((('CHAN',), c))
            for a in f.awaits():
                st = (a.poll.self_ty or {})
                s = st.get('s', '')
                if 'JoinHandle' in s and not self.is_blocking_join(a):
                    self.direct[f.id].append((('JOIN', self.join_name(f, a)), a.poll))

    def _summaries(self):
        prog = self.prog
        edges, ext = prog.callgraph()
        # transitive closure excluding edges into spawned roots
        memo = {}

        def visit(v, stack):
            if v in memo:
                return memo[v]
            if v in stack:
                return set()
            stack.add(v)
            s = set((n) for (n, c) in self.direct.get(v, []))
            for w in edges.get(v, ()):
                if w in self.spawned and w != v:
                    # v spawns w (or calls the stub that builds the spawned future)
                    if self._is_spawn_edge(v, w):
                        continue
                s |= visit(w, stack)
            stack.discard(v)
            memo[v] = s
            return s

        for v in prog.fns:
            visit(v, set())
        # second pass for cycles' incompleteness: iterate to fixpoint
        changed = True
        while changed:
            changed = False
            for v in prog.fns:
                s = set(memo[v])
                for w in edges.get(v, ()):
                    if w in self.spawned and self._is_spawn_edge(v, w):
                        continue
                    s |= memo.get(w, set())
                if s != memo[v]:
                    memo[v] = s
                    changed = True
        self.may = memo

    def _is_spawn_edge(self, v, w):
        c = self.spawned.get(w)
        return c is not None and (c.fn.id == v or self.prog.fns[c.fn.id].root == self.prog.fns[v].root)

    # -- edges ------------------------------------------------------------
    def edges(self):
        """list of (held_node, waited_node, site Call, via) over all functions"""
        prog = self.prog
        out = []
        for f in prog.fns.values():
            IN, at, guards = core.held_guards(f)
            if not guards:
                continue
            for c in f.calls:
                if c.bb not in f.reachable():
                    continue
                H = at(c.bb)
                if not H:
                    continue
                waited = set()
                acq = acquisition(c)
                if acq:
                    waited.add((('LOCK', acq[0], acq[2], acq[1]), c.full))
                if is_send(c):
                    waited.add((('CHAN',), c.full))
                if c.name == 'poll' and 'JoinHandle' in ((c.self_ty or {}).get('s', '')):
                    aw = [a for a in f.awaits() if a.poll.bb == c.bb]
                    if not (aw and self.is_blocking_join(aw[0])):
                        waited.add((('JOIN', self.join_name(f, None)), c.full))
                if c.name != 'poll':
                    for t in prog.resolve(c):
                        if t in prog.fns and not (t in self.spawned and self._is_spawn_edge(f.id, t)):
                            for n in self.may.get(t, ()):
                                waited.add((n, t))
                for g in H:
                    gc = guards[g]
                    hn = ('LOCK', gc[0], gc[2], gc[1])
                    for (wn, via) in waited:
                        out.append((hn, wn, c, via))
        return out

    def root_waits(self, fid):
        return self.may.get(fid, set())


def node_class(n):
    if n[0] == 'LOCK':
        return ('LOCK', n[1], n[2])
    return n


def conflicts(held_mode, wait_mode, crate):
    """can a waiter in wait_mode be blocked by a holder in held_mode"""
    if held_mode == 'P' or wait_mode == 'P':
        return True
    if held_mode == 'R' and wait_mode == 'R':
        return False
    if crate == 'async_lock':
        if held_mode == 'U' and wait_mode == 'R':
            return False
        if held_mode == 'R' and wait_mode == 'U':
            return False
    return True
