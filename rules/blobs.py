"""Shared notions about blob values."""
import core

OPEN_NEW = 'blob::core::Blob::<K>::open_new'
_MEMO = {}


def fresh_blob_fns(prog):
    """Functions that return a freshly created blob: Blob::open_new and every in-crate function all of whose ok-return
    origins are results of such functions (helper extraction must not lose the anchor)."""
    _MEMO = prog.__dict__.setdefault('_fresh_memo', {})
    k = 'fresh'
    if k in _MEMO:
        return _MEMO[k]
    fresh = {OPEN_NEW}
    changed = True
    rounds = 0
    while changed and rounds < 4:
        changed = False
        rounds += 1
        for f in prog.fns.values():
            if f.root != f.id or f.id in fresh:
                continue
            b = prog.body_of(f.id)
            if b is None:
                continue
            ret = b.locals[0]['s']
            if 'blob::core::Blob<' not in ret or 'Vec<' in ret or 'Option<' in ret:
                continue
            ogs = []
            for (bb, kind, payload) in core.exit_defs(b):
                if kind == 'ok' and isinstance(payload, dict) and payload.get('ops'):
                    ogs += core.origins(b, payload['ops'][0])
                elif kind == 'fwd':
                    if isinstance(payload, core.Call):
                        ogs.append(core.Origin('call', b, payload.bb, payload))
                    elif isinstance(payload, dict) and payload.get('k') == 'use':
                        ogs += core.origins(b, payload['o'])
            calls = [o for o in ogs if o.kind == 'call']
            other = [o for o in ogs if o.kind not in ('call', 'const') and not (o.kind == 'agg' and o.data.get('adt') == 'std::result::Result')]
            if calls and not other and all(any(t in fresh for t in prog.resolve(o.data)) for o in calls):
                # every ok path returns a fresh blob (err paths: from_residual are calls too - accept `from_residual` origins)
                fresh.add(f.id)
                changed = True
    _MEMO[k] = fresh
    return fresh


def is_fresh_call(prog, c):
    fr = fresh_blob_fns(prog)
    tg = [t for t in prog.resolve(c) if t in prog.fns]
    return bool(tg) and all(t in fr for t in tg)
