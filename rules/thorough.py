"""Thorough tier: quick + checker self-validation (seeded mutants on scratch copies). Filled in later."""


def run(prop, ev):
    return 0, []
